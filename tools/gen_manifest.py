#!/usr/bin/env python3
"""Regenerates /verif/MANIFEST.json from the table below (kept next to the checker so the two stay in step)."""
import json, os, sys

HERE = os.path.dirname(os.path.dirname(os.path.abspath(__file__)))

SETUP = ("cd checker && GOFLAGS=-mod=mod GOPROXY=off GOSUMDB=off GOTOOLCHAIN=local GOWORK=off "
         "go build -o ../bin/stfscheck . && cd .. && bin/stfscheck -list")

BASELINE = ("cd /repo && GOFLAGS=-mod=mod go test -json -vet=off -count=1 -timeout 25m ./...")

NOTE = ("Static analysis only: go/packages + go/types + go/cfg (+ go/ssa for value identity) over /repo's current "
        "working tree; nothing in /repo is executed. Trusted: the Go type checker and CFG builder, the rule tables in "
        "/verif/checker, dependencies (tar, sqlboiler, SQLite, codecs, crypto) as opaque.")

# id -> (claimed?, text, technique, design_ref, reason-if-not-claimed)
CHECKS = {}

def claim(pid, text, technique, ref):
    CHECKS[pid] = dict(claimed=True, text=text, technique=technique, ref=ref)

def na(pid, reason):
    CHECKS[pid] = dict(claimed=False, reason=reason)

exec(open(os.path.join(HERE, "tools", "claims.py")).read())

def main():
    checks, notapp = [], []
    for pid in sorted(CHECKS):
        c = CHECKS[pid]
        if c["claimed"]:
            checks.append({
                "property_id": pid,
                "quick_cmd": f"bin/stfscheck -p {pid} -tier quick",
                "thorough_cmd": f"bin/stfscheck -p {pid} -tier thorough",
                "evidence_file": f"evidence/{pid}.json",
                "replay_cmd_template": "bin/stfscheck -replay {path}",
                "engine": "stfscheck",
                "level_claimed": {"category": "other", "text": c["text"], "design_ref": c["ref"]},
                "level_note": NOTE,
                "technique": c["technique"],
            })
        else:
            notapp.append({"property_id": pid, "reason": c["reason"]})
    m = {
        "version": 1,
        "setup_cmd": SETUP,
        "hooks": {
            "guard": "verif",
            "enable": "none needed: the checks read source, they do not build or run /repo; no hook commits exist",
            "baseline_off_cmd": BASELINE,
            "source_commits": [],
            "add_only": True,
        },
        "engines": [{
            "name": "stfscheck",
            "path": "checker/",
            "serves_properties": [c["property_id"] for c in checks],
            "kind_free_text": "repository-specific static analyzer (Go; x/tools v0.29.0: go/packages, go/types, go/cfg, go/ssa)",
        }],
        "checks": checks,
        "not_applicable": notapp,
        "notes": "All claims are at level 'other': each check decides named structural necessary conditions of its property for every path / call site / switch arm of the source, not the runtime behaviour itself. See DESIGN.md.",
    }
    with open(os.path.join(HERE, "MANIFEST.json"), "w") as f:
        json.dump(m, f, indent=1)
        f.write("\n")
    try:
        import jsonschema
        jsonschema.validate(m, json.load(open("/root/.vp/MANIFEST.schema.json")))
        print("MANIFEST.json valid:", len(checks), "checks,", len(notapp), "not applicable")
    except ImportError:
        print("MANIFEST.json written (jsonschema not importable here)")

if __name__ == "__main__":
    main()
