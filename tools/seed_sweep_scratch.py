#!/usr/bin/env python3
"""Like seed_sweep.py, but every seeded change is applied to its own scratch copy of /repo (outside /repo and /verif,
removed afterwards), several at a time - for use while /repo must not be touched (a long check is reading it) or when
a sweep has to be quick. Writes the same seeded/RESULTS.md and meta.json fields. Usage: seed_sweep_scratch.py [-j N] [names...]"""
import json, os, subprocess, glob, sys, shutil, tempfile, re
from concurrent.futures import ThreadPoolExecutor
os.chdir("/verif")
args = sys.argv[1:]
jobs = 6
if args[:1] == ["-j"]:
    jobs = int(args[1]); args = args[2:]
props = [c["property_id"] for c in json.load(open("MANIFEST.json"))["checks"]]
names = [os.path.basename(d.rstrip("/")) for d in sorted(glob.glob("seeded/*/"))]
if args: names = [n for n in names if n in args]

def one(name):
    d = f"seeded/{name}/"
    tmp = tempfile.mkdtemp(prefix="seedsw-")
    try:
        os.makedirs(tmp + "/repo"); os.makedirs(tmp + "/verif/evidence"); shutil.copy("known_findings.json", tmp + "/verif/")
        subprocess.run(f"cd /repo && tar --exclude=.git -cf - . | (cd {tmp}/repo && tar -xf -)", shell=True, check=True)
        r = subprocess.run(["git", "apply", os.path.abspath(d + "patch.diff")], cwd=tmp + "/repo", capture_output=True, text=True)
        if r.returncode != 0:
            return (name, "PATCH-DOES-NOT-APPLY", [])
        o = subprocess.run(["bin/stfscheck", "-p", "all", "-tier", "quick", "-repo", tmp + "/repo", "-verif", tmp + "/verif"], capture_output=True, text=True)
        caught, lines = [], []
        for l in o.stdout.splitlines():
            t = l.strip()
            m = re.match(r"result (C\d+): .* exit=(\d+)", t)
            if m and m.group(2) != "0" and m.group(1) in props: caught.append(m.group(1))
            if t.startswith(("VIOLATED", "UNDECIDED", "BROKEN", "UNRESOLVED")): lines.append(t[:260])
        if o.returncode == 2 and not caught and "BROKEN" in o.stdout: lines.append("BROKEN load")
        # prefer a VIOLATED line as the first report
        lines.sort(key=lambda t: 0 if t.startswith("VIOLATED") else 1)
        meta = json.load(open(d + "meta.json")); meta["caught_by"] = caught; meta["reports"] = lines[:6]
        json.dump(meta, open(d + "meta.json", "w"), indent=1)
        print(name, "->", ",".join(caught) or "MISSED", flush=True)
        return (name, ",".join(caught) or "-", lines[:2])
    finally:
        shutil.rmtree(tmp, ignore_errors=True)

with ThreadPoolExecutor(max_workers=jobs) as ex:
    rows = list(ex.map(one, names))
if not args:
    with open("seeded/RESULTS.md", "w") as f:
        f.write("# Seeded changes vs. checks (written by tools/seed_sweep.py / seed_sweep_scratch.py)\n\n| seeded change | property it breaks | flagged by | first report |\n|---|---|---|---|\n")
        for name, c, lines in rows:
            f.write(f"| {name} | {name.split('-')[0]} | {c} | {(lines[0] if lines else '').replace('|','/')[:160]} |\n")
        n = len(rows); k = sum(1 for r in rows if r[1] not in ("-", "PATCH-DOES-NOT-APPLY"))
        f.write(f"\n{k} of {n} seeded changes are reported by at least one check.\n")
