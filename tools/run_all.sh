#!/bin/bash
# Runs every claimed check (quick tier by default) against /repo and validates the evidence files.
cd "$(dirname "$0")/.." || exit 2
tier=${1:-quick}
rc=0
for p in $(python3 -c "import json;print(' '.join(c['property_id'] for c in json.load(open('MANIFEST.json'))['checks']))"); do
  out=$(bin/stfscheck -p "$p" -tier "$tier" 2>&1); e=$?
  echo "$out" | grep -E "^(result|VIOLATION|BROKEN|UNRESOLVED|KNOWN-FINDING)" | cut -c1-220
  [ $e -ne 0 ] && rc=1
done
python3-vt tools/validate.py || rc=1
exit $rc
