#!/usr/bin/env python3
import json, glob, jsonschema, sys
ms=json.load(open('/root/.vp/MANIFEST.schema.json')); es=json.load(open('/root/.vp/EVIDENCE.schema.json'))
m=json.load(open('/verif/MANIFEST.json')); jsonschema.validate(m,ms)
bad=0
for c in m['checks']:
    p='/verif/'+c['evidence_file']
    try:
        e=json.load(open(p)); jsonschema.validate(e,es)
        cov=e['coverage']
        print(c['property_id'],'ok obligations',cov.get('obligations'),'discharged',cov.get('discharged'),'nontrivial',cov.get('distinct_nontrivial'),'viol',e.get('violations'))
    except Exception as ex:
        bad+=1; print(c['property_id'],'BAD',str(ex)[:200])
sys.exit(1 if bad else 0)
