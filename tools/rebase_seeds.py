#!/usr/bin/env python3
"""After a new commit in /repo: re-base every seeded / benign patch that no longer applies cleanly (3-way in a scratch worktree)."""
import glob, os, subprocess, sys
wt = "/tmp/wt/rebase"
subprocess.run(["git", "-C", "/repo", "worktree", "remove", "--force", wt], capture_output=True)
subprocess.run(["git", "-C", "/repo", "worktree", "add", "-q", "--detach", wt, os.environ.get("REV", "HEAD")], check=True)
try:
    for pf in sorted(glob.glob("/verif/seeded/*/patch.diff") + glob.glob("/verif/benign/*/patch.diff")):
        subprocess.run(["git", "-C", wt, "reset", "-q", "--hard", "HEAD"]); subprocess.run(["git", "-C", wt, "clean", "-qfd"])
        if subprocess.run(["git", "-C", wt, "apply", "--check", pf], capture_output=True).returncode == 0:
            continue
        r = subprocess.run(["git", "-C", wt, "apply", "--3way", pf], capture_output=True, text=True)
        st = subprocess.run(["git", "-C", wt, "diff", "--name-only", "--diff-filter=U"], capture_output=True, text=True).stdout.strip()
        if r.returncode != 0 or st:
            print("CONFLICT", pf, r.stderr.strip()[:200]); continue
        new = subprocess.run(["git", "-C", wt, "diff", "HEAD"], capture_output=True, text=True).stdout
        build = subprocess.run(["go", "build", "./..."], cwd=wt, capture_output=True, text=True, env=dict(os.environ, GOFLAGS="-mod=mod", GOPROXY="off", GOSUMDB="off"))
        if build.returncode != 0:
            print("REBASED-BUT-DOES-NOT-BUILD", pf); continue
        open(pf, "w").write(new)
        print("rebased", pf)
finally:
    subprocess.run(["git", "-C", "/repo", "worktree", "remove", "--force", wt], capture_output=True)
