#!/usr/bin/env python3
"""keep_seed.py <worktree name> <k>: copies a confirmed sub-agent change from /tmp/wt/<name>/out/<k> into /verif/seeded/."""
import sys, os, shutil, json, re
wt, k = sys.argv[1], sys.argv[2]
prop = re.sub(r"^r\d+", "", wt)
rnd = re.match(r"^(r\d+)", wt)
src = f"/tmp/wt/{wt}/out/{k}"; dst = f"/verif/seeded/{prop}-{rnd.group(1)+'-' if rnd else ''}{k}"
log = open(f"/tmp/confirm_{wt}_{k}.log").read()
m = re.search(r"SUMMARY without=(\d+) build=(\d+) with=(\d+) pinned=(\d+)", log)
assert m, "no confirmation summary"
w0, b, w1, t = map(int, m.groups())
assert w0 == 0 and b == 0 and w1 != 0 and t == 0, "not confirmed: " + m.group(0)
if os.path.exists(dst): shutil.rmtree(dst)
os.makedirs(dst)
shutil.copy(src + "/patch.diff", dst + "/patch.diff")
shutil.copytree(src + "/demo", dst + "/demo")
notes = open(src + "/notes.md").read()
open(dst + "/notes.md", "w").write(notes)
# drop bulky logs
for root, _, files in os.walk(dst):
    for f in files:
        p = os.path.join(root, f)
        if os.path.getsize(p) > 200_000: os.remove(p)
meta = {
    "property": prop,
    "origin": "independent sub-agent given only the property record and a scratch worktree of /repo at HEAD (with the fix: commits)",
    "what_it_needs_to_manifest": " ".join(notes.split("\n\n")[1:3])[:900] if "\n\n" in notes else notes[:900],
    "confirmed": {
        "where": f"scratch worktree /tmp/wt/{wt} (removed afterwards)",
        "commands": ["bash demo/run.sh  (clean tree)", "git apply patch.diff && go build ./...", "bash demo/run.sh  (with change)", "go test ./pkg/fs -run 'TestFileInfo|TestFile_Name' -count=1  (with change)"],
        "demo_exit_without_change": w0, "build_exit": b, "demo_exit_with_change": w1, "pinned_tests_exit_with_change": t,
    },
    "caught_by": None,
}
json.dump(meta, open(dst + "/meta.json", "w"), indent=1)
print("kept", dst)
