#!/bin/bash
# confirm_seed.sh <worktree> <k> : re-checks a sub-agent's change in its scratch worktree:
#   demo passes without the change, fails with it, project builds, pinned tests still pass with it.
export GOFLAGS=-mod=mod GOPROXY=off GOSUMDB=off GOTOOLCHAIN=local; unset GOWORK
wt=$1; k=$2; o=$wt/out/$k
cd "$wt" || exit 2
git reset -q --hard HEAD; git clean -qfd -e out
echo "== demo WITHOUT change"; timeout 600 bash $o/demo/run.sh > /tmp/seed_without.log 2>&1; w0=$?; echo "exit=$w0"
git reset -q --hard HEAD; git clean -qfd -e out
git apply $o/patch.diff || { echo "PATCH DOES NOT APPLY"; exit 3; }
echo "== build"; go build ./cmd/... ./pkg/... ./internal/... ./examples/... ; b=$?; echo "exit=$b"
echo "== demo WITH change"; timeout 600 bash $o/demo/run.sh > /tmp/seed_with.log 2>&1; w1=$?; echo "exit=$w1"
# demos may have added test files; keep only the patch for the pinned run
git reset -q --hard HEAD; git clean -qfd -e out; git apply $o/patch.diff
echo "== pinned tests WITH change"; timeout 900 go test ./pkg/fs -run 'TestFileInfo|TestFile_Name' -count=1 > /tmp/seed_pinned.log 2>&1; t=$?; tail -2 /tmp/seed_pinned.log; echo "exit=$t"
git reset -q --hard HEAD; git clean -qfd -e out
echo "SUMMARY without=$w0 build=$b with=$w1 pinned=$t"
[ $w0 -eq 0 ] && [ $b -eq 0 ] && [ $w1 -ne 0 ] && [ $t -eq 0 ]
