#!/usr/bin/env python3
"""Runs the repository's pinned suite (command from /root/.vp/BASELINE.json) and checks that every stable_pass test passes."""
import json, subprocess, sys, os
base=json.load(open('/root/.vp/BASELINE.json'))
want=set(base['stable_pass'])
out=sys.argv[1] if len(sys.argv)>1 else '/tmp/baseline_run.json'
env=dict(os.environ, GOFLAGS='-mod=mod', GOPROXY='off', GOSUMDB='off')
with open(out,'w') as f:
    subprocess.run(['go','test','-json','-vet=off','-count=1','-timeout','25m','./...'],cwd='/repo',stdout=f,stderr=subprocess.DEVNULL,env=env)
got=set(); failed=set()
for l in open(out):
    try: e=json.loads(l)
    except Exception: continue
    if e.get('Test'):
        k=e['Package']+'::'+e['Test']
        if e.get('Action')=='pass': got.add(k)
        if e.get('Action')=='fail': failed.add(k)
missing=want-got
print('stable_pass',len(want),'passed now',len(got),'failed now',len(failed),'missing from stable set',len(missing))
for m in sorted(missing)[:20]: print('  MISSING',m)
sys.exit(1 if missing else 0)
