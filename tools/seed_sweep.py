#!/usr/bin/env python3
"""Applies every /verif/seeded/*/patch.diff to /repo in turn, runs all claimed checks, undoes it, and records who caught it."""
import json, os, subprocess, glob, sys, shutil, tempfile
os.chdir("/verif")
props = [c["property_id"] for c in json.load(open("MANIFEST.json"))["checks"]]
only = sys.argv[1:]
rows = []
for d in sorted(glob.glob("seeded/*/")):
    name = os.path.basename(d.rstrip("/"))
    if only and name not in only: continue
    st = subprocess.run(["git", "-C", "/repo", "status", "--porcelain"], capture_output=True, text=True).stdout.strip()
    assert st == "", "/repo is not clean: " + st
    r = subprocess.run(["git", "-C", "/repo", "apply", os.path.abspath(d + "patch.diff")], capture_output=True, text=True)
    if r.returncode != 0:
        rows.append((name, "PATCH-DOES-NOT-APPLY", [])); continue
    tv = tempfile.mkdtemp(prefix="seedev-"); os.makedirs(tv + "/evidence"); shutil.copy("known_findings.json", tv)
    caught, lines = [], []
    try:
        o = subprocess.run(["bin/stfscheck", "-p", "all", "-tier", "quick", "-verif", tv], capture_output=True, text=True)
        import re
        for l in o.stdout.splitlines():
            t = l.strip()
            m = re.match(r"result (C\d+): .* exit=(\d+)", t)
            if m and m.group(2) != "0" and m.group(1) in props: caught.append(m.group(1))
            if t.startswith(("VIOLATED", "UNDECIDED", "BROKEN", "UNRESOLVED")): lines.append(t[:260])
        if o.returncode == 2 and not caught and "BROKEN" in o.stdout: lines.append("BROKEN load")
    finally:
        subprocess.run(["git", "-C", "/repo", "checkout", "--", "."]); subprocess.run(["git", "-C", "/repo", "clean", "-qfd"])
        shutil.rmtree(tv)
    meta = json.load(open(d + "meta.json")); meta["caught_by"] = caught; meta["reports"] = lines[:6]
    json.dump(meta, open(d + "meta.json", "w"), indent=1)
    rows.append((name, ",".join(caught) or "-", lines[:2]))
    print(name, "->", ",".join(caught) or "MISSED", flush=True)
with open("seeded/RESULTS.md", "w") as f:
    f.write("# Seeded changes vs. checks (written by tools/seed_sweep.py)\n\n| seeded change | property it breaks | flagged by | first report |\n|---|---|---|---|\n")
    for name, c, lines in rows:
        f.write(f"| {name} | {name.split('-')[0]} | {c} | {(lines[0] if lines else '').replace('|','/')[:160]} |\n")
    n = len(rows); k = sum(1 for r in rows if r[1] not in ("-", "PATCH-DOES-NOT-APPLY"))
    f.write(f"\n{k} of {n} seeded changes are reported by at least one check.\n")
