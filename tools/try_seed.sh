#!/bin/bash
# try_seed.sh <patch.diff> : applies a seeded change to a scratch copy of /repo (outside /repo and /verif), runs every
# check on it in one process, removes the copy. (tools/seed_sweep.py does the same on /repo itself, as the brief describes.)
cd /verif || exit 2
patch=$(readlink -f "$1")
tmp=$(mktemp -d /tmp/seedtry-XXXXXX)
mkdir -p $tmp/repo $tmp/verif/evidence; cp known_findings.json $tmp/verif/
(cd /repo && tar --exclude=.git -cf - .) | (cd $tmp/repo && tar -xf -)
if ! (cd $tmp/repo && git apply "$patch" 2>/dev/null); then
  # fall back to a 3-way apply inside a throw-away worktree of /repo
  rm -rf $tmp/repo; git -C /repo worktree add -q $tmp/repo HEAD 2>/dev/null
  (cd $tmp/repo && git apply --3way "$patch" 2>/dev/null) || { echo "patch does not apply"; git -C /repo worktree remove --force $tmp/repo 2>/dev/null; rm -rf $tmp; exit 3; }
  wt=1
fi
out=$(${STFSCHECK:-bin/stfscheck} -p all -tier quick -repo $tmp/repo -verif $tmp/verif 2>&1)
echo "$out" | grep -E "^  (VIOLATED|UNDECIDED)|^BROKEN|^UNRESOLVED" | cut -c1-330
hit=$(echo "$out" | grep -E "^result C[0-9]+:.*exit=[12]" | sed -E 's/^result (C[0-9]+):.*/\1/' | tr '\n' ' ')
[ -n "$wt" ] && git -C /repo worktree remove --force $tmp/repo 2>/dev/null
rm -rf $tmp
echo "FLAGGED BY:${hit:- none}"
