#!/bin/bash
# try_seed.sh <patch.diff> [props...] : applies a seeded change to /repo, runs the checks, undoes it.
cd /verif || exit 2
patch=$1; shift
props=${@:-$(python3 -c "import json;print(' '.join(c['property_id'] for c in json.load(open('MANIFEST.json'))['checks']))")}
git -C /repo apply "$patch" || { echo "patch does not apply to /repo"; exit 3; }
mkdir -p /tmp/seed_ev_$$/evidence; cp known_findings.json /tmp/seed_ev_$$/; hit=""
for p in $props; do
  out=$(bin/stfscheck -p $p -tier quick -verif /tmp/seed_ev_$$ 2>&1); e=$?
  if [ $e -ne 0 ]; then hit="$hit $p"; echo "$out" | grep -E "^  (VIOLATED|UNDECIDED)|^BROKEN|^UNRESOLVED" | cut -c1-330; fi
done
git -C /repo checkout -- . ; git -C /repo clean -qfd
rm -rf /tmp/seed_ev_$$
echo "FLAGGED BY:${hit:- none}"
