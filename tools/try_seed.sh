#!/bin/bash
# try_seed.sh <patch.diff> [props...] : applies a seeded change to /repo, runs the checks, undoes it.
cd /verif || exit 2
patch=$1; shift
props=${@:-$(python3 -c "import json;print(' '.join(c['property_id'] for c in json.load(open('MANIFEST.json'))['checks']))")}
git -C /repo apply "$patch" 2>/dev/null || git -C /repo apply --3way "$patch" 2>/dev/null || { echo "patch does not apply to /repo"; git -C /repo reset -q --hard HEAD; exit 3; }
mkdir -p /tmp/seed_ev_$$/evidence; cp known_findings.json /tmp/seed_ev_$$/; hit=""
out=$(bin/stfscheck -p all -tier quick -verif /tmp/seed_ev_$$ 2>&1)
echo "$out" | grep -E "^  (VIOLATED|UNDECIDED)|^BROKEN|^UNRESOLVED" | cut -c1-330
hit=$(echo "$out" | grep -E "^result C[0-9]+:.*exit=[12]" | sed -E 's/^result (C[0-9]+):.*/\1/' | tr '\n' ' ')
git -C /repo reset -q --hard HEAD ; git -C /repo clean -qfd
rm -rf /tmp/seed_ev_$$
echo "FLAGGED BY:${hit:- none}"
