# Per-property claims; edited as checks are built. Executed by gen_manifest.py.
PENDING = "check not built yet in this round (planned in DESIGN.md); not claimed until it runs clean on the unchanged tree"


# C06 was planned as not applicable; four narrow structural clauses turned out to be decidable (DESIGN.md §7.2)

claim("C15",
      "Decides for all paths of the source that no exported method of the filesystem or file handle can reach a tape- or index-changing call while the instance is read-only (may-not-reach over the static call graph with per-function must-dataflow for the guards), that the flags those guards rely on can only be set on a writable instance, and that the read-only branch returns a permission error. Does not decide equality of read results with a writable twin.",
      "static may-not-reach: call-graph sink reachability + go/cfg must-dataflow guard domination + who-may-write field rules",
      "DESIGN.md §3 C15")

claim("C01",
      "Decides, for every call site and path of the source, three code-shape conditions without which the live index cannot equal a rebuild from the tape: index rows are changed only underneath recovery.Index (call-graph cut), the header appended to the tape is exactly the snapshot the live index receives modulo the sign/encrypt wrappers (must-dataflow per WriteHeader site), every success exit after an append replays through recovery.Index, and the header converters pair fields correctly. Does not decide replay semantics over histories or tar fidelity. Also: `initializing=true` originates only in the root-creating Initialize functions, and replay applies every record past the caller's offset.",
      "static call-graph cut (who-may-call) + go/cfg must-dataflow (snapshot window, append-then-index) + struct-literal field pairing",
      "DESIGN.md §3 C01")
claim("C02",
      "Narrow: decides that the four header converters assign every field from its same-meaning counterpart and that every tape-appending call of the filesystem layer is reachable only across the success edge of the lookup that establishes its precondition (parent exists, source/target exists, directory empty). The equivalence with a reference filesystem itself is not decided.",
      "struct-literal field pairing + go/cfg success-edge domination of append calls by inventory.Stat/List lookups",
      "DESIGN.md §3 C02")
claim("C03",
      "Decides the structure of the content pipeline for every format key and both writing functions: format/level switch exhaustiveness against config.Known* (evaluated from source), suffix add/remove agreement, agreement of the size pass and the write pass, inverse nesting of write and read stages by value identity, Flush/Close order before the encoded size is read, and save/restore of the logical size. Byte equality through the codecs is not decided. Also: the two passes run under equivalent conditions (truth-table check) and copy with the same primitive per drive kind, and the size counters are advanced only by their own methods.",
      "switch-table exhaustiveness over constant objects + argument agreement + value-identity wiring + go/cfg must-dataflow for finish order",
      "DESIGN.md §3 C03")
claim("C08",
      "Decides fail-closed control flow: every success return of VerifyString/Verify/VerifyHeader outside the None arm lies only on paths across the success edge of a crypto-module verification primitive; replay, fetch and query use a header only after verification succeeded on it; each recovery.Index call site either passes a fail-closed verifier or provably overwrites what was read from the tape; Fetch checks the content signature after the copy. Cryptographic strength is trusted. Also: decrypt/verify failures in Index/Fetch/Query and Fetch failures in Restore end the call with that error, the content verifier is built from the configured format, and the verification packages keep no package-level state.",
      "go/cfg must-dataflow with success-edge facts (fail-closed returns, verify-before-use), per call-site callback classification",
      "DESIGN.md §3 C08")
claim("C09",
      "Decides that every header written passes SignHeader then EncryptHeader on the same variable with the configured format and recipient and no later store, that the tar writer is used only for WriteHeader and as Encrypt destination, and that the wrapper header carries only Format, Size and the encrypted JSON of the whole original header. Ciphertext secrecy is trusted to the crypto libraries. Also: a failing decrypt ends Index/Fetch/Query with that error and the encryption/recovery packages keep no package-level state.",
      "go/cfg success-edge domination per WriteHeader site + who-may-use of the tar writer value + composite-literal shape",
      "DESIGN.md §3 C09")
claim("C10",
      "Decides resource typestate on every control-flow path: each exit after a successful drive acquire has released it (and no close runs with the drive free), the tape manager's mutex is released on every error return and on every return of Close, every other mutex Lock is paired on all exits, library code has no panic / Must-compile of caller input / pipe goroutine that drops an error, and every BackendConfig binds Close* to the manager that Get* came from. Hangs caused by client pacing and injected I/O faults are not decided. Also: the drive is never re-acquired while the same call holds it, and no error result is dropped on the drive/index path outside a frozen exemption table.",
      "typestate may-dataflow over go/cfg with err!=nil edge refinement (drive bracket, mutex pairs) + who-may-call crash-site rule with embedded positive control",
      "DESIGN.md §3 C10")

claim("C07",
      "Narrow: decides the insert discipline of the index store - every generated Insert is reachable only after a lookup by the same primary-key columns found nothing, the CREATE arm of replay goes through that method, every raw primary-key rewrite must be preceded by a check of the destination key (two known findings in MoveHeader), and replay rejects unknown actions. Convergence of re-indexing over histories is not decided. Also: a persister mutator reports success only after its SQL write, opening the store loads the cached root, and replay skips no record.",
      "go/cfg edge-fact domination of Insert by a keyed lookup + SQL-fragment classification of raw statements + switch-table check",
      "DESIGN.md §3 C07")
claim("C12",
      "Decides that rows selected by an unescaped LIKE pattern built from a caller's name are re-checked against the literal prefix before they leave the persister, that Rename reaches Move only past a test relating the destination to the source's subtree, and that Delete/Move hand every descendant returned by the lookup to the write loop. What SQLite matches for a concrete tree is not decided. Also: Move rewrites only the source prefix of descendant names, the subtree test runs on cleaned names, and descendants are pre-selected by a predicate from the table of known supersets.",
      "SQL-fragment discovery over resolved query-builder calls + go/cfg edge-fact guards on result appends and on the move call",
      "DESIGN.md §3 C12")
claim("C13",
      "Decides that every creation site tests the parent's kind before appending, that MkdirAll enumerates ancestors by a separator split and handles each prefix, that every select over the headers table filters tombstones (two frozen exceptions), and that listings exclude the queried directory itself. The SQL depth expression and limit arithmetic are not decided. Also: the descendant pre-selection predicate is from the table of known supersets of the literal prefix.",
      "go/cfg edge-fact guards on append calls + value provenance of the range expression + SQL-fragment predicate check + who-may-call with embedded positive control",
      "DESIGN.md §3 C13")
claim("C14",
      "Decides the seek algebra (offset enters every whence arm with coefficient +1; success returns yield the computed target, never a byte count), access gating of the read and write paths by the open flags, exclusive consumption of O_TRUNC/O_APPEND in enterWriteMode, and flush-before-discard on close. Byte/offset equality with a reference file is not decided. Also: the first write decides from a fresh index lookup, no value read from the streaming reader is used after the reader may have been replaced, and write-cache Size() is a pure query of the underlying object; Read replaces the streaming reader only when none is open, and the flush depends on nothing but the cache existing.",
      "linear normalisation of switch-arm expressions (sibling agreement) + go/cfg edge-fact guards + success-edge domination",
      "DESIGN.md §3 C14")
claim("C16",
      "Decides destructive-path gating of opening: sink-reaching calls in Initialize only when the index has no root, no destructive call on the failure edge of the rebuild (one known finding), overwrite=true reaches the tape manager only from the two whitelisted commands, and truncation/rewind inside pkg/tape is control-dependent on overwrite with O_APPEND on every regular write open. Faithfulness of the view after opening is not decided. Also: the rebuild in Initialize is configured from the read operations.",
      "go/cfg edge-fact guards and may-dataflow on the rebuild's failure edge + constant/flag provenance at NewTapeManager call sites",
      "DESIGN.md §3 C16")
claim("C17",
      "Single clause: decides that every caller-supplied name reaches SQL only after getSanitizedPath (one frozen exception while initializing), that every root spelling of pathext.IsRoot has a branch in the normaliser, and that every cache type wraps non-root archive roots in a base-path view. That a given foreign archive opens correctly is not decided. Also: `initializing=true` provenance, the resynchronisation loop never returns a header-parse error, no cutset-style strings.Trim* on paths, and opening the store loads the root.",
      "go/cfg must-dataflow taint discipline (sanitise-before-use) + literal-set agreement between sibling functions",
      "DESIGN.md §3 C17")
claim("C18",
      "Decides table agreement per format key: the type each Parse* arm produces is identical to the type the matching Encrypt/Decrypt/Sign/Verify arm asserts, each generator/parser arm hands the password to a key-wrapping call of the crypto module, and conditional wrapping is matched by conditional unwrapping. Rejection of wrong passwords/keys is left to the crypto libraries. Also: every success path of an identity parser used the password or established it is empty, and key bytes reach the crypto module unmodified; the verify functions fail closed and the key/crypto packages keep no package-level state.",
      "switch-arm sibling agreement with types.Identical on produced vs asserted types + parameter-to-crypto-call flow per arm",
      "DESIGN.md §3 C18")

claim("C04",
      "Decides units and formula agreement of tape positions at every call site, field store and result (record vs block axis, content vs last-known vs current, by provenance), that every byte-offset expression in pkg/recovery normalises to 512*(RecordSize*record+block) or one of its legitimate parts, that re-derivations use one block count for quotient and remainder, and that the position is advanced between two indexed members. The numbers themselves are not evaluated. Also: record and block travel as a pair from one origin, the last-indexed position comes from one row ordered by lastknownrecord*recordSize+lastknownblock, the next position derives from the reader offset (never from header sizes), and an overwriting replay starts at (0,0).",
      "provenance classification of integer arguments (units) + syntactic polynomial normalisation (sibling agreement) + go/cfg must-dataflow",
      "DESIGN.md §3 C04")
claim("C05",
      "Decides the append-only discipline structurally: who may open, truncate or write the drive (path and handle provenance, O_APPEND, overwrite provenance), that Delete/Move finish all lookups and preparation before the first WriteHeader, that the trailer logic sees dirty=true whenever a header was written, and that freshly built and wrapper headers are PAX. That an independent tar reader iterates the result is not decided. Also: the trailer closure's final flush depends on nothing but dirty and not-regular.",
      "who-may-touch provenance rules + go/cfg success-edge domination and may-dataflow (trailer flag) + constant/flag provenance",
      "DESIGN.md §3 C05")

claim("C11",
      "Decides a static Eraser-style lockset for the handle and tape-manager state (every access shares a held mutex with every write, over all call paths from the exported filesystem/file methods and the goroutines they start, context-sensitive on the held set with returns-held summaries) and acyclicity of the acquired-while-held graph including the wait-for edge of the pipe-feeding goroutine (two known cycles: the documented reader-holds-the-drive deadlock). Linearizability and the index store's cached root are not decided. Also: every index/drive access of an exported method lies inside its ioLock section (frozen exceptions), the tracked mutexes are never taken in shared/try mode, and goroutines start only at the known sites.",
      "context-sensitive static lockset + lock-order graph (go/cfg must-dataflow per function, call-graph exploration keyed by held set) with a pipe wait-for edge",
      "DESIGN.md §3 C11")

claim("C06",
      "Narrow: decides four structural clauses of crash prefix-recoverability on the indexer's source - the resynchronisation loop leaves only by end-of-file, a parsed header or a drive error and re-positions by rounding the drive offset UP to whole blocks; a member's header is applied to the index before its content is skipped; skip and seek failures are returned; nothing but an explicit overwrite truncates or rewinds the drive. The behaviour on arbitrary torn tapes (archive/tar on garbage, equality with the last complete state) is NOT decided.",
      "AST/CFG shape rules on the resynchronisation loop + success-edge ordering (header before content) + error-propagation rule + overwrite provenance",
      "DESIGN.md §3 C06 and §7.2")
