# Per-property claims; edited as checks are built. Executed by gen_manifest.py.
PENDING = "check not built yet in this round (planned in DESIGN.md); not claimed until it runs clean on the unchanged tree"

for _p in ["C01","C02","C03","C04","C05","C07","C08","C09","C10","C11","C12","C13","C14","C16","C17","C18"]:
    na(_p, PENDING)

na("C06", "quantifies over every byte prefix of a runtime tape and over archive/tar's behaviour on arbitrary bytes plus a termination argument for the resynchronisation loop; no sound dataflow/typestate rule in reach decides any clause of it (the only structural ingredient, earlier records are never touched, is claimed under C05)")

claim("C15",
      "Decides for all paths of the source that no exported method of the filesystem or file handle can reach a tape- or index-changing call while the instance is read-only (may-not-reach over the static call graph with per-function must-dataflow for the guards), that the flags those guards rely on can only be set on a writable instance, and that the read-only branch returns a permission error. Does not decide equality of read results with a writable twin.",
      "static may-not-reach: call-graph sink reachability + go/cfg must-dataflow guard domination + who-may-write field rules",
      "DESIGN.md §3 C15")
