// stfscheck decides structural clauses of the given properties of pojntfx/stfs by static analysis of
// /repo's current working tree (go/packages + go/types + go/cfg + go/ssa). Nothing in /repo is executed.
package main

import (
	"encoding/json"
	"flag"
	"fmt"
	"go/ast"
	"os"
	"path/filepath"
	"runtime/debug"
	"sort"
	"strconv"
	"strings"
	"time"
)

type Property struct {
	ID          string
	Explanation string
	NotDecided  string
	Assumptions []string
	Rules       []func(*Ctx)
}

var properties = map[string]*Property{}

func register(p *Property) { properties[p.ID] = p }

func main() {
	prop := flag.String("p", "", "property id (C01..C18)")
	tier := flag.String("tier", "quick", "quick|thorough")
	repo := flag.String("repo", "/repo", "repository working tree to analyse")
	verif := flag.String("verif", "", "verification directory (default: parent of the binary's directory)")
	replay := flag.String("replay", "", "re-evaluate the obligation recorded in this replay file")
	selftest := flag.Bool("selftest", false, "run the sensitivity corpus for -p (thorough tier does this itself)")
	list := flag.Bool("list", false, "list properties and rules")
	finv := flag.Bool("fieldinventory", false, "print the inventory of unexported struct fields of -repo (the frozen copy is checker/fields.txt)")
	inv := flag.Bool("inventory", false, "print the function inventory of -repo (the frozen copy is checker/inventory.txt)")
	flag.Parse()

	if *verif == "" {
		exe, err := os.Executable()
		if err == nil {
			*verif = filepath.Dir(filepath.Dir(exe))
		} else {
			*verif = "/verif"
		}
	}
	if t := os.Getenv("VERIF_TIER"); t != "" && !isFlagSet("tier") {
		*tier = t
	}
	seed := 0
	if s := os.Getenv("VERIF_SEED"); s != "" {
		seed, _ = strconv.Atoi(s)
	}
	if *list {
		var ids []string
		for id := range properties {
			ids = append(ids, id)
		}
		sort.Strings(ids)
		for _, id := range ids {
			fmt.Printf("%s: %d rule groups\n", id, len(properties[id].Rules))
		}
		return
	}
	if *finv {
		c, err := load(loadOpts{Dir: *repo, NoNormalise: true})
		if err != nil {
			fmt.Printf("BROKEN: %v\n", err)
			os.Exit(2)
		}
		var lines []string
		for _, p := range c.Pkgs {
			if strings.Contains(p.PkgPath, "/internal/db/") {
				continue
			}
			for _, f := range p.Syntax {
				structFields(relOf(p.PkgPath), f, func(key, typ string, id *ast.Ident, ts *ast.TypeSpec) {
					lines = append(lines, key+"\t"+typ)
				})
				structTypes(relOf(p.PkgPath), f, func(key string, ts *ast.TypeSpec) {
					lines = append(lines, key+"\tstruct")
				})
			}
		}
		sort.Strings(lines)
		fmt.Println("# unexported struct fields of the tree the rules were confirmed on (pkg Type.field, type); see normalise.go")
		for _, l := range lines {
			fmt.Println(l)
		}
		return
	}
	if *inv {
		c, err := load(loadOpts{Dir: *repo, NoNormalise: true})
		if err != nil {
			fmt.Printf("BROKEN: %v\n", err)
			os.Exit(2)
		}
		var lines []string
		for _, p := range c.Pkgs {
			for _, f := range p.Syntax {
				for _, d := range f.Decls {
					if fd, ok := d.(*ast.FuncDecl); ok {
						lines = append(lines, inventoryKey(p.PkgPath, fd)+"\t"+sigKey(fd)+"\t"+paramNamesKey(fd))
					}
				}
			}
		}
		sort.Strings(lines)
		fmt.Println("# function inventory of the tree the rules were confirmed on (pkg, function); see normalise.go")
		for _, l := range lines {
			fmt.Println(l)
		}
		return
	}
	if *replay != "" {
		os.Exit(doReplay(*replay, *repo, *verif))
	}
	if *prop == "all" {
		os.Exit(runAllProps(*tier, seed, *repo, *verif))
	}
	p := properties[*prop]
	if p == nil {
		fmt.Printf("BROKEN: unknown property %q\n", *prop)
		os.Exit(2)
	}
	if *tier != "quick" && *tier != "thorough" {
		fmt.Printf("BROKEN: unknown tier %q\n", *tier)
		os.Exit(2)
	}
	if *selftest {
		os.Exit(runSelftest(p, *repo, *verif))
	}
	os.Exit(run(p, *tier, seed, *repo, *verif))
}

func isFlagSet(name string) bool {
	set := false
	flag.Visit(func(f *flag.Flag) {
		if f.Name == name {
			set = true
		}
	})
	return set
}

// analyse loads one build variant of the repository and runs the property's rules on it.
func analyse(p *Property, o loadOpts) (c *Ctx, err error) {
	defer func() {
		if r := recover(); r != nil {
			err = fmt.Errorf("analyzer panic: %v\n%s", r, debug.Stack())
		}
	}()
	c, err = load(o)
	if err != nil {
		return nil, err
	}
	c.Prop = p.ID
	for _, r := range p.Rules {
		r(c)
	}
	return c, nil
}

func run(p *Property, tier string, seed int, repo, verif string) int {
	start := time.Now()
	variants := []loadOpts{{Dir: repo}}
	if tier == "thorough" {
		variants = append(variants,
			loadOpts{Dir: repo, GOOS: "windows", GOARCH: "amd64"},
			loadOpts{Dir: repo, GOOS: "linux", GOARCH: "riscv64"},
		)
	}
	var obls []Obligation
	var unresolved, notes []string
	floors := map[string]int{}
	explain := map[string]string{}
	var analysed []map[string]interface{}
	for i, v := range variants {
		c, err := analyse(p, v)
		if err != nil {
			if i > 0 && v.GOOS != "" {
				// a cross-compilation variant that cannot be loaded offline is reported, not fatal
				notes = append(notes, fmt.Sprintf("variant %s/%s not analysed: %v", v.GOOS, v.GOARCH, err))
				continue
			}
			fmt.Printf("BROKEN: %v\n", err)
			return 2
		}
		obls = append(obls, c.Obls...)
		for _, u := range c.Unresolved {
			unresolved = append(unresolved, c.Variant+u)
		}
		notes = append(notes, c.Notes...)
		if i == 0 && c.Norm != nil && (len(c.Norm.Overlay) > 0 || len(c.Norm.Notes) > 0) {
			for _, nn := range c.Norm.Notes {
				notes = append(notes, "normalised: "+nn)
				fmt.Printf("NORMALISED: %s\n", nn)
			}
			saveNormalised(c.Norm, repo, verif)
			fmt.Printf("NORMALISED: positions in the %d transformed file(s) refer to the text saved under %s\n", len(c.Norm.Overlay), filepath.Join(verif, "evidence", "normalised"))
		}
		if i == 0 {
			for k, f := range c.floors {
				floors[k] = f
				explain[k] = c.explain[k]
			}
		}
		nf := 0
		for _, f := range c.Funcs {
			if f.Decl != nil {
				nf++
			}
		}
		analysed = append(analysed, map[string]interface{}{"variant": c.Variant, "packages": len(c.Pkgs), "functions": nf, "functions_and_literals": len(c.Funcs)})
		fmt.Printf("analysed variant %q: %d packages, %d functions (+%d literals)\n", c.Variant, len(c.Pkgs), nf, len(c.Funcs)-nf)
	}
	extra := map[string]interface{}{"analysed": analysed}
	if tier == "thorough" {
		st := selftestSummary(p, repo, verif)
		extra["sensitivity_corpus"] = st
		for _, s := range st {
			if s.Status == "missed" || s.Status == "broken" {
				fmt.Printf("BROKEN: sensitivity variant %s: %s (%s)\n", s.Name, s.Status, s.Detail)
				finish(verif, p, tier, seed, obls, unresolved, notes, floors, explain, extra, start)
				return 2
			}
		}
	}
	return finish(verif, p, tier, seed, obls, unresolved, notes, floors, explain, extra, start)
}

func doReplay(path, repo, verif string) int {
	b, err := os.ReadFile(path)
	if err != nil {
		fmt.Printf("BROKEN: %v\n", err)
		return 2
	}
	var r struct {
		Property   string     `json:"property"`
		Obligation Obligation `json:"obligation"`
	}
	if err := json.Unmarshal(b, &r); err != nil {
		fmt.Printf("BROKEN: %v\n", err)
		return 2
	}
	p := properties[r.Property]
	if p == nil {
		fmt.Printf("BROKEN: unknown property %q in replay file\n", r.Property)
		return 2
	}
	c, err := analyse(p, loadOpts{Dir: repo})
	if err != nil {
		fmt.Printf("BROKEN: %v\n", err)
		return 2
	}
	for _, o := range c.Obls {
		if o.Key == r.Obligation.Key {
			fmt.Printf("replay %s: %s at %s\n  %s\n", o.Key, o.Verdict, o.Pos, o.Detail)
			if o.Verdict != Discharged {
				fmt.Printf("VIOLATION property=%s replay=%s\n", r.Property, path)
				return 1
			}
			return 0
		}
	}
	fmt.Printf("replay %s: obligation no longer exists on the current tree\n", r.Obligation.Key)
	return 0
}

// runAllProps analyses the default build variant once and evaluates every registered property on it (used by
// sweeps; the registered per-property commands run one property per process).
func runAllProps(tier string, seed int, repo, verif string) int {
	start := time.Now()
	c, err := load(loadOpts{Dir: repo})
	if err != nil {
		fmt.Printf("BROKEN: %v\n", err)
		return 2
	}
	if c.Norm != nil && (len(c.Norm.Overlay) > 0 || len(c.Norm.Notes) > 0) {
		for _, nn := range c.Norm.Notes {
			fmt.Printf("NORMALISED: %s\n", nn)
		}
		saveNormalised(c.Norm, repo, verif)
	}
	var ids []string
	for id := range properties {
		ids = append(ids, id)
	}
	sort.Strings(ids)
	worst := 0
	for _, id := range ids {
		p := properties[id]
		c.Prop = id
		c.Obls, c.Unresolved, c.Notes = nil, nil, nil
		c.floors, c.explain = nil, nil
		func() {
			defer func() {
				if r := recover(); r != nil {
					c.unresolved("analyzer panic in %s: %v", id, r)
				}
			}()
			for _, r := range p.Rules {
				r(c)
			}
		}()
		floors, explain := c.floors, c.explain
		if floors == nil {
			floors, explain = map[string]int{}, map[string]string{}
		}
		rc := finish(verif, p, tier, seed, c.Obls, c.Unresolved, c.Notes, floors, explain, map[string]interface{}{"analysed": []map[string]interface{}{{"variant": "", "packages": len(c.Pkgs)}}}, start)
		if rc > worst {
			worst = rc
		}
	}
	return worst
}
