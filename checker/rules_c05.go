package main

import (
	"fmt"
	"go/ast"
	"go/token"
	"go/types"
	"strings"

	"golang.org/x/tools/go/cfg"
)

func init() {
	register(&Property{
		ID:          "C05",
		Explanation: "Append-only discipline and trailer handling decided from the source: (drive-ownership) the drive path held by the tape manager flows only into pkg/tape's open functions, whose path parameter reaches nothing but os.Stat/os.Open/os.OpenFile; every regular open for writing carries O_APPEND and truncation/rewinding is control-dependent on the overwrite parameter, which is constant false at every constructor call except the two whitelisted commands; the writer handle handed to operations is consumed only as NewTapeWriter's destination and the reader handle's static type has no mutating method and is never type-asserted; (lookups-before-append) in Delete and Move the entry lookup succeeds before any WriteHeader and no index lookup follows a write, and every header is converted, signed and encrypted (errors checked) before it is written; (trailer) on every path to cleanup(&dirty) a written header has been followed by dirty = true, the cleanup closure closes the tar writer exactly when dirty and pads/flushes non-regular drives; (pax) headers built by the archive/update paths and both wrappers carry Format = tar.FormatPAX before they are written.",
		NotDecided:  "That an independent tar reader iterates the result, member data equality, headers loaded from the index in Delete/Move carrying the PAX format (assumed from what was stored), 512-byte alignment after a torn write.",
		Assumptions: []string{"os.O_APPEND makes every write land at end of file", "archive/tar writes well-formed members and a two-block trailer on Close"},
		Rules:       []func(*Ctx){ruleC05DriveOwnership, ruleOverwriteProvenance("C05.overwrite-provenance"), ruleC05LookupsBeforeAppend, ruleC05Trailer, ruleC05Pax},
	})
}

func ruleC05DriveOwnership(c *Ctx) {
	const rule = "C05.drive-ownership"
	c.floor(rule, 8, "uses of the drive path, of the writer/reader handles and file-opening calls in library packages")
	driveField := c.field("pkg/tape", "TapeManager", "drive")
	wDrive := c.field("pkg/config", "DriveWriterConfig", "Drive")
	rDrive := c.field("pkg/config", "DriveReaderConfig", "Drive")
	newTW := c.fn("internal/tarext", "NewTapeWriter")
	if driveField == nil || wDrive == nil || rDrive == nil || newTW == nil {
		return
	}
	// (i) TapeManager.drive is read only as the path argument of the two open functions
	n := 0
	for _, f := range c.Funcs {
		info := f.Pkg.TypesInfo
		parentCall := map[ast.Expr]*ast.CallExpr{}
		walkOwn(f.Body(), func(nd ast.Node) {
			if call, ok := nd.(*ast.CallExpr); ok {
				for _, a := range call.Args {
					parentCall[ast.Unparen(a)] = call
				}
			}
		})
		walkOwn(f.Body(), func(nd ast.Node) {
			e, ok := nd.(ast.Expr)
			if !ok || selField(info, e) != driveField {
				return
			}
			n++
			call := parentCall[e]
			good := false
			what := "used outside a call"
			if call != nil {
				if fn, ok := calleeObj(info, call).(*types.Func); ok {
					what = fn.Name()
					good = inRepo(fn) && strings.HasPrefix(fn.Name(), "OpenTape") && fn.Pkg().Path() == modPath+"/pkg/tape"
				}
			}
			if f.Name == "NewTapeManager" {
				return
			}
			c.verdictIf(good, rule, f, fmt.Sprintf("drive path use#%d", n), e.Pos(), "drive path handed to pkg/tape's open function", "the drive path flows to "+what+": something other than pkg/tape's open functions can open the drive")
		})
	}
	// inside pkg/tape: the `drive` parameter reaches only os.Stat / os.Open / os.OpenFile
	for _, name := range []string{"OpenTapeWriteOnly", "OpenTapeReadOnly"} {
		f := c.fn("pkg/tape", name)
		if f == nil {
			continue
		}
		dv := paramVar(f, "drive")
		k := 0
		// the path may be handed on to a helper of pkg/tape, which is then held to the same rule (two levels)
		var pathUses func(g *FuncInfo, v *types.Var, depth int)
		pathUses = func(g *FuncInfo, v *types.Var, depth int) {
			info := g.Pkg.TypesInfo
			for _, cs := range g.calls {
				uses := false
				for _, a := range cs.Call.Args {
					if usesObj(info, a, v) {
						uses = true
					}
				}
				if !uses {
					continue
				}
				o := cs.Callee
				if cs.Target != nil && cs.Target != g && cs.Target.Pkg == g.Pkg && cs.Target.Obj != nil && depth < 2 {
					sig := cs.Target.Obj.Type().(*types.Signature)
					plain := true
					var hp *types.Var
					for i, a := range cs.Call.Args {
						if !usesObj(info, a, v) {
							continue
						}
						if objOfIdent(info, a) == types.Object(v) && i < sig.Params().Len() && hp == nil {
							hp = sig.Params().At(i)
						} else {
							plain = false
						}
					}
					if plain && hp != nil {
						pathUses(cs.Target, hp, depth+1)
						continue
					}
				}
				k++
				good := isPkgFunc(o, "os", "Stat") || isPkgFunc(o, "os", "Open") || isPkgFunc(o, "os", "OpenFile")
				c.verdictIf(good, rule, f, fmt.Sprintf("path use#%d", k), cs.Call.Pos(), "drive path used by "+o.Name(), "the drive path is passed to "+exprString(cs.Call.Fun)+" (only os.Stat/Open/OpenFile are expected): e.g. os.Create/Remove/Rename/WriteFile would destroy tape content")
			}
		}
		pathUses(f, dv, 0)
		if name == "OpenTapeReadOnly" {
			for _, cs := range f.calls {
				if isPkgFunc(cs.Callee, "os", "OpenFile") && len(cs.Call.Args) == 3 {
					flags := exprString(cs.Call.Args[1])
					c.verdictIf(strings.Contains(flags, "O_RDONLY") && !strings.Contains(flags, "O_WRONLY") && !strings.Contains(flags, "O_RDWR") && !strings.Contains(flags, "O_TRUNC") && !strings.Contains(flags, "O_CREATE"),
						rule, f, "read-only open flags", cs.Call.Pos(), "reader opened O_RDONLY", "the read-only open uses flags "+flags)
				}
			}
		}
	}
	// (iii) the writer handle is consumed only as NewTapeWriter's destination
	k := 0
	for _, f := range c.Funcs {
		info := f.Pkg.TypesInfo
		parentCall := map[ast.Expr]*ast.CallExpr{}
		argIdx := map[ast.Expr]int{}
		walkOwn(f.Body(), func(nd ast.Node) {
			if call, ok := nd.(*ast.CallExpr); ok {
				for i, a := range call.Args {
					parentCall[ast.Unparen(a)] = call
					argIdx[ast.Unparen(a)] = i
				}
			}
		})
		walkOwn(f.Body(), func(nd ast.Node) {
			e, ok := nd.(ast.Expr)
			if !ok {
				return
			}
			switch selField(info, e) {
			case wDrive:
				k++
				call := parentCall[e]
				good := call != nil && calleeObj(info, call) == types.Object(newTW.Obj) && argIdx[e] == 0
				c.verdictIf(good, rule, f, fmt.Sprintf("writer handle use#%d", k), e.Pos(), "writer handle goes only into the tar writer", "the raw drive writer is used outside tarext.NewTapeWriter: bytes could be written that are not tar members")
			case rDrive:
				// never type-asserted (to reach *os.File's write methods)
				walkOwn(f.Body(), func(m ast.Node) {
					if ta, ok := m.(*ast.TypeAssertExpr); ok && ast.Unparen(ta.X) == e {
						k++
						c.bad(rule, f, fmt.Sprintf("reader handle assert#%d", k), ta.Pos(), "the reader handle is type-asserted, which can recover the *os.File and its write methods")
					}
				})
			}
		})
	}
	if k < half(4) {
		c.unresolved("only %d uses of the writer handle found (expected one per write operation)", k)
	}
	// the reader handle's static interface has no mutating method
	if rt := c.namedType("pkg/config", "ReadSeekFder"); rt != nil {
		ms := types.NewMethodSet(rt)
		var bad []string
		for i := 0; i < ms.Len(); i++ {
			nm := ms.At(i).Obj().Name()
			if strings.HasPrefix(nm, "Write") || nm == "Truncate" || nm == "ReadFrom" {
				bad = append(bad, nm)
			}
		}
		same := types.Identical(rDrive.Type(), rt)
		c.verdictIf(len(bad) == 0 && same, rule, nil, "reader handle type", token.NoPos, "DriveReaderConfig.Drive is a ReadSeekFder (Read, Seek, Fd only)", "the reader handle's static type offers mutating methods "+strings.Join(bad, ","))
	}
	// file-opening calls in library packages: frozen table of who may open what for writing
	allowed := map[string]string{
		"pkg/tape":            "the drive itself",
		"pkg/cache":           "write-cache temp files and the on-disk read cache directory",
		"internal/persisters": "the SQLite database directory",
		"internal/logging":    "log output",
		"internal/check":      "flag validation reads key files",
	}
	k = 0
	for _, f := range c.Funcs {
		rel := f.RelPkg()
		if !(strings.HasPrefix(rel, "pkg/") || strings.HasPrefix(rel, "internal/")) || strings.HasPrefix(rel, "internal/db/") {
			continue
		}
		for _, cs := range f.calls {
			o := cs.Callee
			if !(isPkgFunc(o, "os", "OpenFile") || isPkgFunc(o, "os", "Create") || isPkgFunc(o, "os", "WriteFile") || isPkgFunc(o, "os", "Truncate") || isPkgFunc(o, "os", "Remove") || isPkgFunc(o, "os", "RemoveAll") || isPkgFunc(o, "os", "Rename") || isPkgFunc(o, "io/ioutil", "WriteFile") || isPkgFunc(o, "io/ioutil", "TempFile") || isPkgFunc(o, "os", "CreateTemp")) {
				continue
			}
			k++
			why, ok := allowed[rel]
			c.verdictIf(ok, rule, f, fmt.Sprintf("file mutation#%d %s", k, o.Name()), cs.Call.Pos(), "package may touch files: "+why, "package "+rel+" creates/truncates/removes files via os."+o.Name()+" - not in the table of packages allowed to (only pkg/tape may touch the drive)")
		}
	}
}

func ruleC05LookupsBeforeAppend(c *Ctx) {
	const rule = "C05.lookups-before-append"
	c.floor(rule, 12, "Delete/Move lookups and per-member preparation before WriteHeader in the four operations")
	p := c.pipeFns()
	getHeader := c.ifaceMethod("pkg/config", "MetadataPersister", "GetHeader")
	byLink := c.ifaceMethod("pkg/config", "MetadataPersister", "GetHeaderByLinkname")
	conv := c.fn("internal/converters", "DBHeaderToTarHeader")
	iface := c.namedType("pkg/config", "MetadataPersister")
	if getHeader == nil || byLink == nil || conv == nil || iface == nil || p.signHeader == nil {
		return
	}
	for _, ws := range writeHeaderSites(c) {
		f, info := ws.f, ws.f.Pkg.TypesInfo
		fl := c.flow(f)
		base := fmt.Sprintf("WriteHeader#%d", ws.ord)
		isDM := f.Name == "(*Operations).Delete" || f.Name == "(*Operations).Move"
		if isDM {
			okk, _ := c.successDominates(fl, ws.cs.Call, func(call *ast.CallExpr) bool {
				o := calleeObj(info, call)
				return o == types.Object(getHeader) || o == types.Object(byLink)
			}, nil)
			c.verdictIf(okk, rule, f, base+" after entry lookup", ws.cs.Call.Pos(), "nothing is written unless the entry was found (by name or by link name)", "a record can be appended although the lookup of the entry did not succeed: a rejected call would already have changed the tape")
			okC, _ := c.successDominates(fl, ws.cs.Call, func(call *ast.CallExpr) bool { return calleeObj(info, call) == types.Object(conv.Obj) }, nil)
			c.verdictIf(okC, rule, f, base+" after conversion", ws.cs.Call.Pos(), "header converted from the index row (error checked) before it is written", "WriteHeader reachable without a successful DBHeaderToTarHeader")
		}
	}
	// no index lookup after a write in Delete/Move
	for _, name := range []string{"(*Operations).Delete", "(*Operations).Move"} {
		f := c.fn("pkg/operations", name)
		if f == nil {
			continue
		}
		info := f.Pkg.TypesInfo
		fl := c.flow(f)
		const wrote = 1
		an := &Analysis{Must: false, Entry: 0, Node: func(n ast.Node, s State) State {
			for _, call := range callsIn(n) {
				if isMethod(calleeObj(info, call), "archive/tar", "Writer", "WriteHeader") {
					s |= wrote
				}
			}
			return s
		}}
		fl.solve(an)
		k := 0
		for _, cs := range f.calls {
			fn, ok := cs.Callee.(*types.Func)
			if !ok {
				continue
			}
			sig := fn.Type().(*types.Signature)
			if sig.Recv() == nil || !types.Identical(sig.Recv().Type(), iface) {
				continue
			}
			k++
			s, reach := fl.before(an, cs.Call)
			if !reach {
				continue
			}
			c.verdictIf(s&wrote == 0, rule, f, fmt.Sprintf("index lookup#%d %s", k, fn.Name()), cs.Call.Pos(), "lookup happens before the first record is written", "an index lookup ("+fn.Name()+") can run after records were already appended: its failure would leave a half-written batch")
		}
		if k < half(3) {
			c.unresolved("only %d index lookups in %s", k, name)
		}
	}
}

func ruleC05Trailer(c *Ctx) {
	const rule = "C05.trailer"
	c.floor(rule, 7, "cleanup calls of the four operations and the cleanup closure's shape")
	newTW := c.fn("internal/tarext", "NewTapeWriter")
	if newTW == nil {
		return
	}
	for _, f := range c.Funcs {
		if f.Lit != nil {
			continue
		}
		info := f.Pkg.TypesInfo
		var cleanupVar, dirtyVar types.Object
		for _, cs := range f.calls {
			if cs.Target == newTW {
				if o := tapeWriterVar(f, cs.Call, 1); o != nil {
					cleanupVar = o
				}
			}
		}
		if cleanupVar == nil {
			continue
		}
		fl := c.flow(f)
		k := 0
		for _, cs := range f.calls {
			if cs.Callee != cleanupVar {
				continue
			}
			k++
			// argument is &dirty
			if len(cs.Call.Args) == 1 {
				if u, ok := ast.Unparen(cs.Call.Args[0]).(*ast.UnaryExpr); ok && u.Op == token.AND {
					dirtyVar = objOfIdent(info, u.X)
				}
			}
			if dirtyVar == nil {
				c.undecided(rule, f, fmt.Sprintf("cleanup#%d", k), cs.Call.Pos(), "cleanup is not called with the address of a local flag")
				continue
			}
			const needs, wroteEver = 1, 2
			dv := dirtyVar
			an := &Analysis{Must: false, Entry: 0, Node: func(n ast.Node, s State) State {
				if as, ok := n.(*ast.AssignStmt); ok && len(as.Lhs) == 1 && len(as.Rhs) == 1 && objOfIdent(info, as.Lhs[0]) == dv {
					if isConstTrue(info, as.Rhs[0]) {
						return s &^ needs
					}
					if s&wroteEver != 0 {
						return s | needs // flag reset after a header was written
					}
					return s
				}
				for _, call := range callsIn(n) {
					if isMethod(calleeObj(info, call), "archive/tar", "Writer", "WriteHeader") {
						s |= needs | wroteEver
					}
				}
				return s
			}}
			fl.solve(an)
			s, reach := fl.before(an, cs.Call)
			if !reach {
				continue
			}
			c.verdictIf(s&needs == 0, rule, f, fmt.Sprintf("cleanup#%d dirty", k), cs.Call.Pos(), "whenever a header was written the dirty flag is true when cleanup runs, so the trailer is written", "cleanup can run with dirty still false although a header was written: the archive would lack its trailer and the next call's records would be appended inside it")
			// cleanup's error is checked and precedes CloseWriter
			s2 := c.sinks()
			for _, cs2 := range f.calls {
				if cs2.Callee == types.Object(s2.closeWriter) && !cs2.Defer && cs2.In == f {
					okk, _ := c.successDominates(fl, cs2.Call, func(call *ast.CallExpr) bool { return calleeObj(info, call) == cleanupVar }, nil)
					c.verdictIf(okk, rule, f, fmt.Sprintf("cleanup#%d before CloseWriter", k), cs2.Call.Pos(), "trailer written (error checked) before the drive is closed", "the drive can be closed on the success path without the trailer having been written successfully")
				}
			}
		}
	}
	// the cleanup function itself (a closure of NewTapeWriter, or a method whose value NewTapeWriter returns)
	l, isRegCarrier := c.tapeCleanup(newTW)
	if l == nil {
		c.unresolved("the cleanup function returned by NewTapeWriter could not be located")
		return
	}
	info := l.Pkg.TypesInfo
	fl := c.flow(l)
	var dirtyParam types.Object
	if ft := l.Type(); ft != nil && len(ft.Params.List) == 1 && len(ft.Params.List[0].Names) == 1 {
		dirtyParam = info.Defs[ft.Params.List[0].Names[0]]
	}
	var closeCall, flushCall, padCall *ast.CallExpr
	for _, cs := range l.calls {
		switch {
		case isMethod(cs.Callee, "archive/tar", "Writer", "Close"):
			closeCall = cs.Call
		case isMethod(cs.Callee, "bufio", "Writer", "Flush"):
			flushCall = cs.Call
		case isMethod(cs.Callee, "bufio", "Writer", "Write"):
			padCall = cs.Call
		}
	}
	if closeCall == nil {
		c.bad(rule, l, "trailer close", l.Pos(), "the cleanup closure never closes the tar writer: no archive gets its trailer")
	} else {
		okk, _ := fl.guardedBy(closeCall, func(ft Fact) bool {
			st, ok := ast.Unparen(ft.E).(*ast.StarExpr)
			return ok && ft.Pos && objOfIdent(info, st.X) == dirtyParam
		}, nil)
		c.verdictIf(okk, rule, l, "trailer close", closeCall.Pos(), "tar writer closed (trailer written) exactly when *dirty", "the tar writer's Close is not conditional on *dirty: an untouched call would append an empty archive, or a dirty one none")
	}
	if flushCall == nil || padCall == nil {
		c.bad(rule, l, "tape padding", l.Pos(), "non-regular drives are no longer padded to a full record and flushed")
	} else {
		okF, _ := fl.guardedBy(flushCall, func(ft Fact) bool { return isRegCarrier(info, ft.E) && !ft.Pos }, nil)
		okO, _ := c.successDominates(fl, flushCall, func(call *ast.CallExpr) bool { return call == closeCall }, nil)
		c.verdictIf(okF && okO, rule, l, "tape padding", flushCall.Pos(), "for tapes the record is padded and flushed after the trailer", "padding/flush of tape records is not (only) on the non-regular path after the trailer")
	}
	_ = cfg.KindBody
}

func ruleC05Pax(c *Ctx) {
	const rule = "C05.pax"
	c.floor(rule, 4, "Format assignments on freshly built headers and in the two wrappers")
	pax := c.extObj("archive/tar", "FormatPAX")
	p := c.pipeFns()
	if pax == nil || p.signHeader == nil || p.encHeader == nil {
		return
	}
	isPaxStore := func(info *types.Info, n ast.Node, h types.Object) bool {
		as, ok := n.(*ast.AssignStmt)
		if !ok || len(as.Lhs) != 1 || len(as.Rhs) != 1 {
			return false
		}
		se, ok := ast.Unparen(as.Lhs[0]).(*ast.SelectorExpr)
		if !ok || se.Sel.Name != "Format" || objOfIdent(info, se.X) != h {
			return false
		}
		r, ok := ast.Unparen(as.Rhs[0]).(*ast.SelectorExpr)
		return ok && info.Uses[r.Sel] == pax
	}
	for _, ws := range writeHeaderSites(c) {
		f, info := ws.f, ws.f.Pkg.TypesInfo
		if ws.h == nil {
			continue
		}
		// headers built from file info carry no format yet; headers loaded from the index carry whatever format the
		// entry was archived in (USTAR/GNU for foreign archives) - both need PAX for the STFS records
		fl := c.flow(f)
		okk, _ := fl.dominatedBy(ws.cs.Call, func(n ast.Node) bool { return isPaxStore(info, n, ws.h) }, nil)
		c.verdictIf(okk, rule, f, fmt.Sprintf("WriteHeader#%d format", ws.ord), ws.cs.Call.Pos(), "Format = tar.FormatPAX assigned on every path before the header is written", "a header can be written without Format = tar.FormatPAX having been assigned: STFS records are dropped (unknown format) or the tar encoder refuses the header (entries of foreign USTAR/GNU archives can then not be removed or renamed)")
	}
	for _, f := range []*FuncInfo{p.signHeader, p.encHeader} {
		info := f.Pkg.TypesInfo
		found := false
		walkOwn(f.Body(), func(nd ast.Node) {
			cl, ok := nd.(*ast.CompositeLit)
			if !ok || !isTarHeaderExpr(info, cl) {
				return
			}
			for _, e := range cl.Elts {
				if kv, ok := e.(*ast.KeyValueExpr); ok && kv.Key.(*ast.Ident).Name == "Format" {
					if r, ok := ast.Unparen(kv.Value).(*ast.SelectorExpr); ok && info.Uses[r.Sel] == pax {
						found = true
					}
				}
			}
		})
		c.verdictIf(found, rule, f, "wrapper format", f.Decl.Pos(), "wrapper header is PAX", "the wrapper header is not created with Format = tar.FormatPAX: its embedded-header record cannot be encoded")
	}
}

// tapeCleanup locates the function NewTapeWriter hands out as its second result - the closure written in place, or a
// method whose method value is returned (`return t.tw, t.cleanup, nil`) - and returns it with a predicate that
// recognises "the drive is a regular file" inside it: the isRegular parameter itself or a struct field that
// NewTapeWriter initialises from it.
func (c *Ctx) tapeCleanup(newTW *FuncInfo) (*FuncInfo, func(info *types.Info, e ast.Expr) bool) {
	info := newTW.Pkg.TypesInfo
	isReg := paramVar(newTW, "isRegular")
	carriers := map[types.Object]bool{}
	if isReg != nil {
		carriers[isReg] = true
	}
	walkOwn(newTW.Body(), func(nd ast.Node) {
		switch x := nd.(type) {
		case *ast.KeyValueExpr:
			if isReg != nil && objOfIdent(info, x.Value) == types.Object(isReg) {
				if id, ok := x.Key.(*ast.Ident); ok {
					if o := info.Uses[id]; o != nil {
						carriers[o] = true
					}
				}
			}
		case *ast.AssignStmt:
			for i, r := range x.Rhs {
				if isReg != nil && objOfIdent(info, r) == types.Object(isReg) && i < len(x.Lhs) {
					if fv := selField(info, x.Lhs[i]); fv != nil {
						carriers[fv] = true
					}
				}
			}
		}
	})
	pred := func(info *types.Info, e ast.Expr) bool {
		e = ast.Unparen(e)
		if o := objOfIdent(info, e); o != nil && carriers[o] {
			return true
		}
		if fv := selField(info, e); fv != nil && carriers[fv] {
			return true
		}
		return false
	}
	var found *FuncInfo
	for _, ret := range returnsIn(newTW) {
		var cl ast.Expr
		if len(ret.Results) >= 3 {
			cl = ret.Results[1]
		} else if len(ret.Results) >= 1 {
			// bundled in a struct: the function-typed element of the returned composite literal
			e := ast.Unparen(ret.Results[0])
			if u, ok := e.(*ast.UnaryExpr); ok && u.Op == token.AND {
				e = ast.Unparen(u.X)
			}
			if lit, ok := e.(*ast.CompositeLit); ok {
				for _, el := range lit.Elts {
					v := el
					if kv, ok := el.(*ast.KeyValueExpr); ok {
						v = kv.Value
					}
					if tv, ok := info.Types[v]; ok && tv.Type != nil && tapeWriterPart(tv.Type) == 1 {
						cl = v
					}
				}
			}
		}
		if cl == nil {
			continue
		}
		switch x := ast.Unparen(cl).(type) {
		case *ast.FuncLit:
			found = c.byLit[x]
		case *ast.SelectorExpr:
			if fn, ok := info.Uses[x.Sel].(*types.Func); ok {
				found = c.byObj[fn]
			}
		case *ast.Ident:
			if v, ok := info.Uses[x].(*types.Var); ok {
				found = c.litOfVar[v]
			}
		}
	}
	return found, pred
}
