package main

import (
	"fmt"
	"go/ast"
	"go/token"
	"go/types"
	"strings"
)

func init() {
	register(&Property{
		ID:          "C13",
		Explanation: "Tree well-formedness conditions decided from the source: (parent-is-directory) at every creation site of the filesystem layer (Create, Mkdir, OpenFile's create closure, Rename, SymlinkIfPossible) the header returned by inventory.Stat(filepath.Dir(name)) flows into a Typeflag/TypeDir (or IsDir) test whose failing branch returns an error, and the append is reachable only past that test; (all-ancestors) MkdirAll ranges over a separator split of its path (never filepath.SplitList, the $PATH-list splitter, which is also banned from receiving any path parameter in the module), creates every missing prefix and rejects non-directory prefixes; (live-filter) every select over the headers table in pkg/persisters carries the liveness predicate `deleted != 1`, the frozen exceptions being the upsert existence probe and the last-indexed-position query; (no-self-in-listing) every row appended to a children listing is guarded by the self-exclusion test on the queried name.",
		NotDecided:  "The SQL depth expression, limit arithmetic, 'exactly once', symlink rows, that every listed name can be opened.",
		Assumptions: []string{"tar.TypeDir identifies directories in index rows"},
		Rules:       []func(*Ctx){ruleC13ParentIsDirectory, ruleC13AllAncestors, ruleC13LiveFilter, ruleC13NoSelf},
	})
}

func ruleC13ParentIsDirectory(c *Ctx) {
	const rule = "C13.parent-is-directory"
	c.floor(rule, 5, "parent lookups at creation sites")
	stat := c.fn("pkg/inventory", "Stat")
	typeDir := c.extObj("archive/tar", "TypeDir")
	if stat == nil || typeDir == nil {
		return
	}
	n := 0
	for _, f := range c.Funcs {
		if f.RelPkg() != "pkg/fs" {
			continue
		}
		info := f.Pkg.TypesInfo
		root := f
		for root.Outer != nil {
			root = root.Outer
		}
		k := 0
		for _, cs := range f.calls {
			if cs.Target != stat || len(cs.Call.Args) < 2 {
				continue
			}
			dir, ok := ast.Unparen(cs.Call.Args[1]).(*ast.CallExpr)
			if !ok || !(isPkgFunc(calleeObj(info, dir), "path/filepath", "Dir") || isPkgFunc(calleeObj(info, dir), "path", "Dir")) {
				continue
			}
			n++
			k++
			construct := fmt.Sprintf("parent lookup#%d", k)
			// variable receiving the header
			var hv types.Object
			walkOwn(f.Body(), func(nd ast.Node) {
				as, ok := nd.(*ast.AssignStmt)
				if ok && len(as.Rhs) == 1 && ast.Unparen(as.Rhs[0]) == ast.Expr(cs.Call) && len(as.Lhs) == 2 {
					if id, ok := as.Lhs[0].(*ast.Ident); ok && id.Name != "_" {
						hv = objOfIdent(info, id)
					}
				}
			})
			if hv == nil {
				c.bad(rule, f, construct, cs.Call.Pos(), "the parent's header is discarded: only its existence is checked, not that it is a directory, so entries can be created beneath a regular file (unreachable by any listing)")
				continue
			}
			// a test of hv's kind whose failing branch returns an error
			var test *ast.IfStmt
			walkOwn(f.Body(), func(nd ast.Node) {
				is, ok := nd.(*ast.IfStmt)
				if !ok {
					return
				}
				mentions := false
				ast.Inspect(is.Cond, func(m ast.Node) bool {
					if se, ok := m.(*ast.SelectorExpr); ok && objOfIdent(info, se.X) == hv && (se.Sel.Name == "Typeflag" || se.Sel.Name == "FileInfo") {
						mentions = true
					}
					return true
				})
				if mentions && (usesObj(info, is.Cond, typeDir) || strings.Contains(exprString(is.Cond), "IsDir")) && branchReturnsError(info, is.Body) {
					test = is
				}
			})
			if test == nil {
				c.bad(rule, f, construct, cs.Call.Pos(), "the parent's header is looked up but its kind is never tested against tar.TypeDir with an error return")
				continue
			}
			// appends after the lookup in this function are reachable only past the test's non-error edge
			g := newROGuards(c)
			fl := c.flow(f)
			allPast := true
			napp := 0
			for _, cs2 := range f.calls {
				if cs2.Call.Pos() < cs.Call.Pos() {
					continue
				}
				sinkward := g.s.sinkOf(cs2) != "" || (cs2.Target != nil && g.s.reachesSink(cs2.Target))
				if root.Name == "(*STFS).Create" && cs2.Target != nil && cs2.Target.Name == "(*STFS).OpenFile" {
					sinkward = true
				}
				if !sinkward {
					continue
				}
				napp++
				okk, reach := fl.guardedBy(cs2.Call, func(ft Fact) bool { return ft.E == ast.Unparen(test.Cond) && !ft.Pos }, nil)
				if reach && !okk {
					allPast = false
				}
			}
			c.verdictIf(allPast && napp > 0, rule, f, construct, cs.Call.Pos(),
				"creation reachable only when the parent is a directory", "an append is reachable without passing the parent-is-directory test")
		}
	}
	if n < half(5) {
		c.unresolved("only %d parent lookups (inventory.Stat of filepath.Dir) found in pkg/fs (expected 5)", n)
	}
}

func ruleC13AllAncestors(c *Ctx) {
	const rule = "C13.all-ancestors"
	c.floor(rule, 3, "MkdirAll's split, per-prefix handling, and SplitList call sites")
	f := c.fn("pkg/fs", "(*STFS).MkdirAll")
	if f == nil {
		return
	}
	info := f.Pkg.TypesInfo
	pathParam := paramVar(f, "path")
	// the loop that creates directories
	var loop *ast.RangeStmt
	walkOwn(f.Body(), func(nd ast.Node) {
		rs, ok := nd.(*ast.RangeStmt)
		if !ok {
			return
		}
		has := false
		ast.Inspect(rs.Body, func(m ast.Node) bool {
			if call, ok := m.(*ast.CallExpr); ok {
				if fn, ok := calleeObj(info, call).(*types.Func); ok && fn.Name() == "mknodeWithoutLocking" {
					has = true
				}
			}
			return true
		})
		if has {
			loop = rs
		}
	})
	if loop == nil {
		c.bad(rule, f, "ancestor loop", f.Decl.Pos(), "MkdirAll has no loop that creates the missing ancestors")
	} else {
		// range expression derives from a separator split of the path parameter
		var split *ast.CallExpr
		e := ast.Unparen(loop.X)
		if call, ok := e.(*ast.CallExpr); ok {
			split = call
		} else if o := objOfIdent(info, e); o != nil {
			_, split, _ = defOf(f, o)
		}
		good, what := false, "no split call found"
		if split != nil {
			o := calleeObj(info, split)
			what = exprString(split.Fun)
			if (isPkgFunc(o, "strings", "Split") || isPkgFunc(o, "strings", "FieldsFunc") || isPkgFunc(o, "strings", "SplitN")) && usesObj(info, split, pathParam) {
				good = true
			}
		}
		c.verdictIf(good, rule, f, "ancestor split", loop.Pos(), "ancestors enumerated by a separator split of the path", "the ancestor loop ranges over "+what+", which does not split a path into its components: MkdirAll(\"/x/y/z\") creates only the leaf, unreachable from the root")
		// inside the loop: every prefix is accumulated (Join) and non-directories are rejected
		joins, rejects := false, false
		ast.Inspect(loop.Body, func(m ast.Node) bool {
			if call, ok := m.(*ast.CallExpr); ok && (isPkgFunc(calleeObj(info, call), "path/filepath", "Join") || isPkgFunc(calleeObj(info, call), "path", "Join")) {
				joins = true
			}
			if is, ok := m.(*ast.IfStmt); ok && strings.Contains(exprString(is.Cond), "Typeflag") && branchReturnsError(info, is.Body) {
				rejects = true
			}
			return true
		})
		c.verdictIf(joins && rejects, rule, f, "prefix handling", loop.Pos(), "each prefix is accumulated with Join and a non-directory prefix is rejected", "the loop does not accumulate prefixes with Join or does not reject non-directory prefixes")
	}
	// the accumulated prefix starts empty and gets a leading separator only for an absolute path: a relative name
	// (archives whose members are "proj/...") must yield relative prefixes, or the created directories live under a
	// different spelling than their siblings and are never listed
	if loop != nil {
		var acc types.Object
		ast.Inspect(loop.Body, func(m ast.Node) bool {
			as, ok := m.(*ast.AssignStmt)
			if !ok || len(as.Lhs) != 1 || len(as.Rhs) != 1 {
				return true
			}
			call, ok := ast.Unparen(as.Rhs[0]).(*ast.CallExpr)
			if !ok || !(isPkgFunc(calleeObj(info, call), "path/filepath", "Join") || isPkgFunc(calleeObj(info, call), "path", "Join")) || len(call.Args) < 2 {
				return true
			}
			if o := objOfIdent(info, as.Lhs[0]); o != nil && objOfIdent(info, call.Args[0]) == o {
				acc = o
			}
			return true
		})
		if acc == nil {
			c.bad(rule, f, "prefix seed", loop.Pos(), "the loop does not accumulate the prefix as `p = Join(p, part)`")
		} else {
			fl := c.flow(f)
			k := 0
			walkOwn(f.Body(), func(nd ast.Node) {
				as, ok := nd.(*ast.AssignStmt)
				if !ok || (as.Pos() >= loop.Pos() && as.End() <= loop.End()) {
					return
				}
				for i, l := range as.Lhs {
					if objOfIdent(info, l) != acc || i >= len(as.Rhs) {
						continue
					}
					k++
					if sv, ok := constString(info, as.Rhs[i]); ok && sv == "" {
						c.ok(rule, f, fmt.Sprintf("prefix seed#%d", k), as.Pos(), true, "the prefix starts empty")
						continue
					}
					absOnly, reach := fl.guardedBy(as, func(ft Fact) bool {
						call, ok := ast.Unparen(ft.E).(*ast.CallExpr)
						return ok && ft.Pos && (isPkgFunc(calleeObj(info, call), "path/filepath", "IsAbs") || isPkgFunc(calleeObj(info, call), "path", "IsAbs")) && len(call.Args) == 1 && usesObj(info, call.Args[0], pathParam)
					}, nil)
					if !reach {
						continue
					}
					c.verdictIf(absOnly, rule, f, fmt.Sprintf("prefix seed#%d", k), as.Pos(), "a leading separator is added only for an absolute path",
						"the accumulated prefix is seeded with "+exprString(as.Rhs[i])+" also for a relative path: MkdirAll(\"proj/a/b\") creates \"/proj\", \"/proj/a\", ... which are stored under a different spelling than the relative names of the archive and never show up in its listings")
				}
			})
			if k == 0 {
				c.unresolved("no initialisation of the accumulated prefix found in MkdirAll")
			}
		}
	}
	// the parent of the FIRST prefix is the root itself, which no iteration looks up: it has to be established before
	// the loop (a Stat of the seed / the store's root path), as Mkdir and Create do for their parent
	if loop != nil {
		stat := c.fn("pkg/inventory", "Stat")
		fl := c.flow(f)
		rootChecked, _ := fl.dominatedBy(loop.X, func(m ast.Node) bool {
			found := false
			ast.Inspect(m, func(x ast.Node) bool {
				call, ok := x.(*ast.CallExpr)
				if !ok {
					return true
				}
				if fn, ok := calleeObj(info, call).(*types.Func); ok && fn.Name() == "GetRootPath" {
					found = true
				}
				if stat != nil && c.statSubject(stat, info, call, 0) != nil {
					found = true
				}
				return true
			})
			return found
		}, nil)
		c.verdictIf(rootChecked, rule, f, "root established before the loop", loop.Pos(), "the root is looked up before the first prefix is created beneath it",
			"MkdirAll never looks up the root before creating the first prefix beneath it: after RemoveAll(\"/\") (which the filesystem accepts) MkdirAll(\"/y\") succeeds and leaves a live entry without a live parent, while Mkdir(\"/y\") is refused")
	}
	// success is reported only after the ancestor loop ran, or for an entry that was tested to be a directory:
	// a shortcut "the path resolves, nothing to do" would accept MkdirAll over an existing regular file
	if loop != nil {
		fl := c.flow(f)
		k := 0
		for _, ret := range returnsIn(f) {
			if !returnsNil(info, ret) {
				continue
			}
			k++
			afterLoop, reach := fl.dominatedBy(ret, func(m ast.Node) bool { return m == ast.Node(loop.X) || containsNode(m, loop.X) }, nil)
			if !reach {
				continue
			}
			isDirFact := func(ft Fact) bool {
				txt := exprString(ft.E)
				if be, ok := ast.Unparen(ft.E).(*ast.BinaryExpr); ok && strings.Contains(txt, "Typeflag") && strings.Contains(txt, "TypeDir") {
					return be.Op == token.EQL && ft.Pos || be.Op == token.NEQ && !ft.Pos
				}
				if call, ok := ast.Unparen(ft.E).(*ast.CallExpr); ok {
					if se, ok := ast.Unparen(call.Fun).(*ast.SelectorExpr); ok && se.Sel.Name == "IsDir" {
						return ft.Pos
					}
				}
				return false
			}
			dirTested, _ := fl.guardedBy(ret, isDirFact, nil)
			c.verdictIf(afterLoop || dirTested, rule, f, fmt.Sprintf("success return#%d", k), ret.Pos(),
				"success only after every prefix was visited (or the entry was tested to be a directory)", "MkdirAll reports success on a path that skips the ancestor loop without testing that the existing entry is a directory: MkdirAll over an existing regular file would succeed")
		}
	}
	// SplitList never receives a filesystem path parameter anywhere in pkg/ and internal/
	n := 0
	for _, g := range c.Funcs {
		if strings.HasPrefix(g.RelPkg(), "cmd") {
			continue
		}
		for _, cs := range g.calls {
			if isPkgFunc(cs.Callee, "path/filepath", "SplitList") {
				n++
				c.bad(rule, g, fmt.Sprintf("SplitList#%d", n), cs.Call.Pos(), "filepath.SplitList splits $PATH-style lists on ':' (or ';'), not a path into components")
			}
		}
	}
	if n == 0 {
		// positive control for the zero-expected matcher
		fc, err := fixtureCtx("pkg/fixture", "package fixture\nimport \"path/filepath\"\nfunc f(p string) []string { return filepath.SplitList(p) }\n")
		alive := false
		if err == nil {
			for _, g := range fc.Funcs {
				for _, cs := range g.calls {
					if isPkgFunc(cs.Callee, "path/filepath", "SplitList") {
						alive = true
					}
				}
			}
		}
		if !alive {
			c.unresolved("SplitList matcher failed its positive control")
		}
		c.ok(rule, nil, "no SplitList", token.NoPos, false, "filepath.SplitList is not used on paths (matcher verified on an embedded fixture)")
	}
}

func ruleC13LiveFilter(c *Ctx) {
	const rule = "C13.live-filter"
	c.floor(rule, 10, "selects over the headers table in pkg/persisters")
	// frozen exceptions: must see tombstones, one-line reason each
	exceptions := map[string]string{
		"(*MetadataPersister).UpsertHeader":                 "existence probe before insert must see tombstones (the primary key is shared with them)",
		"(*MetadataPersister).GetLastIndexedRecordAndBlock": "tombstones are still physically on the tape and bound where the next index pass starts",
	}
	n := 0
	for _, f := range c.Funcs {
		if f.RelPkg() != "pkg/persisters" {
			continue
		}
		info := f.Pkg.TypesInfo
		root := f
		for root.Outer != nil {
			root = root.Outer
		}
		k := 0
		for _, cs := range f.calls {
			fn, ok := cs.Callee.(*types.Func)
			if !ok || fn.Pkg() == nil {
				continue
			}
			isHeaders := fn.Name() == "Headers" && fn.Pkg().Path() == modelsPath
			isRaw := fn.Name() == "Raw" && fn.Pkg().Path() == queriesPath
			if !isHeaders && !isRaw {
				continue
			}
			var text string
			mentionsDeleted := false
			scan := func(e ast.Expr) {
				text += sqlTextOf(f, e, 0)
				var walk func(e ast.Node, depth int)
				walk = func(e ast.Node, depth int) {
					ast.Inspect(e, func(m ast.Node) bool {
						if se, ok := m.(*ast.SelectorExpr); ok && se.Sel.Name == "Deleted" {
							mentionsDeleted = true
						}
						if id, ok := m.(*ast.Ident); ok && depth < 2 {
							if v, ok := info.Uses[id].(*types.Var); ok && !v.IsField() {
								if st, _, _ := defOf(f, v); st != nil {
									for _, r := range st.Rhs {
										walk(r, depth+1)
									}
								}
							}
						}
						return true
					})
				}
				walk(e, 0)
			}
			for _, a := range cs.Call.Args {
				scan(a)
			}
			lower := strings.ToLower(text)
			if isRaw && !strings.Contains(lower, "select") {
				continue // update/delete statements are not lookups
			}
			if t := strings.TrimSpace(lower); isRaw && (strings.HasPrefix(t, "delete") || strings.HasPrefix(t, "update")) {
				continue // a sub-select that picks the rows a statement changes hands no row to a caller
			}
			if isHeaders {
				// models.Headers().DeleteAll is not a select
				isDelete := false
				for _, cs2 := range f.calls {
					if fn2, ok := cs2.Callee.(*types.Func); ok && fn2.Name() == "DeleteAll" {
						if se, ok := ast.Unparen(cs2.Call.Fun).(*ast.SelectorExpr); ok && ast.Unparen(se.X) == ast.Expr(cs.Call) {
							isDelete = true
						}
					}
				}
				if isDelete {
					continue
				}
			}
			n++
			k++
			construct := fmt.Sprintf("select#%d", k)
			live := mentionsDeleted && strings.Contains(text, "!= 1")
			if why, ok := exceptions[root.Name]; ok && !live {
				c.ok(rule, f, construct, cs.Call.Pos(), false, "deliberately includes tombstones: %s", why)
				continue
			}
			c.verdictIf(live, rule, f, construct, cs.Call.Pos(), "carries the liveness predicate deleted != 1", "this lookup does not filter tombstones (no `deleted != 1`): deleted entries would reappear in lookups or listings and disagree with each other")
		}
	}
	if n < half(10) {
		c.unresolved("only %d selects over headers found in pkg/persisters (expected >= 10)", n)
	}
}

func ruleC13NoSelf(c *Ctx) {
	const rule = "C13.no-self-in-listing"
	c.floor(rule, 2, "result-building appends of the two children listings")
	for _, name := range []string{"(*MetadataPersister).GetHeaderChildren", "(*MetadataPersister).GetHeaderDirectChildren"} {
		f := c.fn("pkg/persisters", name)
		if f == nil {
			continue
		}
		info := f.Pkg.TypesInfo
		nameParam := paramVar(f, "name")
		var retSlice types.Object
		for _, ret := range returnsIn(f) {
			if len(ret.Results) >= 1 && returnsNil(info, ret) {
				e := ast.Unparen(ret.Results[0])
				if sl, ok := e.(*ast.SliceExpr); ok {
					e = sl.X
				}
				if o := objOfIdent(info, e); o != nil {
					retSlice = o
				}
			}
		}
		if retSlice == nil || nameParam == nil {
			c.unresolved("returned slice / name parameter of %s", name)
			continue
		}
		fl := c.flow(f)
		n := 0
		walkOwn(f.Body(), func(nd ast.Node) {
			as, ok := nd.(*ast.AssignStmt)
			if !ok || len(as.Lhs) != 1 || len(as.Rhs) != 1 || objOfIdent(info, as.Lhs[0]) != retSlice {
				return
			}
			call, ok := ast.Unparen(as.Rhs[0]).(*ast.CallExpr)
			if !ok {
				return
			}
			if b, ok := calleeObj(info, call).(*types.Builtin); !ok || b.Name() != "append" {
				return
			}
			n++
			// two inequality facts involving the queried name must hold on every path to the append
			count := 0
			for _, wantSlash := range []bool{false, true} {
				ws := wantSlash
				okk, _ := fl.guardedBy(as, func(ft Fact) bool {
					be, ok := ast.Unparen(ft.E).(*ast.BinaryExpr)
					if !ok || !(be.Op == token.NEQ && ft.Pos || be.Op == token.EQL && !ft.Pos) {
						return false
					}
					if !usesObj(info, be, nameParam) {
						return false
					}
					hasSlash := strings.Contains(exprString(be), `"/"`)
					return hasSlash == ws
				}, nil)
				if okk {
					count++
				}
			}
			c.verdictIf(count == 2, rule, f, fmt.Sprintf("append#%d", n), as.Pos(), "row joins the listing only if it is neither the queried name nor that name with a trailing slash", "a row can join the listing without the self-exclusion test: the directory would list itself")
		})
		if n == 0 {
			c.unresolved("no result-building append in %s", name)
		}
	}
}
