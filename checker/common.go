package main

import (
	"go/ast"
	"go/constant"
	"go/token"
	"go/types"
	"strings"
)

// selField returns the field object selected by e (x.f), or nil.
func selField(info *types.Info, e ast.Expr) *types.Var {
	se, ok := ast.Unparen(e).(*ast.SelectorExpr)
	if !ok {
		return nil
	}
	if sel, ok := info.Selections[se]; ok && sel.Kind() == types.FieldVal {
		if v, ok := sel.Obj().(*types.Var); ok {
			return v
		}
	}
	return nil
}

// mentionsField reports whether expression e contains a selection of field fv.
func mentionsField(info *types.Info, e ast.Node, fv *types.Var) bool {
	found := false
	ast.Inspect(e, func(n ast.Node) bool {
		if x, ok := n.(ast.Expr); ok && selField(info, x) == fv {
			found = true
		}
		return !found
	})
	return found
}

func usesObj(info *types.Info, e ast.Node, o types.Object) bool {
	found := false
	ast.Inspect(e, func(n ast.Node) bool {
		if id, ok := n.(*ast.Ident); ok && (info.Uses[id] == o || info.Defs[id] == o) {
			found = true
		}
		return !found
	})
	return found
}

func isNilIdent(info *types.Info, e ast.Expr) bool {
	id, ok := ast.Unparen(e).(*ast.Ident)
	if !ok {
		return false
	}
	_, isNil := info.Uses[id].(*types.Nil)
	return isNil
}

// objOfIdent returns the object an identifier expression denotes.
func objOfIdent(info *types.Info, e ast.Expr) types.Object {
	id, ok := ast.Unparen(e).(*ast.Ident)
	if !ok {
		return nil
	}
	if o := info.Uses[id]; o != nil {
		return o
	}
	return info.Defs[id]
}

// constOf returns the constant object an expression denotes (identifier or pkg.Ident), or nil.
func constOf(info *types.Info, e ast.Expr) *types.Const {
	switch x := ast.Unparen(e).(type) {
	case *ast.Ident:
		k, _ := info.Uses[x].(*types.Const)
		return k
	case *ast.SelectorExpr:
		k, _ := info.Uses[x.Sel].(*types.Const)
		return k
	}
	return nil
}

func constString(info *types.Info, e ast.Expr) (string, bool) {
	tv, ok := info.Types[e]
	if !ok || tv.Value == nil || tv.Value.Kind() != constant.String {
		return "", false
	}
	return constant.StringVal(tv.Value), true
}

func isPkgFunc(o types.Object, pkgPath, name string) bool {
	f, ok := o.(*types.Func)
	if !ok || f.Pkg() == nil {
		return false
	}
	if f.Pkg().Path() != pkgPath || f.Name() != name {
		return false
	}
	sig := f.Type().(*types.Signature)
	return sig.Recv() == nil
}

// isMethod reports whether o is method `name` whose receiver's named type is pkgPath.typeName.
func isMethod(o types.Object, pkgPath, typeName, name string) bool {
	f, ok := o.(*types.Func)
	if !ok || f.Name() != name {
		return false
	}
	sig := f.Type().(*types.Signature)
	if sig.Recv() == nil {
		return false
	}
	t := sig.Recv().Type()
	if p, ok := t.(*types.Pointer); ok {
		t = p.Elem()
	}
	n, ok := t.(*types.Named)
	if !ok || n.Obj().Pkg() == nil {
		return false
	}
	return n.Obj().Pkg().Path() == pkgPath && n.Obj().Name() == typeName
}

func funcPkgPath(o types.Object) string {
	if o == nil || o.Pkg() == nil {
		return ""
	}
	return o.Pkg().Path()
}

// inRepo reports whether an object is declared in the repository module.
func inRepo(o types.Object) bool {
	return o != nil && o.Pkg() != nil && (o.Pkg().Path() == modPath || strings.HasPrefix(o.Pkg().Path(), modPath+"/"))
}

// ---- switch tables ----

// SwitchArm is one group of case labels sharing a body (labels joined by fallthrough or listed together).
type SwitchArm struct {
	Labels  []*types.Const // resolved constant objects; nil entries for non-constant labels
	Values  []string
	Default bool
	Body    []ast.Stmt // body of the clause that finally executes (after fallthrough chain)
	Clauses []*ast.CaseClause
}

type SwitchTable struct {
	Stmt   *ast.SwitchStmt // nil for tables read from a map lookup or an if/else-if chain
	At     token.Pos
	TagObj types.Object // the variable dispatched on, when it is a plain identifier
	Arms   []*SwitchArm
}

// switchesOn returns the dispatches in f over exactly the variable v: tagged switches, if/else-if chains comparing v
// with constants, and lookups of v in a package-level map literal (see dispatchTablesIn).
func (c *Ctx) switchesOn(f *FuncInfo, v *types.Var) []*SwitchTable {
	var out []*SwitchTable
	for _, dt := range dispatchTablesIn(f) {
		if dt.t.TagObj != nil && dt.t.TagObj == types.Object(v) {
			out = append(out, dt.t)
		}
	}
	return out
}

func buildSwitchTable(info *types.Info, sw *ast.SwitchStmt) *SwitchTable {
	t := &SwitchTable{Stmt: sw, At: sw.Pos()}
	if sw.Tag != nil {
		t.TagObj = objOfIdent(info, sw.Tag)
	}
	var cur *SwitchArm
	for _, st := range sw.Body.List {
		cc := st.(*ast.CaseClause)
		if cur == nil {
			cur = &SwitchArm{}
		}
		cur.Clauses = append(cur.Clauses, cc)
		if cc.List == nil {
			cur.Default = true
		}
		for _, e := range cc.List {
			cur.Labels = append(cur.Labels, constOf(info, e))
			s, _ := constString(info, e)
			cur.Values = append(cur.Values, s)
		}
		if n := len(cc.Body); n > 0 {
			if br, ok := cc.Body[n-1].(*ast.BranchStmt); ok && br.Tok == token.FALLTHROUGH && n == 1 {
				continue // pure fallthrough: labels accumulate into the next clause's arm
			}
		}
		cur.Body = cc.Body
		t.Arms = append(t.Arms, cur)
		cur = nil
	}
	if cur != nil {
		t.Arms = append(t.Arms, cur)
	}
	return t
}

func (t *SwitchTable) armFor(k *types.Const) *SwitchArm {
	for _, a := range t.Arms {
		for _, l := range a.Labels {
			if l == k {
				return a
			}
		}
	}
	return nil
}

func (t *SwitchTable) defaultArm() *SwitchArm {
	for _, a := range t.Arms {
		if a.Default {
			return a
		}
	}
	return nil
}

// knownFormats evaluates a `var KnownX = []string{A, B, ...}` declaration of pkg/config to constant objects.
func (c *Ctx) knownFormats(varName string) []*types.Const {
	p := c.pkg("pkg/config")
	if p == nil {
		return nil
	}
	for _, f := range p.Syntax {
		for _, d := range f.Decls {
			gd, ok := d.(*ast.GenDecl)
			if !ok || gd.Tok != token.VAR {
				continue
			}
			for _, sp := range gd.Specs {
				vs := sp.(*ast.ValueSpec)
				for i, n := range vs.Names {
					if n.Name != varName || i >= len(vs.Values) {
						continue
					}
					cl, ok := vs.Values[i].(*ast.CompositeLit)
					if !ok {
						continue
					}
					var out []*types.Const
					for _, e := range cl.Elts {
						k := constOf(p.TypesInfo, e)
						if k == nil {
							c.unresolved("non-constant element in config.%s", varName)
							return nil
						}
						out = append(out, k)
					}
					return out
				}
			}
		}
	}
	c.unresolved("variable config.%s", varName)
	return nil
}

// paramVar returns the i-th parameter object of f, or the parameter named name when i<0.
func paramVar(f *FuncInfo, name string) *types.Var {
	for _, fl := range f.Type().Params.List {
		for _, id := range fl.Names {
			if id.Name == name {
				v, _ := f.Pkg.TypesInfo.Defs[id].(*types.Var)
				return v
			}
		}
	}
	return nil
}

// paramOfType returns parameters of f whose declared type string matches.
func paramsWhere(f *FuncInfo, pred func(v *types.Var) bool) []*types.Var {
	var out []*types.Var
	for _, fl := range f.Type().Params.List {
		for _, id := range fl.Names {
			if v, ok := f.Pkg.TypesInfo.Defs[id].(*types.Var); ok && pred(v) {
				out = append(out, v)
			}
		}
	}
	return out
}

func receiverVar(f *FuncInfo) *types.Var {
	if f.Decl == nil || f.Decl.Recv == nil || len(f.Decl.Recv.List) == 0 || len(f.Decl.Recv.List[0].Names) == 0 {
		return nil
	}
	v, _ := f.Pkg.TypesInfo.Defs[f.Decl.Recv.List[0].Names[0]].(*types.Var)
	return v
}

// returnsIn lists return statements of f (not of nested literals) in source order.
func returnsIn(f *FuncInfo) []*ast.ReturnStmt {
	var out []*ast.ReturnStmt
	walkOwn(f.Body(), func(n ast.Node) {
		if r, ok := n.(*ast.ReturnStmt); ok {
			out = append(out, r)
		}
	})
	return out
}

// ordinalOf gives the 1-based source-order ordinal of node among nodes (by position).
func ordinalOf[T ast.Node](nodes []T, n ast.Node) int {
	for i, x := range nodes {
		if ast.Node(x) == n {
			return i + 1
		}
	}
	return 0
}

func exprString(e ast.Expr) string { return types.ExprString(e) }

// isCleanupVar: v is the local bound to the second result (the trailer-writing closure) of tarext.NewTapeWriter.
func isCleanupVar(f *FuncInfo, v types.Object) bool {
	return tapeWriterResult(f, v) == 1
}

// isNewTapeWriterCall: call is a call of the repository's tarext.NewTapeWriter.
func isNewTapeWriterCall(info *types.Info, call *ast.CallExpr) bool {
	fn, ok := calleeObj(info, call).(*types.Func)
	return ok && fn.Name() == "NewTapeWriter" && inRepo(fn)
}

// tapeWriterPart classifies a type as one of the two things NewTapeWriter hands out: 0 the tar writer, 1 the
// trailer-writing cleanup function, -1 neither.
func tapeWriterPart(t types.Type) int {
	if p, ok := t.(*types.Pointer); ok {
		if n, ok := p.Elem().(*types.Named); ok && n.Obj().Pkg() != nil && n.Obj().Pkg().Path() == "archive/tar" && n.Obj().Name() == "Writer" {
			return 0
		}
	}
	if _, ok := t.Underlying().(*types.Signature); ok {
		return 1
	}
	return -1
}

// tapeWriterResult: which result of tarext.NewTapeWriter the local variable v holds (0 tar writer, 1 cleanup, -1
// neither). The constructor may return the two as separate results or bundled in a struct whose fields the caller
// copies into locals (`tw, cleanup := w.Writer, w.Cleanup`).
func tapeWriterResult(f *FuncInfo, v types.Object) int {
	if v == nil {
		return -1
	}
	root := f
	for root.Outer != nil {
		root = root.Outer
	}
	info := root.Pkg.TypesInfo
	res := -1
	var bundleOf func(e ast.Expr) bool // e is a variable holding the struct returned by NewTapeWriter
	bundleOf = func(e ast.Expr) bool {
		o := objOfIdent(info, e)
		if o == nil {
			return false
		}
		ok := false
		ast.Inspect(root.Body(), func(n ast.Node) bool {
			as, isAs := n.(*ast.AssignStmt)
			if !isAs || len(as.Rhs) != 1 || len(as.Lhs) == 0 || objOfIdent(info, as.Lhs[0]) != o {
				return true
			}
			if call, isCall := ast.Unparen(as.Rhs[0]).(*ast.CallExpr); isCall && isNewTapeWriterCall(info, call) {
				if _, isStruct := o.Type().Underlying().(*types.Struct); isStruct {
					ok = true
				}
			}
			return true
		})
		return ok
	}
	ast.Inspect(root.Body(), func(n ast.Node) bool {
		as, ok := n.(*ast.AssignStmt)
		if !ok {
			return true
		}
		for i, l := range as.Lhs {
			if objOfIdent(info, l) != v {
				continue
			}
			if len(as.Rhs) == 1 && len(as.Lhs) >= 2 {
				if call, ok := ast.Unparen(as.Rhs[0]).(*ast.CallExpr); ok && isNewTapeWriterCall(info, call) && i < 2 {
					res = i
				}
			}
			if len(as.Rhs) == len(as.Lhs) {
				if se, ok := ast.Unparen(as.Rhs[i]).(*ast.SelectorExpr); ok && bundleOf(se.X) {
					if part := tapeWriterPart(v.Type()); part >= 0 {
						res = part
					}
				}
			}
		}
		return true
	})
	return res
}

// tapeWriterVar: the local of f that holds result idx (0 tar writer, 1 cleanup) of the NewTapeWriter call `call`.
func tapeWriterVar(f *FuncInfo, call *ast.CallExpr, idx int) types.Object {
	info := f.Pkg.TypesInfo
	var out types.Object
	var bundle types.Object
	walkOwn(f.Body(), func(nd ast.Node) {
		as, ok := nd.(*ast.AssignStmt)
		if !ok || len(as.Rhs) != 1 || ast.Unparen(as.Rhs[0]) != ast.Expr(call) {
			return
		}
		if len(as.Lhs) >= 3 {
			out = objOfIdent(info, as.Lhs[idx])
		} else if len(as.Lhs) == 2 {
			bundle = objOfIdent(info, as.Lhs[0])
		}
	})
	if out != nil || bundle == nil {
		return out
	}
	walkOwn(f.Body(), func(nd ast.Node) {
		as, ok := nd.(*ast.AssignStmt)
		if !ok || len(as.Rhs) != len(as.Lhs) {
			return
		}
		for i, r := range as.Rhs {
			se, ok := ast.Unparen(r).(*ast.SelectorExpr)
			if !ok || objOfIdent(info, se.X) != bundle {
				continue
			}
			if o := objOfIdent(info, as.Lhs[i]); o != nil && tapeWriterPart(o.Type()) == idx {
				out = o
			}
		}
	})
	return out
}

// isSourceCallback: v is a parameter of function type returning (config.FileConfig, error) - the member source.
func isSourceCallback(v *types.Var) bool {
	sig, ok := v.Type().Underlying().(*types.Signature)
	if !ok || sig.Params().Len() != 0 || sig.Results().Len() != 2 {
		return false
	}
	n, ok := sig.Results().At(0).Type().(*types.Named)
	return ok && n.Obj().Name() == "FileConfig"
}

// objOfIdentOrSel resolves an identifier or a package-qualified identifier (pkg.Name) to its object.
func objOfIdentOrSel(info *types.Info, e ast.Expr) types.Object {
	switch x := ast.Unparen(e).(type) {
	case *ast.Ident:
		return objOfIdent(info, x)
	case *ast.SelectorExpr:
		return info.Uses[x.Sel]
	}
	return nil
}

// callbackFunc resolves a callback argument to the repository function or literal that will run: a literal, a named
// function, a local bound to a literal, or a call of a factory whose body is `return func(...){...}`. For factories
// the second result maps the factory's parameters to the argument expressions of the call.
func (c *Ctx) callbackFunc(f *FuncInfo, e ast.Expr) (*FuncInfo, map[types.Object]ast.Expr) {
	info := f.Pkg.TypesInfo
	e = ast.Unparen(e)
	switch x := e.(type) {
	case *ast.FuncLit:
		return c.byLit[x], nil
	case *ast.CallExpr:
		fn, ok := calleeObj(info, x).(*types.Func)
		if !ok || c.byObj[fn] == nil {
			return nil, nil
		}
		g := c.byObj[fn]
		if len(g.Body().List) != 1 {
			return nil, nil
		}
		ret, ok := g.Body().List[0].(*ast.ReturnStmt)
		if !ok || len(ret.Results) != 1 {
			return nil, nil
		}
		lit, ok := ast.Unparen(ret.Results[0]).(*ast.FuncLit)
		if !ok {
			return nil, nil
		}
		bind := map[types.Object]ast.Expr{}
		i := 0
		for _, fl := range g.Type().Params.List {
			for _, id := range fl.Names {
				if i < len(x.Args) {
					bind[g.Pkg.TypesInfo.Defs[id]] = x.Args[i]
				}
				i++
			}
		}
		return c.byLit[lit], bind
	}
	if fn, ok := objOfIdentOrSel(info, e).(*types.Func); ok {
		// a method value on a local whose only definition is a composite literal (`w := &T{o, hdrs}` ... `w.replace`): the
		// method sees the literal's elements through its receiver's fields
		if se, isSel := e.(*ast.SelectorExpr); isSel {
			// a method value on a conversion of a local (`moved(hdrs).restore`, or `m := moved(hdrs)` ... `m.restore`): the
			// method sees the local through its receiver
			conv := ast.Unparen(se.X)
			if lv, ok := objOfIdent(info, conv).(*types.Var); ok && !lv.IsField() {
				if def := singleDefExpr(f, lv); def != nil {
					conv = ast.Unparen(def)
				}
			}
			if call, ok := conv.(*ast.CallExpr); ok && len(call.Args) == 1 {
				if tv, ok := info.Types[call.Fun]; ok && tv.IsType() {
					if g := c.byObj[fn]; g != nil {
						if rv := receiverVar(g); rv != nil {
							return g, map[types.Object]ast.Expr{rv: call.Args[0]}
						}
					}
				}
			}
			if lv, ok := objOfIdent(info, se.X).(*types.Var); ok && !lv.IsField() {
				if def := singleDefExpr(f, lv); def != nil {
					d := ast.Unparen(def)
					if u, ok := d.(*ast.UnaryExpr); ok && u.Op == token.AND {
						d = ast.Unparen(u.X)
					}
					if lit, ok := d.(*ast.CompositeLit); ok {
						if tv, ok := info.Types[lit]; ok {
							if st, ok := tv.Type.Underlying().(*types.Struct); ok {
								bind := map[types.Object]ast.Expr{}
								for i, el := range lit.Elts {
									if kv, ok := el.(*ast.KeyValueExpr); ok {
										if id, ok := kv.Key.(*ast.Ident); ok {
											if fo := info.Uses[id]; fo != nil {
												bind[fo] = kv.Value
											}
										}
									} else if i < st.NumFields() {
										bind[st.Field(i)] = el
									}
								}
								return c.byObj[fn], bind
							}
						}
					}
				}
			}
		}
		return c.byObj[fn], nil
	}
	if v, ok := objOfIdent(info, e).(*types.Var); ok {
		return c.litOfVar[v], nil
	}
	return nil, nil
}

// armDelegate recognises a switch arm (or any statement list) that consists only of `return helper(args...)` with
// helper a function of the repository, and returns the helper together with the binding caller-variable -> helper
// parameter for every argument that is a plain identifier. Rules that judge "what the arm does" follow it one level.
func (c *Ctx) armDelegate(f *FuncInfo, body []ast.Stmt) (*FuncInfo, map[*types.Var]*types.Var) {
	if len(body) != 1 {
		return nil, nil
	}
	ret, ok := body[0].(*ast.ReturnStmt)
	if !ok || len(ret.Results) != 1 {
		return nil, nil
	}
	call, ok := ast.Unparen(ret.Results[0]).(*ast.CallExpr)
	if !ok {
		return nil, nil
	}
	info := f.Pkg.TypesInfo
	fn, ok := calleeObj(info, call).(*types.Func)
	if !ok || !inRepo(fn) {
		return nil, nil
	}
	g := c.byObj[fn]
	if g == nil || g.Body() == nil {
		return nil, nil
	}
	sig := fn.Type().(*types.Signature)
	bind := map[*types.Var]*types.Var{}
	for i, a := range call.Args {
		if i >= sig.Params().Len() {
			break
		}
		if v, ok := objOfIdent(info, a).(*types.Var); ok {
			bind[v] = sig.Params().At(i)
		}
	}
	return g, bind
}

// localDef: when e is a local variable with exactly one assignment in f (an "explaining" local), the expression it
// was assigned; nil otherwise.
func localDef(f *FuncInfo, e ast.Expr) ast.Expr {
	v, ok := objOfIdent(f.Pkg.TypesInfo, e).(*types.Var)
	if !ok || v.IsField() || v.Pkg() == nil || v.Parent() == v.Pkg().Scope() {
		return nil
	}
	for g := f; g != nil; g = g.Outer {
		// a variable introduced by `:=` and never assigned again (parameters and re-assigned variables are not explaining locals)
		if st, _, _ := defOf(g, v); st == nil || st.Tok != token.DEFINE {
			continue
		}
		if d := singleDefExpr(g, v); d != nil {
			return d
		}
	}
	return nil
}

// inspectThrough walks e like ast.Inspect and continues into the initialisers of explaining locals it meets.
func inspectThrough(f *FuncInfo, e ast.Node, visit func(ast.Node) bool) {
	seen := map[ast.Node]bool{}
	var walk func(n ast.Node, depth int)
	walk = func(n ast.Node, depth int) {
		ast.Inspect(n, func(m ast.Node) bool {
			if m == nil {
				return false
			}
			if !visit(m) {
				return false
			}
			if id, ok := m.(*ast.Ident); ok && depth < 3 {
				if d := localDef(f, id); d != nil && !seen[d] {
					seen[d] = true
					walk(d, depth+1)
				}
			}
			return true
		})
	}
	walk(e, 0)
}

// usesObjThrough: e mentions object o, directly or through explaining locals.
func usesObjThrough(f *FuncInfo, e ast.Node, o types.Object) bool {
	found := false
	inspectThrough(f, e, func(m ast.Node) bool {
		if id, ok := m.(*ast.Ident); ok && f.Pkg.TypesInfo.Uses[id] == o {
			found = true
		}
		return !found
	})
	return found
}

// roleVar: the variable that plays the role of the parameter called name in f - the parameter itself or, when f takes
// its scalars grouped in a struct, the local defined exactly once from the field of that name of a struct parameter
// (`offset := opts.Offset`).
func roleVar(f *FuncInfo, name string) *types.Var {
	if v := paramVar(f, name); v != nil {
		return v
	}
	if f.Body() == nil {
		return nil
	}
	info := f.Pkg.TypesInfo
	isParam := func(e ast.Expr) bool {
		if st, ok := ast.Unparen(e).(*ast.StarExpr); ok {
			e = st.X
		}
		o := objOfIdent(info, e)
		if o == nil {
			return false
		}
		for _, p := range paramsWhere(f, func(*types.Var) bool { return true }) {
			if types.Object(p) == o {
				return true
			}
		}
		return false
	}
	var found *types.Var
	writes := map[types.Object]int{}
	walkOwn(f.Body(), func(n ast.Node) {
		as, ok := n.(*ast.AssignStmt)
		if !ok {
			if ids, ok := n.(*ast.IncDecStmt); ok {
				if o := objOfIdent(info, ids.X); o != nil {
					writes[o]++
				}
			}
			return
		}
		for i, l := range as.Lhs {
			id, ok := l.(*ast.Ident)
			if !ok {
				continue
			}
			o := info.Defs[id]
			if o == nil {
				o = info.Uses[id]
			}
			if o == nil {
				continue
			}
			writes[o]++
			if as.Tok != token.DEFINE || len(as.Lhs) != len(as.Rhs) || id.Name != name {
				continue
			}
			if sel, ok := ast.Unparen(as.Rhs[i]).(*ast.SelectorExpr); ok && strings.EqualFold(sel.Sel.Name, name) && isParam(sel.X) {
				if v, ok := o.(*types.Var); ok {
					found = v
				}
			}
		}
	})
	if found != nil && writes[found] == 1 {
		return found
	}
	return nil
}

// roleArg: the expression a call passes for the role `name` of the callee with signature sig: the positional argument
// of the parameter of that name or, when the callee takes a struct (or a pointer to one) with a field of that name,
// the element keyed by it in the composite literal passed (directly or through a local defined once). ok is false
// when the callee has no such role or the argument cannot be traced; a nil expression with ok means the field is left
// at its zero value.
func roleArg(f *FuncInfo, call *ast.CallExpr, sig *types.Signature, name string) (ast.Expr, bool) {
	info := f.Pkg.TypesInfo
	for i := 0; i < sig.Params().Len() && i < len(call.Args); i++ {
		p := sig.Params().At(i)
		if sig.Variadic() && i == sig.Params().Len()-1 {
			break
		}
		if p.Name() == name {
			return call.Args[i], true
		}
		t := p.Type()
		if pt, ok := t.Underlying().(*types.Pointer); ok {
			t = pt.Elem()
		}
		st, ok := t.Underlying().(*types.Struct)
		if !ok {
			continue
		}
		fi := -1
		for j := 0; j < st.NumFields(); j++ {
			if strings.EqualFold(st.Field(j).Name(), name) {
				fi = j
			}
		}
		if fi < 0 {
			continue
		}
		arg := ast.Unparen(call.Args[i])
		if u, ok := arg.(*ast.UnaryExpr); ok && u.Op == token.AND {
			arg = ast.Unparen(u.X)
		}
		if o := objOfIdent(info, arg); o != nil {
			for g := f; g != nil; g = g.Outer {
				if d := singleDefExpr(g, o); d != nil {
					arg = ast.Unparen(d)
					if u, ok := arg.(*ast.UnaryExpr); ok && u.Op == token.AND {
						arg = ast.Unparen(u.X)
					}
					// later field stores would change the value
					stored := false
					walkOwn(g.Body(), func(n ast.Node) {
						if as, ok := n.(*ast.AssignStmt); ok {
							for _, l := range as.Lhs {
								if sel, ok := l.(*ast.SelectorExpr); ok && objOfIdent(info, sel.X) == o {
									stored = true
								}
							}
						}
					})
					if stored {
						return nil, false
					}
					break
				}
			}
		}
		lit, ok := arg.(*ast.CompositeLit)
		if !ok {
			return nil, false
		}
		for j, el := range lit.Elts {
			if kv, ok := el.(*ast.KeyValueExpr); ok {
				if k, ok := kv.Key.(*ast.Ident); ok && strings.EqualFold(k.Name, name) {
					return kv.Value, true
				}
				continue
			}
			if j == fi {
				return el, true
			}
		}
		return nil, true
	}
	return nil, false
}
