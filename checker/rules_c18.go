package main

import (
	"fmt"
	"go/ast"
	"go/constant"
	"go/token"
	"go/types"
	"strings"
)

func init() {
	register(&Property{
		ID:          "C18",
		Explanation: "Agreement of the key tables, decided per format key: (role-tables) for every non-None encryption/signature format the generator, the identity parser and the recipient parser each have an arm (directly or by delegating to the sibling function with the same format value), and the concrete type each Parse* arm produces is identical (types.Identical) to the type the matching Encrypt/Decrypt/Sign/Verify(String) arm asserts on its interface{} parameter - a mismatch compiles and fails only at run time; (password-flow) in each non-None arm of the generators and identity parsers the password parameter reaches an argument of a key-wrapping/unwrapping call of the crypto module (or the delegate), and where the generator wraps only under a condition on the password the parser unwraps under the same condition.",
		NotDecided:  "That wrong passwords or keys of another pair are rejected, and that generated keys are well-formed (crypto libraries).",
		Assumptions: []string{"age, gopenpgp/go-crypto and minisign implement their documented key formats"},
		Rules:       []func(*Ctx){ruleC18RoleTables, ruleC18PasswordFlow},
	})
}

// armType: the concrete type the arm for key `val` of function f's format switch returns as its first result.
// Delegating arms (`return Other(format, ...)`) are followed once.
func armProducedType(c *Ctx, f *FuncInfo, val string, depth int) (types.Type, string) {
	info := f.Pkg.TypesInfo
	var fmtParam *types.Var
	for _, pv := range paramsWhere(f, func(v *types.Var) bool { return strings.HasSuffix(v.Name(), "Format") }) {
		fmtParam = pv
	}
	if fmtParam == nil {
		return nil, "no format parameter"
	}
	for _, t := range c.switchesOn(f, fmtParam) {
		for _, arm := range t.Arms {
			hit := false
			for _, v := range arm.Values {
				if v == val && val != "" {
					hit = true
				}
			}
			for i, l := range arm.Labels {
				if l != nil && arm.Values[i] == val {
					hit = true
				}
			}
			if !hit {
				continue
			}
			var res types.Type
			why := ""
			for _, st := range arm.Body {
				ast.Inspect(st, func(m ast.Node) bool {
					if _, ok := m.(*ast.FuncLit); ok {
						return false
					}
					ret, ok := m.(*ast.ReturnStmt)
					if !ok || len(ret.Results) == 0 {
						return true
					}
					if len(ret.Results) == 1 {
						call, ok := ast.Unparen(ret.Results[0]).(*ast.CallExpr)
						if !ok {
							return true
						}
						if fn, ok := calleeObj(info, call).(*types.Func); ok && c.byObj[fn] != nil && depth < 2 {
							t2, w := armProducedType(c, c.byObj[fn], val, depth+1)
							if t2 != nil {
								res, why = t2, "delegates to "+fn.Name()+": "+w
							}
							return true
						}
						if tup, ok := info.Types[call].Type.(*types.Tuple); ok && tup.Len() >= 1 {
							res, why = tup.At(0).Type(), "result of "+exprString(call.Fun)
						}
						return true
					}
					if !returnsNil(info, ret) {
						return true
					}
					if tv, ok := info.Types[ret.Results[0]]; ok && tv.Type != nil {
						if _, isIface := tv.Type.Underlying().(*types.Interface); !isIface {
							res, why = tv.Type, "value "+exprString(ret.Results[0])
						}
					}
					return true
				})
			}
			return res, why
		}
	}
	return nil, "no arm"
}

// armAssertedType: the type the arm for `val` asserts on parameter `param`.
func armAssertedType(c *Ctx, f *FuncInfo, val string, param string) types.Type {
	info := f.Pkg.TypesInfo
	var fmtParam *types.Var
	for _, pv := range paramsWhere(f, func(v *types.Var) bool { return strings.HasSuffix(v.Name(), "Format") }) {
		fmtParam = pv
	}
	pv := paramVar(f, param)
	if fmtParam == nil || pv == nil {
		return nil
	}
	for _, t := range c.switchesOn(f, fmtParam) {
		for _, arm := range t.Arms {
			hit := false
			for i, l := range arm.Labels {
				if l != nil && arm.Values[i] == val {
					hit = true
				}
			}
			if !hit {
				continue
			}
			var res types.Type
			scan := func(info *types.Info, body []ast.Stmt, pv *types.Var) {
				// locals that merely hold the parameter (`var raw interface{} = recipient`, `raw := recipient`)
				alias := map[types.Object]bool{pv: true}
				for _, st := range body {
					ast.Inspect(st, func(m ast.Node) bool {
						switch x := m.(type) {
						case *ast.AssignStmt:
							if x.Tok == token.DEFINE && len(x.Lhs) == len(x.Rhs) {
								for i, r := range x.Rhs {
									if o := objOfIdent(info, r); o != nil && alias[o] {
										if l := objOfIdent(info, x.Lhs[i]); l != nil {
											alias[l] = true
										}
									}
								}
							}
						case *ast.ValueSpec:
							if len(x.Names) == len(x.Values) {
								for i, r := range x.Values {
									if o := objOfIdent(info, r); o != nil && alias[o] {
										if l := info.Defs[x.Names[i]]; l != nil {
											alias[l] = true
										}
									}
								}
							}
						}
						return true
					})
				}
				for _, st := range body {
					ast.Inspect(st, func(m ast.Node) bool {
						ta, ok := m.(*ast.TypeAssertExpr)
						if ok && ta.Type != nil && alias[objOfIdent(info, ta.X)] && objOfIdent(info, ta.X) != nil && res == nil {
							res = info.Types[ta.Type].Type
						}
						return true
					})
				}
			}
			scan(info, arm.Body, pv)
			if res == nil {
				// arm delegated to a helper: `return helper(..., param, ...)`
				if g, bind := c.armDelegate(f, arm.Body); g != nil && bind[pv] != nil {
					scan(g.Pkg.TypesInfo, g.Body().List, bind[pv])
				}
			}
			return res
		}
	}
	return nil
}

func ruleC18RoleTables(c *Ctx) {
	const rule = "C18.role-tables"
	c.floor(rule, 16, "producer/consumer type pairs and generator arms per non-None format")
	fk := c.formatKinds()
	if fk.none == nil {
		return
	}
	type pairing struct {
		kind     string
		producer [2]string // pkg, func
		consumer [][3]string
	}
	pairs := []pairing{
		{"encryption", [2]string{"pkg/keys", "ParseRecipient"}, [][3]string{{"pkg/encryption", "Encrypt", "recipient"}, {"pkg/encryption", "EncryptString", "recipient"}}},
		{"encryption", [2]string{"pkg/keys", "ParseIdentity"}, [][3]string{{"pkg/encryption", "Decrypt", "identity"}, {"pkg/encryption", "DecryptString", "identity"}}},
		{"signature", [2]string{"pkg/keys", "ParseSignerRecipient"}, [][3]string{{"pkg/signature", "Verify", "recipient"}, {"pkg/signature", "VerifyString", "recipient"}}},
		{"signature", [2]string{"pkg/keys", "ParseSignerIdentity"}, [][3]string{{"pkg/signature", "Sign", "identity"}, {"pkg/signature", "SignString", "identity"}}},
	}
	for _, p := range pairs {
		prod := c.fn(p.producer[0], p.producer[1])
		if prod == nil {
			continue
		}
		for _, k := range fk.kinds[p.kind] {
			if k == fk.none {
				continue
			}
			val := constant.StringVal(k.Val())
			pt, why := armProducedType(c, prod, val, 0)
			if pt == nil {
				c.bad(rule, prod, "arm "+k.Name()+" produces", prod.Decl.Pos(), "cannot find what the %s arm of %s returns (%s): keys of this format cannot be parsed", k.Name(), prod.Name, why)
				continue
			}
			for _, cons := range p.consumer {
				cf := c.fn(cons[0], cons[1])
				if cf == nil {
					continue
				}
				at := armAssertedType(c, cf, val, cons[2])
				construct := fmt.Sprintf("%s -> %s.%s", k.Name(), cons[1], cons[2])
				if at == nil {
					c.bad(rule, prod, construct, cf.Decl.Pos(), "the %s arm of %s asserts no concrete type on %s", k.Name(), cons[1], cons[2])
					continue
				}
				c.verdictIf(types.Identical(pt, at), rule, prod, construct, cf.Decl.Pos(),
					fmt.Sprintf("%s yields %s (%s), which is what %s asserts", prod.Name, pt, why, cons[1]),
					fmt.Sprintf("%s yields %s for %s but %s asserts %s: every operation with a parsed key of this format fails at run time", prod.Name, pt, k.Name(), cons[1], at))
			}
		}
	}
	// generators: an arm (or delegation) per non-None key
	for _, g := range [][2]string{{"generateEncryptionKey", "encryption"}, {"generateSignatureKey", "signature"}} {
		f := c.fn("pkg/utility", g[0])
		if f == nil {
			continue
		}
		var fmtParam *types.Var
		for _, pv := range paramsWhere(f, func(v *types.Var) bool { return strings.HasSuffix(v.Name(), "Format") }) {
			fmtParam = pv
		}
		tabs := c.switchesOn(f, fmtParam)
		if len(tabs) == 0 {
			c.unresolved("format switch of %s", g[0])
			continue
		}
		for _, k := range fk.kinds[g[1]] {
			if k == fk.none {
				continue
			}
			val := constant.StringVal(k.Val())
			found := false
			for _, arm := range tabs[0].Arms {
				for i := range arm.Labels {
					if arm.Values[i] == val {
						found = true
					}
				}
			}
			c.verdictIf(found, rule, f, "generator arm "+k.Name(), f.Decl.Pos(), "generator has an arm", "no generator arm for "+k.Name())
		}
	}
	// Keygen dispatch: encryption first, else signature, else error
	if kg := c.fn("pkg/utility", "Keygen"); kg != nil {
		callsE, callsS := false, false
		for _, cs := range kg.calls {
			if cs.Target != nil && cs.Target.Name == "generateEncryptionKey" {
				callsE = true
			}
			if cs.Target != nil && cs.Target.Name == "generateSignatureKey" {
				callsS = true
			}
		}
		c.verdictIf(callsE && callsS, rule, kg, "dispatch", kg.Decl.Pos(), "Keygen reaches both generators", "Keygen no longer dispatches to both generators")
	}
}

// cryptoModule: packages whose calls wrap/unwrap keys.
func isCryptoModule(p string) bool {
	return p == "filippo.io/age" || p == "aead.dev/minisign" || strings.HasPrefix(p, "github.com/ProtonMail/")
}

func ruleC18PasswordFlow(c *Ctx) {
	const rule = "C18.password-flow"
	c.floor(rule, 8, "non-None arms of the two generators and the two identity parsers")
	fk := c.formatKinds()
	type site struct {
		rel, name, kind string
	}
	sites := []site{
		{"pkg/utility", "generateEncryptionKey", "encryption"}, {"pkg/utility", "generateSignatureKey", "signature"},
		{"pkg/keys", "ParseIdentity", "encryption"}, {"pkg/keys", "ParseSignerIdentity", "signature"},
	}
	conds := map[string]map[string]string{} // func -> key value -> condition text under which the password is used ("" = unconditional)
	for _, s := range sites {
		f := c.fn(s.rel, s.name)
		if f == nil {
			continue
		}
		info := f.Pkg.TypesInfo
		pw := paramVar(f, "password")
		var fmtParam *types.Var
		for _, pv := range paramsWhere(f, func(v *types.Var) bool { return strings.HasSuffix(v.Name(), "Format") }) {
			fmtParam = pv
		}
		if pw == nil || fmtParam == nil {
			c.unresolved("password/format parameters of %s", s.name)
			continue
		}
		conds[s.name] = map[string]string{}
		tabs := c.switchesOn(f, fmtParam)
		if len(tabs) == 0 {
			c.unresolved("format switch of %s", s.name)
			continue
		}
		for _, k := range fk.kinds[s.kind] {
			if k == fk.none {
				continue
			}
			val := constant.StringVal(k.Val())
			var arm *SwitchArm
			for _, a := range tabs[0].Arms {
				for i := range a.Labels {
					if a.Values[i] == val {
						arm = a
					}
				}
			}
			construct := "arm " + k.Name()
			if arm == nil {
				c.bad(rule, f, construct, f.Decl.Pos(), "no arm for %s", k.Name())
				continue
			}
			used, where, cond := false, "", ""
			var visit func(n ast.Node, under string)
			visit = func(n ast.Node, under string) {
				ast.Inspect(n, func(m ast.Node) bool {
					if is, ok := m.(*ast.IfStmt); ok && usesObj(info, is.Cond, pw) {
						visit(is.Body, exprString(is.Cond))
						if is.Else != nil {
							visit(is.Else, "!("+exprString(is.Cond)+")")
						}
						return false
					}
					call, ok := m.(*ast.CallExpr)
					if !ok {
						return true
					}
					fn, ok := calleeObj(info, call).(*types.Func)
					if !ok || fn.Pkg() == nil {
						return true
					}
					takes := false
					for _, a := range call.Args {
						if usesObj(info, a, pw) {
							takes = true
						}
					}
					if !takes {
						return true
					}
					if isCryptoModule(fn.Pkg().Path()) || (c.byObj[fn] != nil && paramVar(c.byObj[fn], "password") != nil) {
						used, where, cond = true, fn.Pkg().Name()+"."+fn.Name(), under
					}
					return true
				})
			}
			for _, st := range arm.Body {
				visit(st, "")
			}
			conds[s.name][val] = cond
			c.verdictIf(used, rule, f, construct, arm.Clauses[0].Pos(),
				"password reaches "+where+condSuffix(cond), "the password is not handed to any key-wrapping/unwrapping call in the "+k.Name()+" arm: keys of this format would be stored or accepted without the password")
		}
	}
	// sibling guard agreement: a generator that wraps conditionally must be matched by a parser unwrapping under the same condition
	for _, pr := range [][2]string{{"generateEncryptionKey", "ParseIdentity"}, {"generateSignatureKey", "ParseSignerIdentity"}} {
		g, p := conds[pr[0]], conds[pr[1]]
		f := c.fnOpt("pkg/keys", pr[1])
		if g == nil || p == nil || f == nil {
			continue
		}
		for val, gc := range g {
			if gc == "" {
				continue
			}
			pc, ok := p[val]
			c.verdictIf(ok && pc == gc, rule, f, "condition agreement "+val, f.Decl.Pos(),
				"generator wraps and parser unwraps under the same condition ("+gc+")", fmt.Sprintf("the generator wraps the %s key only when %s but the parser unwraps when %q: keys generated with/without a password cannot be parsed back", val, gc, pc))
		}
	}
}

func condSuffix(c string) string {
	if c == "" {
		return ""
	}
	return " when " + c
}
