package main

import (
	"fmt"
	"go/ast"
	"go/token"
	"go/types"
)

func init() {
	register(&Property{
		ID:          "C14",
		Explanation: "Seek algebra and access gating of the file handle, decided from the source: (whence-algebra) in every function taking (offset int64, whence int) each arm of every switch over whence with io.SeekStart/SeekCurrent/SeekEnd labels produces a value in which the coefficient of offset is +1 (linear normalisation of the arm's expression; sibling arms that disagree in sign are a contradiction), the Start arm has no base term, the End arm's base is the size; (seek-returns-position) every success return of that function yields the computed absolute target, a whence-arm expression, the delegate's Seek result or the directory no-op constant - never the byte count of io.CopyN; (access-gating) read paths are reachable only across the true edge of flags.Read, enterWriteMode only across flags.Write, O_TRUNC/O_APPEND are consumed exactly in enterWriteMode; (flush-on-close) closeWithoutLocking reaches cleanWriteBuf only across the success edge of syncWithoutLocking, which passes replace=true, skipSizeCheck=true to Update.",
		NotDecided:  "Byte/offset equality with a reference file, short reads, EOF signalling, write-cache behaviour.",
		Assumptions: []string{"cache.WriteCache implementations follow io.Seeker/io.Writer contracts"},
		Rules:       []func(*Ctx){ruleC14Whence, ruleC14AccessGating, ruleC14FlushOnClose},
	})
}

// linear computes the coefficient of variable v in expression e; ok=false if e is not linear in v.
// base collects the other terms (as strings) with their signs.
func linear(info *types.Info, e ast.Expr, v types.Object, sign int, base *[]string) (coef int, ok bool) {
	e = ast.Unparen(e)
	switch x := e.(type) {
	case *ast.Ident:
		if info.Uses[x] == v {
			return sign, true
		}
		*base = append(*base, signStr(sign)+x.Name)
		return 0, true
	case *ast.BinaryExpr:
		switch x.Op {
		case token.ADD:
			a, ok1 := linear(info, x.X, v, sign, base)
			b, ok2 := linear(info, x.Y, v, sign, base)
			return a + b, ok1 && ok2
		case token.SUB:
			a, ok1 := linear(info, x.X, v, sign, base)
			b, ok2 := linear(info, x.Y, v, -sign, base)
			return a + b, ok1 && ok2
		}
		if usesObj(info, x, v) {
			return 0, false
		}
		*base = append(*base, signStr(sign)+types.ExprString(x))
		return 0, true
	case *ast.UnaryExpr:
		if x.Op == token.SUB {
			return linear(info, x.X, v, -sign, base)
		}
		if x.Op == token.ADD {
			return linear(info, x.X, v, sign, base)
		}
	case *ast.CallExpr:
		// conversion T(x)
		if tv, ok := info.Types[x.Fun]; ok && tv.IsType() && len(x.Args) == 1 {
			return linear(info, x.Args[0], v, sign, base)
		}
		if usesObj(info, x, v) {
			return 0, false
		}
		*base = append(*base, signStr(sign)+types.ExprString(x))
		return 0, true
	case *ast.BasicLit:
		if x.Value != "0" {
			*base = append(*base, signStr(sign)+x.Value)
		}
		return 0, true
	}
	if usesObj(info, e, v) {
		return 0, false
	}
	*base = append(*base, signStr(sign)+types.ExprString(e))
	return 0, true
}

func signStr(s int) string {
	if s < 0 {
		return "-"
	}
	return "+"
}

func seekFunctions(c *Ctx) []*FuncInfo {
	var out []*FuncInfo
	for _, f := range c.Funcs {
		if f.Decl == nil || f.RelPkg() != "pkg/fs" {
			continue
		}
		off, wh := paramVar(f, "offset"), paramVar(f, "whence")
		if off == nil || wh == nil {
			continue
		}
		if len(c.switchesOn(f, wh)) > 0 {
			out = append(out, f)
		}
	}
	return out
}

func ruleC14Whence(c *Ctx) {
	const rule = "C14.whence-algebra"
	const rule2 = "C14.seek-returns-position"
	c.floor(rule, 6, "whence arms (2 switches x 3 arms)")
	c.floor(rule2, 4, "success returns of the seek function")
	sStart, sCur, sEnd := c.extObj("io", "SeekStart"), c.extObj("io", "SeekCurrent"), c.extObj("io", "SeekEnd")
	fns := seekFunctions(c)
	if len(fns) == 0 {
		c.unresolved("no function in pkg/fs with (offset, whence) parameters and a switch over whence")
		return
	}
	for _, f := range fns {
		info := f.Pkg.TypesInfo
		off, wh := paramVar(f, "offset"), paramVar(f, "whence")
		armExprs := map[ast.Expr]bool{}
		var dstVar types.Object
		for si, t := range c.switchesOn(f, wh) {
			for _, arm := range t.Arms {
				if arm.Default || len(arm.Labels) == 0 {
					continue
				}
				lbl := arm.Labels[0]
				var kind string
				switch types.Object(lbl) {
				case sStart:
					kind = "SeekStart"
				case sCur:
					kind = "SeekCurrent"
				case sEnd:
					kind = "SeekEnd"
				default:
					continue
				}
				// the value this arm produces: the last assignment to a non-local-to-arm variable, or the returned value
				var val ast.Expr
				var valPos token.Pos
				for _, st := range arm.Body {
					switch s := st.(type) {
					case *ast.AssignStmt:
						if s.Tok == token.ASSIGN && len(s.Lhs) == 1 && len(s.Rhs) == 1 {
							val, valPos = s.Rhs[0], s.Pos()
							if si == 0 {
								dstVar = objOfIdent(info, s.Lhs[0])
							}
						}
					case *ast.ReturnStmt:
						if len(s.Results) >= 1 {
							val, valPos = s.Results[0], s.Pos()
							armExprs[s.Results[0]] = true
						}
					}
				}
				construct := fmt.Sprintf("switch#%d arm %s", si+1, kind)
				if val == nil {
					c.undecided(rule, f, construct, arm.Clauses[0].Pos(), "cannot find the value this arm produces")
					continue
				}
				var base []string
				coef, lin := linear(info, val, off, 1, &base)
				if !lin {
					c.undecided(rule, f, construct, valPos, "arm value %s is not linear in offset", exprString(val))
					continue
				}
				good := coef == 1
				why := ""
				if !good {
					why = fmt.Sprintf("offset enters %s with coefficient %+d (io.Seeker: position = base + offset)", exprString(val), coef)
				}
				if good && kind == "SeekStart" && len(base) != 0 {
					good, why = false, "the SeekStart arm adds a base term "+fmt.Sprint(base)
				}
				if good && kind != "SeekStart" && len(base) == 0 {
					good, why = false, "the "+kind+" arm has no base term (current position / size)"
				}
				if good && kind == "SeekEnd" {
					hasSize := false
					ast.Inspect(val, func(n ast.Node) bool {
						if se, ok := n.(*ast.SelectorExpr); ok && se.Sel.Name == "Size" {
							hasSize = true
						}
						return true
					})
					if !hasSize {
						good, why = false, "the SeekEnd arm's base is not the file size"
					}
				}
				if good {
					c.ok(rule, f, construct, valPos, true, "value %s: offset coefficient +1, base %v", exprString(val), base)
				} else {
					c.bad(rule, f, construct, valPos, "%s", why)
				}
			}
		}
		// success returns
		dirNoop := func(ret *ast.ReturnStmt) bool {
			tv := info.Types[ret.Results[0]]
			return tv.Value != nil && tv.Value.String() == "0"
		}
		for i, ret := range returnsIn(f) {
			if len(ret.Results) == 0 {
				continue
			}
			construct := fmt.Sprintf("return#%d", i+1)
			if len(ret.Results) == 1 {
				// single call returning (int64, error): must be a delegate Seek with the same (offset, whence)
				call, ok := ast.Unparen(ret.Results[0]).(*ast.CallExpr)
				good := false
				if ok {
					if se, ok := ast.Unparen(call.Fun).(*ast.SelectorExpr); ok && se.Sel.Name == "Seek" && len(call.Args) == 2 &&
						objOfIdent(info, call.Args[0]) == types.Object(off) && objOfIdent(info, call.Args[1]) == types.Object(wh) {
						good = true
					}
				}
				c.verdictIf(good, rule2, f, construct, ret.Pos(), "delegates to the write cache's Seek with the caller's (offset, whence)", "returns the result of a call other than the delegate's Seek(offset, whence)")
				continue
			}
			if !returnsNil(info, ret) {
				continue
			}
			v := ret.Results[0]
			switch {
			case armExprs[v]:
				c.ok(rule2, f, construct, ret.Pos(), false, "whence-arm value (checked by whence-algebra)")
			case dirNoop(ret):
				c.ok(rule2, f, construct, ret.Pos(), false, "constant 0 (directory no-op)")
			case dstVar != nil && objOfIdent(info, v) == dstVar:
				c.ok(rule2, f, construct, ret.Pos(), true, "returns the computed absolute target")
			default:
				what := exprString(v)
				if o := objOfIdent(info, v); o != nil {
					if _, call, idx := defOf(f, o); call != nil && idx == 0 {
						if fn, ok := calleeObj(info, call).(*types.Func); ok {
							what += " (result of " + fn.Pkg().Name() + "." + fn.Name() + ")"
						}
					}
				}
				c.bad(rule2, f, construct, ret.Pos(), "Seek reports %s instead of the new absolute offset", what)
			}
		}
	}
}

func ruleC14AccessGating(c *Ctx) {
	const rule = "C14.access-gating"
	c.floor(rule, 10, "read/write entry points and flag consumers of fs.File")
	flagsR := c.field("pkg/fs", "FileFlags", "Read")
	flagsW := c.field("pkg/fs", "FileFlags", "Write")
	flagsT := c.field("pkg/fs", "FileFlags", "Truncate")
	flagsA := c.field("pkg/fs", "FileFlags", "Append")
	readOps := c.field("pkg/fs", "File", "readOps")
	writeBuf := c.field("pkg/fs", "File", "writeBuf")
	enter := c.fn("pkg/fs", "(*File).enterWriteMode")
	errPerm := c.extObj("os", "ErrPermission")
	if flagsR == nil || flagsW == nil || flagsT == nil || flagsA == nil || readOps == nil || enter == nil || writeBuf == nil {
		return
	}
	// read side: Read and ReadAt touch the data path only when flags.Read holds
	for _, name := range []string{"(*File).Read", "(*File).ReadAt"} {
		f := c.fn("pkg/fs", name)
		if f == nil {
			continue
		}
		info := f.Pkg.TypesInfo
		fl := c.flow(f)
		n := 0
		check := func(node ast.Node, what string) {
			n++
			okk, reach := fl.guardedBy(node, func(ft Fact) bool { return selField(info, ft.E) == flagsR && ft.Pos }, nil)
			if !reach {
				return
			}
			c.verdictIf(okk, rule, f, fmt.Sprintf("data access#%d", n), node.Pos(), what+" only when flags.Read", what+" reachable on a handle without read access")
		}
		for _, cs := range f.calls {
			if se, ok := ast.Unparen(cs.Call.Fun).(*ast.SelectorExpr); ok {
				if fv := selField(info, se.X); fv == writeBuf || fv == readOps {
					check(cs.Call, "data path ("+exprString(cs.Call.Fun)+")")
				}
			}
			if cs.Target != nil && (cs.Target.Name == "(*File).Seek" || cs.Target.Name == "(*File).Read") {
				check(cs.Call, "call of "+cs.Target.Name)
			}
		}
		for _, l := range c.litsIn(f) {
			check(l.Lit, "streaming goroutine")
		}
		// the not-readable branch returns os.ErrPermission
		found := false
		walkOwn(f.Body(), func(nd ast.Node) {
			is, ok := nd.(*ast.IfStmt)
			if !ok {
				return
			}
			u, ok := ast.Unparen(is.Cond).(*ast.UnaryExpr)
			if !ok || u.Op != token.NOT || selField(info, u.X) != flagsR || len(is.Body.List) == 0 {
				return
			}
			if ret, ok := is.Body.List[len(is.Body.List)-1].(*ast.ReturnStmt); ok && len(ret.Results) > 0 {
				if se, ok := ast.Unparen(ret.Results[len(ret.Results)-1]).(*ast.SelectorExpr); ok && info.Uses[se.Sel] == errPerm {
					found = true
				}
			}
		})
		c.verdictIf(found, rule, f, "permission error", f.Decl.Pos(), "unreadable handle yields os.ErrPermission", "no `if !flags.Read { return os.ErrPermission }` rejection")
	}
	// write side: enterWriteMode callers gated by flags.Write and rejecting with os.ErrPermission
	for _, name := range []string{"(*File).Write", "(*File).WriteAt", "(*File).WriteString", "(*File).Truncate"} {
		f := c.fn("pkg/fs", name)
		if f == nil {
			continue
		}
		info := f.Pkg.TypesInfo
		fl := c.flow(f)
		n := 0
		for _, cs := range f.calls {
			isData := cs.Target == enter
			if se, ok := ast.Unparen(cs.Call.Fun).(*ast.SelectorExpr); ok && selField(info, se.X) == writeBuf {
				isData = true
			}
			if !isData {
				continue
			}
			n++
			okk, reach := fl.guardedBy(cs.Call, func(ft Fact) bool { return selField(info, ft.E) == flagsW && ft.Pos }, nil)
			if !reach {
				continue
			}
			c.verdictIf(okk, rule, f, fmt.Sprintf("write access#%d", n), cs.Call.Pos(), "write path only when flags.Write", "write path ("+exprString(cs.Call.Fun)+") reachable on a handle without write access")
		}
		if n == 0 {
			c.unresolved("no write-path call found in %s", name)
		}
	}
	// O_TRUNC / O_APPEND are consumed in enterWriteMode, and only there (OpenFile merely sets and tests them)
	{
		f := enter
		info := f.Pkg.TypesInfo
		fl := c.flow(f)
		var truncCall, seekCall *ast.CallExpr
		for _, cs := range f.calls {
			se, ok := ast.Unparen(cs.Call.Fun).(*ast.SelectorExpr)
			if !ok || selField(info, se.X) != writeBuf {
				continue
			}
			if se.Sel.Name == "Truncate" && len(cs.Call.Args) == 1 {
				if tv := info.Types[cs.Call.Args[0]]; tv.Value != nil && tv.Value.String() == "0" {
					truncCall = cs.Call
				}
			}
			if se.Sel.Name == "Seek" && len(cs.Call.Args) == 2 {
				// the absolute seek that positions a non-appending handle (to the start, or to where it stood while
				// reading); the rewind of the just-truncated buffer is told apart by being constant AND under flags.Truncate
				if k := constOf(info, cs.Call.Args[1]); k != nil && k.Name() == "SeekStart" {
					underTrunc, _ := fl.guardedBy(cs.Call, func(ft Fact) bool { return selField(info, ft.E) == flagsT && ft.Pos }, nil)
					if !underTrunc || seekCall == nil {
						seekCall = cs.Call // (a seek outside the truncate branch wins over the rewind inside it)
					}
				}
			}
		}
		if truncCall == nil {
			c.bad(rule, f, "O_TRUNC consumed", f.Decl.Pos(), "enterWriteMode no longer truncates the write cache to 0 for O_TRUNC")
		} else {
			okk, _ := fl.guardedBy(truncCall, func(ft Fact) bool { return selField(info, ft.E) == flagsT && ft.Pos }, nil)
			c.verdictIf(okk, rule, f, "O_TRUNC consumed", truncCall.Pos(), "cache truncated to 0 exactly when flags.Truncate", "the truncate-to-0 is not conditional on flags.Truncate")
		}
		if seekCall == nil {
			c.bad(rule, f, "O_APPEND consumed", f.Decl.Pos(), "enterWriteMode no longer rewinds the write cache for non-append handles")
		} else {
			okk, _ := fl.guardedBy(seekCall, func(ft Fact) bool { return selField(info, ft.E) == flagsA && !ft.Pos }, nil)
			c.verdictIf(okk, rule, f, "O_APPEND consumed", seekCall.Pos(), "cursor rewound to 0 exactly when not flags.Append", "the rewind to 0 is not conditional on !flags.Append")
		}
		// existing content is loaded before the flags are applied
		var restore *ast.CallExpr
		for _, cs := range f.calls {
			if cs.Target != nil && cs.Target.Name == "(*Operations).Restore" {
				restore = cs.Call
			}
		}
		if restore != nil && truncCall != nil {
			c.verdictIf(restore.Pos() < truncCall.Pos(), rule, f, "load before flags", restore.Pos(), "existing content is loaded before truncate/append flags are applied", "flags are applied before the existing content is loaded into the cache")
		}
	}
	// who reads the Truncate / Append flags
	for _, fv := range []*types.Var{flagsT, flagsA} {
		n := 0
		for _, f := range c.Funcs {
			if f.RelPkg() != "pkg/fs" {
				continue
			}
			info := f.Pkg.TypesInfo
			root := f
			for root.Outer != nil {
				root = root.Outer
			}
			walkOwn(f.Body(), func(nd ast.Node) {
				e, ok := nd.(ast.Expr)
				if !ok || selField(info, e) != fv {
					return
				}
				n++
				okk := root == enter || root.Name == "(*STFS).OpenFile"
				c.verdictIf(okk, rule, f, fmt.Sprintf("use FileFlags.%s#%d", fv.Name(), n), e.Pos(), "flag used only by OpenFile and enterWriteMode", "FileFlags."+fv.Name()+" is consulted outside OpenFile/enterWriteMode")
			})
		}
	}
}

func ruleC14FlushOnClose(c *Ctx) {
	const rule = "C14.flush-on-close"
	c.floor(rule, 4, "close->sync->clean ordering, Update flags, Close/Sync delegation")
	closeWL := c.fn("pkg/fs", "(*File).closeWithoutLocking")
	syncWL := c.fn("pkg/fs", "(*File).syncWithoutLocking")
	cleanF := c.field("pkg/fs", "File", "cleanWriteBuf")
	update := c.fn("pkg/operations", "(*Operations).Update")
	if closeWL == nil || syncWL == nil || cleanF == nil || update == nil {
		return
	}
	{
		f := closeWL
		info := f.Pkg.TypesInfo
		fl := c.flow(f)
		n := 0
		for _, cs := range f.calls {
			if cs.Callee != types.Object(cleanF) {
				continue
			}
			n++
			okk, _ := c.successDominates(fl, cs.Call, func(call *ast.CallExpr) bool { return calleeObj(info, call) == types.Object(syncWL.Obj) }, nil)
			c.verdictIf(okk, rule, f, fmt.Sprintf("cleanWriteBuf#%d after sync", n), cs.Call.Pos(), "write cache discarded only after it was flushed successfully", "the write cache can be discarded without a successful flush: written data would be lost on Close")
		}
		if n == 0 {
			c.unresolved("closeWithoutLocking no longer calls cleanWriteBuf")
		}
	}
	{
		f := syncWL
		info := f.Pkg.TypesInfo
		n := 0
		for _, cs := range f.calls {
			if cs.Target != update {
				continue
			}
			n++
			good := len(cs.Call.Args) == 4 && isConstTrue(info, cs.Call.Args[2]) && isConstTrue(info, cs.Call.Args[3])
			c.verdictIf(good, rule, f, fmt.Sprintf("Update#%d flags", n), cs.Call.Pos(), "flush is a content-replacing update that also covers empty content (replace=true, skipSizeCheck=true)", "the flush does not pass replace=true, skipSizeCheck=true: content (or an emptied file) would not be written back")
		}
		if n == 0 {
			c.bad(rule, f, "Update#1 flags", f.Decl.Pos(), "syncWithoutLocking no longer flushes through Operations.Update")
		}
	}
	for _, pr := range [][2]string{{"(*File).Close", "(*File).closeWithoutLocking"}, {"(*File).Sync", "(*File).syncWithoutLocking"}} {
		f := c.fn("pkg/fs", pr[0])
		if f == nil {
			continue
		}
		found := false
		for _, cs := range f.calls {
			if cs.Target != nil && cs.Target.Name == pr[1] {
				found = true
			}
		}
		c.verdictIf(found, rule, f, "delegates", f.Decl.Pos(), "delegates to "+pr[1], pr[0]+" no longer reaches "+pr[1])
	}
}
