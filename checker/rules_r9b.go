package main

// Rules added in the ninth round for seeded changes that were not reported on the first try (DESIGN.md §7.11).

import (
	"fmt"
	"go/ast"
	"go/token"
	"go/types"
	"strings"
)

func init() {
	extend("C08", ruleFormatParamNotReassigned("C08.format-parameter-not-reassigned"), ruleReadErrorNotConflated("C08.read-error-not-conflated"))
	extend("C09", ruleFormatParamNotReassigned("C09.format-parameter-not-reassigned"), ruleNoBareReadInCodecs("C09.no-bare-read-in-codecs"))
	extend("C03", ruleFormatParamNotReassigned("C03.format-parameter-not-reassigned"), ruleDecoderOptionsDefault("C03.decoders-take-the-source-only"))
	extend("C14", ruleReadErrorNotConflated("C14.read-error-not-conflated"), ruleDecoderOptionsDefault("C14.decoders-take-the-source-only"))
	extend("C11", ruleGoroutineWritesNoCapturedResult("C11.goroutine-writes-no-captured-result"))
	extend("C12", ruleExactNameLookups("C12.exact-name-lookups"))
	extend("C13", ruleExactNameLookups("C13.exact-name-lookups"), ruleRetryOnlyOnNoRows("C13.retry-only-on-no-rows"), ruleNamesCleanedAtEntry("C13.names-cleaned-at-entry"))
	extend("C17", ruleNamesCleanedAtEntry("C17.names-cleaned-at-entry"))
	extend("C18", ruleNoDataAsFormatString("C18.no-data-as-format-string"), ruleNoBareReadInCodecs("C18.no-bare-read-in-codecs"))
	extend("C04", ruleLastIndexedUsesRecordSize("C04.last-indexed-uses-record-size"))
}

// codecFuncs: the exported functions of the codec packages that take a *Format parameter.
func codecFuncs(c *Ctx) map[*FuncInfo]*types.Var {
	out := map[*FuncInfo]*types.Var{}
	for _, f := range c.Funcs {
		rel := f.RelPkg()
		if f.Decl == nil || !(rel == "pkg/encryption" || rel == "pkg/signature" || rel == "pkg/compression") || !f.Decl.Name.IsExported() {
			continue
		}
		for _, pv := range paramsWhere(f, func(v *types.Var) bool { return strings.HasSuffix(v.Name(), "Format") }) {
			out[f] = pv
		}
	}
	return out
}

// ruleFormatParamNotReassigned: a codec function dispatches on the format its caller configured. Assigning to the format
// parameter (for example "no key given, so treat it as none") makes the function run another format's code than the
// one the rest of the pipeline - and the other side of the tape - uses; for verification that is fail-open.
func ruleFormatParamNotReassigned(rule string) func(*Ctx) {
	return func(c *Ctx) {
		c.floor(rule, 8, "codec functions that dispatch on a format parameter")
		n := 0
		for f, pv := range codecFuncs(c) {
			n++
			info := f.Pkg.TypesInfo
			bad := token.NoPos
			ast.Inspect(f.Body(), func(m ast.Node) bool {
				switch x := m.(type) {
				case *ast.AssignStmt:
					for _, l := range x.Lhs {
						if id, ok := ast.Unparen(l).(*ast.Ident); ok && info.Uses[id] == types.Object(pv) {
							bad = x.Pos()
						}
					}
				case *ast.UnaryExpr:
					if id, ok := ast.Unparen(x.X).(*ast.Ident); ok && x.Op == token.AND && info.Uses[id] == types.Object(pv) {
						bad = x.Pos()
					}
				}
				return true
			})
			at := f.Decl.Pos()
			if bad != token.NoPos {
				at = bad
			}
			c.verdictIf(bad == token.NoPos, rule, f, "parameter "+pv.Name(), at, "the format parameter keeps the caller's value",
				f.Name+" assigns to its "+pv.Name()+" parameter: it then runs the code of a format other than the configured one (a nil key turning signature verification into 'none' accepts any record that merely carries a signature string)")
		}
		if n < half(8) {
			c.unresolved("only %d dispatching codec functions found", n)
		}
	}
}

// ruleReadErrorNotConflated: File.Read reports the end of the content as io.EOF and every failure of the restore that
// feeds it as that failure. The only error it turns into io.EOF is io.EOF: a return that hands out io.EOF sits behind a
// comparison of the stream's error with io.EOF, not with another error value (io.ErrUnexpectedEOF is what a cut or
// tampered member produces).
func ruleReadErrorNotConflated(rule string) func(*Ctx) {
	return func(c *Ctx) {
		c.floor(rule, 1, "returns of File.Read that report io.EOF")
		f := c.fn("pkg/fs", "(*File).Read")
		eof := c.extObj("io", "EOF")
		if f == nil || eof == nil {
			return
		}
		info := f.Pkg.TypesInfo
		n := 0
		for _, ret := range returnsIn(f) {
			if len(ret.Results) == 0 {
				continue
			}
			last := ast.Unparen(ret.Results[len(ret.Results)-1])
			if !usesObjExpr(info, last, eof) {
				continue
			}
			n++
			okk := false
			other := ""
			for _, cl := range enclosingCondsFlow(info, f.Body(), ret) {
				ast.Inspect(cl.e, func(m ast.Node) bool {
					be, ok := m.(*ast.BinaryExpr)
					if !ok || be.Op != token.EQL || !cl.pos {
						return true
					}
					for _, side := range []ast.Expr{be.X, be.Y} {
						if usesObjExpr(info, side, eof) {
							okk = true
						} else if o := objOfIdentOrSel(info, ast.Unparen(side)); o != nil {
							if v, ok := o.(*types.Var); ok && v.Pkg() != nil && v.Parent() == v.Pkg().Scope() && strings.HasPrefix(v.Name(), "Err") {
								other = v.Name()
							}
						}
					}
					return true
				})
			}
			c.verdictIf(okk && other == "", rule, f, fmt.Sprintf("return io.EOF#%d", n), ret.Pos(), "io.EOF is reported only where the stream reported io.EOF",
				"File.Read reports io.EOF where the stream reported "+other+" (or nothing was compared with io.EOF at all): the error a cut or tampered member produces is handed to the caller as the regular end of the file, and a short prefix is accepted as the whole content")
		}
		if n == 0 {
			c.unresolved("File.Read no longer has a return that reports io.EOF")
		}
	}
}

// ruleNoBareReadInCodecs: a single Read may return fewer bytes than asked for - a pipe, a network stream, a decompressor
// do so routinely. The codec packages never call Read themselves (they hand readers to io.ReadFull, io.Copy or to the
// libraries); a bare Read that is taken for "the first n bytes" works on files and fails on streams.
func ruleNoBareReadInCodecs(rule string) func(*Ctx) {
	return func(c *Ctx) {
		c.floor(rule, 1, "direct Read calls on readers in the codec packages (none expected; matcher verified on a fixture)")
		scan := func(cc *Ctx, rels map[string]bool, report func(f *FuncInfo, call *ast.CallExpr)) {
			for _, f := range cc.Funcs {
				if !rels[f.RelPkg()] {
					continue
				}
				info := f.Pkg.TypesInfo
				for _, cs := range f.calls {
					se, ok := ast.Unparen(cs.Call.Fun).(*ast.SelectorExpr)
					if !ok || se.Sel.Name != "Read" || len(cs.Call.Args) != 1 {
						continue
					}
					fn, ok := cs.Callee.(*types.Func)
					if !ok {
						continue
					}
					sig := fn.Type().(*types.Signature)
					if sig.Recv() == nil || sig.Results().Len() != 2 {
						continue
					}
					if _, isSlice := info.TypeOf(cs.Call.Args[0]).Underlying().(*types.Slice); !isSlice {
						continue
					}
					// a Read method that forwards to the wrapped reader's Read is a reader itself, not a consumer
					if f.Decl != nil && f.Decl.Recv != nil && f.Decl.Name.Name == "Read" {
						continue
					}
					report(f, cs.Call)
				}
			}
		}
		fc, err := fixtureCtx("pkg/fixture", "package fixture\nimport \"io\"\nfunc f(r io.Reader) { b := make([]byte, 4); r.Read(b) }\n")
		alive := false
		if err == nil {
			scan(fc, map[string]bool{"pkg/fixture": true}, func(*FuncInfo, *ast.CallExpr) { alive = true })
		}
		if !alive {
			c.unresolved("bare-read matcher failed its positive control")
		}
		n := 0
		scan(c, map[string]bool{"pkg/encryption": true, "pkg/signature": true, "pkg/compression": true, "pkg/keys": true}, func(f *FuncInfo, call *ast.CallExpr) {
			n++
			c.bad(rule, f, fmt.Sprintf("Read#%d", n), call.Pos(), "%s calls Read on a stream once and goes on with what it got: a short first read (a pipe, a decompressor, a buffered reader at a refill) is taken for missing or foreign data, so the pair's own ciphertext or signature is refused depending on how the bytes arrive", f.Name)
		})
		if n == 0 {
			c.ok(rule, nil, "no bare Read", token.NoPos, false, "the codec packages leave reading to io.ReadFull/io.Copy and the libraries")
		}
	}
}

// ruleDecoderOptionsDefault: Decompress builds every decoder from the source alone. An option that bounds what the
// decoder accepts (a maximum window, a memory limit) has to cover everything Compress can produce at EVERY level;
// streams written at another level than the one that was tried are refused.
func ruleDecoderOptionsDefault(rule string) func(*Ctx) {
	return func(c *Ctx) {
		c.floor(rule, 4, "decoder constructors called by compression.Decompress")
		f := c.fn("pkg/compression", "Decompress")
		if f == nil {
			return
		}
		info := f.Pkg.TypesInfo
		n := 0
		for _, g := range c.Funcs {
			if g.RelPkg() != "pkg/compression" {
				continue
			}
			for _, cs := range g.calls {
				fn, ok := cs.Callee.(*types.Func)
				if !ok || fn.Pkg() == nil || inRepo(fn) || !strings.HasPrefix(fn.Name(), "New") {
					continue
				}
				sig := fn.Type().(*types.Signature)
				if sig.Recv() != nil || sig.Params().Len() == 0 {
					continue
				}
				// first parameter is a reader
				if !isReaderType(sig.Params().At(0).Type()) {
					continue
				}
				n++
				// options that bound what the decoder accepts (fixed parameters are part of the constructor's contract, and
				// options that only tune how it works - concurrency - are not a limit)
				extra := 0
				if sig.Variadic() {
					for _, a := range cs.Call.Args[sig.Params().Len()-1:] {
						limiting := true
						if oc, ok := ast.Unparen(a).(*ast.CallExpr); ok {
							if ofn, ok := calleeObj(info, oc).(*types.Func); ok {
								ln := strings.ToLower(ofn.Name())
								limiting = false
								for _, kw := range []string{"max", "limit", "window", "lowmem", "memory", "size"} {
									if strings.Contains(ln, kw) {
										limiting = true
									}
								}
							}
						}
						if limiting {
							extra++
						}
					}
				}
				c.verdictIf(extra <= 0, rule, f, fmt.Sprintf("%s.%s#%d", fn.Pkg().Name(), fn.Name(), n), cs.Call.Pos(), "the decoder is built without options that bound what it accepts",
					"the "+fn.Pkg().Name()+" decoder is built with limiting options: a limit on what it accepts (window, memory) that fits the streams of one compression level refuses those of another ('window size exceeded' for zstandard balanced/smallest)")
			}
		}
		if n < half(4) {
			c.unresolved("only %d decoder constructors found in compression.Decompress", n)
		}
	}
}

func isReaderType(t types.Type) bool {
	t = types.Unalias(t)
	if nt, ok := t.(*types.Named); ok && nt.Obj().Pkg() != nil && nt.Obj().Pkg().Path() == "io" && (nt.Obj().Name() == "Reader" || nt.Obj().Name() == "ReadCloser" || nt.Obj().Name() == "ReadSeeker") {
		return true
	}
	return false
}

// ruleGoroutineWritesNoCapturedResult: a goroutine started by a method outlives the statement that started it. If its
// body assigns to a parameter or named result of the enclosing function, it writes the caller's return value from
// another goroutine, without a lock, possibly after the function has returned it.
func ruleGoroutineWritesNoCapturedResult(rule string) func(*Ctx) {
	return func(c *Ctx) {
		c.floor(rule, 2, "goroutine literals in pkg/ and internal/")
		n := 0
		for _, f := range c.Funcs {
			rel := f.RelPkg()
			if !(strings.HasPrefix(rel, "pkg/") || strings.HasPrefix(rel, "internal/")) {
				continue
			}
			info := f.Pkg.TypesInfo
			k := 0
			walkOwn(f.Body(), func(nd ast.Node) {
				gs, ok := nd.(*ast.GoStmt)
				if !ok {
					return
				}
				lit, ok := gs.Call.Fun.(*ast.FuncLit)
				if !ok {
					return
				}
				n++
				k++
				// parameters and results of the enclosing functions
				outer := map[types.Object]bool{}
				for g := f; g != nil; g = g.Outer {
					for _, fl := range []*ast.FieldList{g.Type().Params, g.Type().Results} {
						if fl == nil {
							continue
						}
						for _, fld := range fl.List {
							for _, id := range fld.Names {
								if o := g.Pkg.TypesInfo.Defs[id]; o != nil {
									outer[o] = true
								}
							}
						}
					}
				}
				// ... and the variables in which an inlined helper keeps its results (`var n int; var err error` ahead of the
				// inlined body): error-typed locals of the enclosing function that are declared without a value and are also
				// used outside the goroutine
				for g := f; g != nil; g = g.Outer {
					ginfo := g.Pkg.TypesInfo
					ast.Inspect(g.Body(), func(m ast.Node) bool {
						if m == ast.Node(lit) {
							return false
						}
						ds, ok := m.(*ast.DeclStmt)
						if !ok {
							return true
						}
						gd, ok := ds.Decl.(*ast.GenDecl)
						if !ok || gd.Tok != token.VAR {
							return true
						}
						for _, sp := range gd.Specs {
							vs, ok := sp.(*ast.ValueSpec)
							if !ok || len(vs.Values) != 0 {
								continue
							}
							for _, id := range vs.Names {
								if o := ginfo.Defs[id]; o != nil && isErrorType(o.Type()) {
									outer[o] = true
								}
							}
						}
						return true
					})
				}
				bad := ""
				ast.Inspect(lit.Body, func(m ast.Node) bool {
					switch x := m.(type) {
					case *ast.AssignStmt:
						for _, l := range x.Lhs {
							if id, ok := ast.Unparen(l).(*ast.Ident); ok && x.Tok != token.DEFINE || ok && info.Defs[id] == nil {
								if o := info.Uses[id]; o != nil && outer[o] {
									bad = id.Name
								}
							}
						}
					case *ast.IncDecStmt:
						if id, ok := ast.Unparen(x.X).(*ast.Ident); ok {
							if o := info.Uses[id]; o != nil && outer[o] {
								bad = id.Name
							}
						}
					}
					return true
				})
				c.verdictIf(bad == "", rule, f, fmt.Sprintf("go#%d", k), gs.Pos(), "the goroutine assigns to none of the enclosing function's parameters or results",
					"the goroutine started here assigns to "+bad+", a parameter or named result of the function that starts it: the caller's return value is written from another goroutine without a lock (a data race; a whole-file Read can come back with a nil error instead of io.EOF)")
			})
		}
		if n < 2 {
			c.unresolved("only %d goroutine literals found", n)
		}
	}
}

// sqlTextsOfPersisters: every qm.Where / queries.Raw text issued by pkg/persisters.
func sqlTextsOfPersisters(c *Ctx, visit func(f *FuncInfo, call *ast.CallExpr, text string)) {
	for _, f := range c.Funcs {
		if f.RelPkg() != "pkg/persisters" {
			continue
		}
		for _, cs := range f.calls {
			fn, ok := cs.Callee.(*types.Func)
			if !ok || fn.Pkg() == nil || len(cs.Call.Args) == 0 {
				continue
			}
			isWhere := fn.Name() == "Where" && strings.HasSuffix(fn.Pkg().Path(), "queries/qm")
			isRaw := fn.Name() == "Raw" && fn.Pkg().Path() == queriesPath
			if !isWhere && !isRaw {
				continue
			}
			visit(f, cs.Call, sqlTextOf(f, cs.Call.Args[0], 0))
		}
	}
}

// ruleExactNameLookups: names are compared exactly. A lookup that also accepts names differing in case (COLLATE NOCASE,
// lower()/upper()) resolves an entry that the descendant selection - which keeps the literal prefix - does not follow:
// RemoveAll("/docs") tombstones "/Docs" alone and leaves its children without a parent.
func ruleExactNameLookups(rule string) func(*Ctx) {
	return func(c *Ctx) {
		c.floor(rule, 10, "SQL predicates issued by pkg/persisters")
		n := 0
		sqlTextsOfPersisters(c, func(f *FuncInfo, call *ast.CallExpr, text string) {
			n++
			l := strings.ToLower(text)
			bad := ""
			for _, kw := range []string{"collate", "lower(", "upper(", " glob ", "ilike"} {
				if strings.Contains(l, kw) {
					bad = strings.TrimSpace(kw)
				}
			}
			c.verdictIf(bad == "", rule, f, fmt.Sprintf("predicate#%d", n), call.Pos(), "compares exactly",
				"a predicate of pkg/persisters folds case ("+bad+"): a lookup then resolves an entry whose name differs in case from the one asked for, while the selection of its descendants keeps the literal prefix - a recursive remove or rename acts on a directory it was not asked about and leaves its children behind")
		})
		if n < half(10) {
			c.unresolved("only %d SQL predicates found in pkg/persisters", n)
		}
	}
}

// ruleRetryOnlyOnNoRows: inventory.Stat retries a lookup with the other spelling of the name (trailing slash) only when
// the first lookup said "no such row". Retrying after any error turns a transient failure of the first lookup (database
// busy) into "does not exist" - and the caller then creates over an entry that exists.
func ruleRetryOnlyOnNoRows(rule string) func(*Ctx) {
	return func(c *Ctx) {
		c.floor(rule, 2, "retry lookups (name + \"/\") in inventory.Stat")
		f := c.fn("pkg/inventory", "Stat")
		noRows := c.extObj("database/sql", "ErrNoRows")
		if f == nil || noRows == nil {
			return
		}
		n := 0
		for _, g := range append([]*FuncInfo{f}, c.litsIn(f)...) {
			ginfo := g.Pkg.TypesInfo
			for _, cs := range g.calls {
				fn, ok := cs.Callee.(*types.Func)
				if !ok || !(fn.Name() == "GetHeader" || fn.Name() == "GetHeaderByLinkname") {
					continue
				}
				retry := false
				for _, a := range cs.Call.Args {
					inspectThrough(g, a, func(m ast.Node) bool {
						if bl, ok := m.(*ast.BasicLit); ok && (bl.Value == `"/"` || bl.Value == "`/`") {
							retry = true
						}
						return true
					})
				}
				if !retry {
					continue
				}
				n++
				guarded := false
				for _, cl := range enclosingCondsFlow(ginfo, g.Body(), cs.Call) {
					ast.Inspect(cl.e, func(m ast.Node) bool {
						switch x := m.(type) {
						case *ast.BinaryExpr:
							if (x.Op == token.EQL && cl.pos || x.Op == token.NEQ && !cl.pos) && (usesObjExpr(ginfo, x.X, noRows) || usesObjExpr(ginfo, x.Y, noRows)) {
								guarded = true
							}
						case *ast.CallExpr:
							if isPkgFunc(calleeObj(ginfo, x), "errors", "Is") && len(x.Args) == 2 && usesObjExpr(ginfo, x.Args[1], noRows) && cl.pos {
								guarded = true
							}
						}
						return true
					})
				}
				c.verdictIf(guarded, rule, f, fmt.Sprintf("retry#%d %s", n, fn.Name()), cs.Call.Pos(), "the retry runs only after the first lookup reported sql.ErrNoRows",
					"inventory.Stat retries with the other spelling after ANY error of the first lookup and reports only the retry's outcome: a transient failure (database busy) on an entry that exists comes back as 'no rows', and the caller - Create, Mkdir - goes on to write over it")
			}
		}
		if n < 2 {
			c.unresolved("only %d retry lookups found in inventory.Stat", n)
		}
	}
}

// ruleNamesCleanedAtEntry: every exported method of fs.STFS that receives a name normalises it (cleanName or
// resolveCleanName) before anything else sees it; the index stores names as given, so "/docs//a" or "/docs/./a" handed
// to a method that skips the step becomes a row no listing reaches. A method that only hands the untouched name to
// another exported method (which cleans it) is accepted.
func ruleNamesCleanedAtEntry(rule string) func(*Ctx) {
	return func(c *Ctx) {
		c.floor(rule, 12, "name parameters of the exported methods of fs.STFS")
		nameParams := map[string]bool{"name": true, "path": true, "oldname": true, "newname": true, "dir": true}
		n := 0
		for _, f := range c.Funcs {
			if f.RelPkg() != "pkg/fs" || f.Decl == nil || f.Decl.Recv == nil || !f.Decl.Name.IsExported() || !strings.HasPrefix(f.Name, "(*STFS).") {
				continue
			}
			info := f.Pkg.TypesInfo
			for _, pv := range paramsWhere(f, func(v *types.Var) bool { return nameParams[v.Name()] && isStringType(v.Type()) }) {
				n++
				cleaned := false
				delegated := false
				for _, cs := range f.calls {
					for _, a := range cs.Call.Args {
						if objOfIdent(info, a) != types.Object(pv) {
							continue
						}
						if cs.Callee != nil && (cs.Callee.Name() == "cleanName" || cs.Callee.Name() == "resolveCleanName") {
							cleaned = true
						}
						if cs.Target != nil && cs.Target.Decl != nil && cs.Target.Decl.Name.IsExported() && strings.HasPrefix(cs.Target.Name, "(*STFS).") {
							delegated = true
						}
					}
				}
				c.verdictIf(cleaned || delegated, rule, f, "parameter "+pv.Name(), pv.Pos(), "the name is normalised on entry (or handed untouched to a method that does)",
					f.Name+" uses its "+pv.Name()+" parameter without normalising it: the index keeps names as given, so a spelling like \"/docs//report.txt\" or \"/docs/./notes.txt\" is stored literally - the call succeeds, but no listing contains the entry and Stat of the clean spelling fails")
			}
		}
		if n < half(12) {
			c.unresolved("only %d name parameters found on the exported methods of fs.STFS", n)
		}
	}
}

// ruleNoDataAsFormatString: the first string handed to a Printf-style function is a format; data passed there is
// rewritten wherever it contains a '%'. In the signing and key code that changes the bytes that are hashed.
func ruleNoDataAsFormatString(rule string) func(*Ctx) {
	return func(c *Ctx) {
		c.floor(rule, 1, "Printf-style calls in the library packages")
		printfLike := map[string]int{"Printf": 0, "Sprintf": 0, "Errorf": 0, "Fprintf": 1, "Fatalf": 0, "Panicf": 0, "Appendf": 1}
		n := 0
		for _, f := range c.Funcs {
			rel := f.RelPkg()
			if !(strings.HasPrefix(rel, "pkg/") || strings.HasPrefix(rel, "internal/")) || strings.HasPrefix(rel, "internal/db/") {
				continue
			}
			info := f.Pkg.TypesInfo
			k := 0
			for _, cs := range f.calls {
				fn, ok := cs.Callee.(*types.Func)
				if !ok || fn.Pkg() == nil || !(fn.Pkg().Path() == "fmt" || fn.Pkg().Path() == "log") {
					continue
				}
				idx, ok := printfLike[fn.Name()]
				if !ok || len(cs.Call.Args) <= idx {
					continue
				}
				n++
				k++
				tv := info.Types[cs.Call.Args[idx]]
				c.verdictIf(tv.Value != nil, rule, f, fmt.Sprintf("%s#%d", fn.Name(), k), cs.Call.Pos(), "constant format string",
					"the format argument of "+fn.Pkg().Name()+"."+fn.Name()+" is data ("+exprString(cs.Call.Args[idx])+"): every '%' in it is interpreted - hashed or signed content that contains a percent sign is rewritten before it is hashed, so the pair's own signature over such a string is rejected")
			}
		}
		if n == 0 {
			c.unresolved("no Printf-style calls found in the library packages")
		}
	}
}

// ruleLastIndexedUsesRecordSize: GetLastIndexedRecordAndBlock orders positions by record*recordSize+block; the factor
// has to be the configured record size (PipeConfig.RecordSize or a recordSize parameter) - any other constant gives
// the same order only while blocks stay below it.
func ruleLastIndexedUsesRecordSize(rule string) func(*Ctx) {
	return func(c *Ctx) {
		c.floor(rule, 4, "call sites of GetLastIndexedRecordAndBlock")
		recField := c.field("pkg/config", "PipeConfig", "RecordSize")
		n := 0
		for _, f := range c.Funcs {
			if strings.HasPrefix(f.RelPkg(), "internal/db/") {
				continue
			}
			info := f.Pkg.TypesInfo
			for _, cs := range f.calls {
				fn, ok := cs.Callee.(*types.Func)
				if !ok || fn.Name() != "GetLastIndexedRecordAndBlock" || len(cs.Call.Args) < 2 {
					continue
				}
				n++
				arg := stripConv(info, cs.Call.Args[1])
				good := false
				inspectThrough(f, arg, func(m ast.Node) bool {
					switch x := m.(type) {
					case *ast.SelectorExpr:
						if recField != nil && info.Uses[x.Sel] == types.Object(recField) {
							good = true
						}
					case *ast.Ident:
						if v, ok := info.Uses[x].(*types.Var); ok && strings.EqualFold(v.Name(), "recordSize") {
							good = true
						}
					}
					return true
				})
				c.verdictIf(good, rule, f, fmt.Sprintf("GetLastIndexedRecordAndBlock#%d", n), cs.Call.Pos(), "ordered by the configured record size",
					"the last indexed position is ordered with the factor "+exprString(cs.Call.Args[1])+" instead of the configured record size: with a record size above that factor a header late in one record sorts above the first headers of the next record, so the next operation indexes its header onto the previous record")
			}
		}
		if n < half(4) {
			c.unresolved("only %d call sites of GetLastIndexedRecordAndBlock found", n)
		}
	}
}

func init() {
	extend("C16", ruleRootDepthIsOnlyADepth("C16.root-depth-is-only-a-depth"))
	extend("C13", ruleRootDepthIsOnlyADepth("C13.root-depth-is-only-a-depth"))
}

// ruleRootDepthIsOnlyADepth: the root branch of the one-level listing measures at which depth the root's children
// live. Every value is a legitimate depth - 0 is the normal case for a rebuilt index, whose names are relative - so no
// return of GetHeaderDirectChildren is decided from the measured value ("0 means there is nothing to list").
func ruleRootDepthIsOnlyADepth(rule string) func(*Ctx) {
	return func(c *Ctx) {
		c.floor(rule, 1, "the measured root depth in GetHeaderDirectChildren")
		f := c.fn("pkg/persisters", "(*MetadataPersister).GetHeaderDirectChildren")
		if f == nil {
			return
		}
		info := f.Pkg.TypesInfo
		// variables filled by Bind(..., &v) from a statement that computes min(...)
		var measured []types.Object
		for _, cs := range f.calls {
			se, ok := ast.Unparen(cs.Call.Fun).(*ast.SelectorExpr)
			if !ok || se.Sel.Name != "Bind" || len(cs.Call.Args) < 3 {
				continue
			}
			if !strings.Contains(strings.ToLower(sqlTextOf(f, se.X, 0)), "min(") {
				continue
			}
			if u, ok := ast.Unparen(cs.Call.Args[2]).(*ast.UnaryExpr); ok && u.Op == token.AND {
				if o := objOfIdent(info, u.X); o != nil {
					measured = append(measured, o)
				}
			}
		}
		if len(measured) == 0 {
			c.unresolved("no min(...) query bound to a variable found in GetHeaderDirectChildren")
			return
		}
		for i, o := range measured {
			bad := token.NoPos
			for _, ret := range returnsIn(f) {
				for _, cl := range enclosingCondsFlow(info, f.Body(), ret) {
					if usesObjExpr(info, cl.e, o) {
						bad = ret.Pos()
					}
				}
			}
			at := o.Pos()
			if bad != token.NoPos {
				at = bad
			}
			c.verdictIf(bad == token.NoPos, rule, f, fmt.Sprintf("measured depth#%d", i+1), at, "no return is decided from the measured depth",
				"GetHeaderDirectChildren returns early depending on the value of the measured root depth: depth 0 is what an index rebuilt from a '/'-rooted tape has (its names are relative), so the root of every reopened tape lists as empty - and Remove(\"/\") then passes its emptiness check")
		}
	}
}

func init() {
	extend("C06", ruleFetchReadsOnlyItsMember("C06.fetch-reads-only-its-member"))
}

// ruleFetchReadsOnlyItsMember: whether a member can be restored depends on its own bytes only. recovery.Fetch reads one
// header (a single call of the tar reader's Next) and that member's content; a second Next - "consume the padding",
// "check what follows" - makes the restore of an intact member fail when the tape is cut anywhere in the blocks behind
// it.
func ruleFetchReadsOnlyItsMember(rule string) func(*Ctx) {
	return func(c *Ctx) {
		c.floor(rule, 1, "header reads (tar.Reader.Next) in recovery.Fetch")
		f := c.fn("pkg/recovery", "Fetch")
		if f == nil {
			return
		}
		n := 0
		var first *ast.CallExpr
		for _, g := range append([]*FuncInfo{f}, c.litsIn(f)...) {
			for _, cs := range g.calls {
				if isMethod(cs.Callee, "archive/tar", "Reader", "Next") {
					n++
					if first == nil {
						first = cs.Call
					} else {
						c.bad(rule, f, fmt.Sprintf("header read#%d", n), cs.Call.Pos(), "recovery.Fetch reads a second header after its member: a tape that is cut in the padding, the trailer or the next member's header then fails the restore of a member all of whose bytes are on the tape")
					}
				}
			}
		}
		if n == 0 {
			c.unresolved("recovery.Fetch no longer reads a header with tar.Reader.Next")
			return
		}
		c.ok(rule, f, "header read#1", first.Pos(), true, "the member's own header")
	}
}
