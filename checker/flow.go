package main

import (
	"go/ast"
	"go/token"
	"go/types"
	"strings"

	"golang.org/x/tools/go/cfg"
)

// Flow is the control-flow graph of one function body plus helpers for must/may dataflow.
type Flow struct {
	c    *Ctx
	F    *FuncInfo
	G    *cfg.CFG
	info *types.Info

	preds      map[*cfg.Block][]*cfg.Block
	switchOf   map[*ast.CaseClause]*ast.SwitchStmt
	infeasible map[[2]int32]bool
}

func (c *Ctx) flow(f *FuncInfo) *Flow {
	info := f.Pkg.TypesInfo
	mayReturn := func(call *ast.CallExpr) bool {
		o := calleeObj(info, call)
		if b, ok := o.(*types.Builtin); ok && b.Name() == "panic" {
			return false
		}
		if fn, ok := o.(*types.Func); ok && fn.Pkg() != nil {
			full := fn.Pkg().Path() + "." + fn.Name()
			switch full {
			case "os.Exit", "log.Fatal", "log.Fatalf", "log.Fatalln", "runtime.Goexit":
				return false
			}
		}
		return true
	}
	return &Flow{c: c, F: f, G: cfg.New(f.Body(), mayReturn), info: info}
}

// Fact is a leaf condition known to hold (Pos=true) or not hold (Pos=false) on a CFG edge.
type Fact struct {
	E   ast.Expr
	Pos bool
}

// condFacts decomposes a branch condition: on the true edge of A&&B both hold, on the false edge of A||B neither.
func condFacts(e ast.Expr, branch bool) []Fact {
	e = ast.Unparen(e)
	switch x := e.(type) {
	case *ast.UnaryExpr:
		if x.Op == token.NOT {
			return condFacts(x.X, !branch)
		}
	case *ast.BinaryExpr:
		if x.Op == token.LAND && branch {
			return append(condFacts(x.X, true), condFacts(x.Y, true)...)
		}
		if x.Op == token.LOR && !branch {
			return append(condFacts(x.X, false), condFacts(x.Y, false)...)
		}
		if x.Op == token.LAND || x.Op == token.LOR {
			return nil // nothing certain
		}
	}
	return []Fact{{E: e, Pos: branch}}
}

// edgeFacts returns the facts holding on the edge b -> b.Succs[i] when b ends in an if/for condition.
func (fl *Flow) edgeFacts(b *cfg.Block, i int) []Fact {
	if len(b.Succs) != 2 || len(b.Nodes) == 0 {
		return nil
	}
	last, ok := b.Nodes[len(b.Nodes)-1].(ast.Expr)
	if !ok {
		return nil
	}
	// switch-case comparison blocks also have two successors, but their last node is the case expression: one half of
	// `tag == expr` for a tagged switch (the comparison is synthesised here), the condition itself for a tagless one.
	if sw := fl.caseSwitch(b, last); sw != nil {
		if sw.Tag == nil {
			if tv, ok := fl.info.Types[last]; !ok || !isBool(tv.Type) {
				return nil
			}
			return fl.expandPredicates(condFacts(last, i == 0), 0)
		}
		return []Fact{{E: &ast.BinaryExpr{X: sw.Tag, OpPos: last.Pos(), Op: token.EQL, Y: last}, Pos: i == 0}}
	}
	if tv, ok := fl.info.Types[last]; !ok || !isBool(tv.Type) {
		return nil
	}
	return fl.expandPredicates(condFacts(last, i == 0), 0)
}

// caseSwitch: when e is a case expression that ends block b, the switch statement it belongs to.
func (fl *Flow) caseSwitch(b *cfg.Block, e ast.Expr) *ast.SwitchStmt {
	if !isCaseExpr(fl, b, e) {
		return nil
	}
	if fl.switchOf == nil {
		fl.switchOf = map[*ast.CaseClause]*ast.SwitchStmt{}
		ast.Inspect(fl.F.Body(), func(n ast.Node) bool {
			if sw, ok := n.(*ast.SwitchStmt); ok {
				for _, st := range sw.Body.List {
					if cc, ok := st.(*ast.CaseClause); ok {
						fl.switchOf[cc] = sw
					}
				}
			}
			return true
		})
	}
	cc, _ := b.Succs[0].Stmt.(*ast.CaseClause)
	return fl.switchOf[cc]
}

// condNodes: the nodes that were executed straight before the condition ending block b. For an if/for condition that
// is b.Nodes; for a case expression of a tagged switch it is the block that evaluated the tag (the case comparisons
// live in blocks of their own, chained by unique predecessors).
func (fl *Flow) condNodes(b *cfg.Block) []ast.Node {
	if len(b.Succs) != 2 || len(b.Nodes) == 0 {
		return b.Nodes
	}
	last, ok := b.Nodes[len(b.Nodes)-1].(ast.Expr)
	if !ok {
		return b.Nodes
	}
	if fl.preds == nil {
		fl.preds = map[*cfg.Block][]*cfg.Block{}
		for _, x := range fl.G.Blocks {
			for _, s := range x.Succs {
				fl.preds[s] = append(fl.preds[s], x)
			}
		}
	}
	sw := fl.caseSwitch(b, last)
	if sw == nil || sw.Tag == nil {
		// `if A {...} else if B {...}`: the block of B holds nothing but the condition and is entered only from A's
		// block; what ran straight before B is what ran before A
		cur := b
		for depth := 0; depth < 8 && len(cur.Nodes) == 1; depth++ {
			ps := fl.preds[cur]
			if len(ps) != 1 || len(ps[0].Succs) != 2 || len(ps[0].Nodes) == 0 {
				break
			}
			if _, isCond := ps[0].Nodes[len(ps[0].Nodes)-1].(ast.Expr); !isCond {
				break
			}
			cur = ps[0]
		}
		if cur != b {
			return cur.Nodes
		}
		return b.Nodes
	}
	cur := b
	for depth := 0; depth < 64; depth++ {
		for k, n := range cur.Nodes {
			if n == ast.Node(sw.Tag) {
				return cur.Nodes[:k+1]
			}
		}
		ps := fl.preds[cur]
		if len(ps) != 1 {
			break
		}
		cur = ps[0]
	}
	return b.Nodes
}

// expandPredicates: a fact about a call of a same-package predicate - a function without parameters whose body is the
// single statement `return <bool expr>` over receiver fields - also gives the facts of that expression
// (`if f.isReadOnly()` is read like `if f.readOnly`). Field-based rules identify fields by object, so the receiver's
// name does not matter. The call fact itself is kept.
func (fl *Flow) expandPredicates(facts []Fact, depth int) []Fact {
	if depth >= 2 {
		return facts
	}
	out := facts
	for _, ft := range facts {
		call, ok := ast.Unparen(ft.E).(*ast.CallExpr)
		if !ok || len(call.Args) != 0 {
			continue
		}
		fn, ok := calleeObj(fl.info, call).(*types.Func)
		if !ok || fn.Pkg() == nil || fl.F.Pkg.Types == nil || fn.Pkg() != fl.F.Pkg.Types {
			continue
		}
		g := fl.c.byObj[fn]
		if g == nil || g.Decl == nil || g.Body() == nil || len(g.Body().List) != 1 {
			continue
		}
		ret, ok := g.Body().List[0].(*ast.ReturnStmt)
		if !ok || len(ret.Results) != 1 {
			continue
		}
		if tv, ok := fl.info.Types[ret.Results[0]]; !ok || !isBool(tv.Type) {
			continue
		}
		// the body may mention only the receiver (no globals that could differ, no calls with effects)
		pure := true
		ast.Inspect(ret.Results[0], func(n ast.Node) bool {
			if c2, ok := n.(*ast.CallExpr); ok {
				if f2, ok := calleeObj(fl.info, c2).(*types.Func); !ok || fl.c.byObj[f2] == nil || len(c2.Args) != 0 {
					pure = false
				}
			}
			return pure
		})
		if !pure {
			continue
		}
		out = append(out, fl.expandPredicates(condFacts(ret.Results[0], ft.Pos), depth+1)...)
	}
	return out
}

func isBool(t types.Type) bool {
	b, ok := t.Underlying().(*types.Basic)
	return ok && b.Info()&types.IsBoolean != 0
}

func isCaseExpr(fl *Flow, b *cfg.Block, e ast.Expr) bool {
	// A case expression's successor 0 is a KindSwitchCaseBody and successor 1 a KindSwitchNextCase/CaseBody/Done.
	if len(b.Succs) == 2 && b.Succs[0].Kind == cfg.KindSwitchCaseBody {
		if cc, ok := b.Succs[0].Stmt.(*ast.CaseClause); ok {
			for _, x := range cc.List {
				if x == e {
					return true
				}
			}
		}
	}
	return false
}

// State is a small bit set; what the bits mean is up to the rule.
type State uint64

const unreached State = 1 << 63

// Analysis describes a forward dataflow problem over one Flow.
type Analysis struct {
	Must  bool // join = AND (must) else OR (may)
	Entry State
	Node  func(n ast.Node, s State) State             // transfer over one CFG node
	Edge  func(b *cfg.Block, succ int, s State) State // optional edge refinement
	in    map[*cfg.Block]State
}

func (fl *Flow) solve(a *Analysis) {
	a.in = map[*cfg.Block]State{}
	for _, b := range fl.G.Blocks {
		a.in[b] = unreached
	}
	if len(fl.G.Blocks) == 0 {
		return
	}
	a.in[fl.G.Blocks[0]] = a.Entry
	dead := fl.infeasibleEdges()
	work := []*cfg.Block{fl.G.Blocks[0]}
	for len(work) > 0 {
		b := work[0]
		work = work[1:]
		s := a.in[b]
		if s == unreached {
			continue
		}
		for _, n := range b.Nodes {
			s = a.Node(n, s)
		}
		for i, succ := range b.Succs {
			if dead[[2]int32{b.Index, int32(i)}] {
				continue // this branch cannot be taken (see infeasibleEdges)
			}
			t := s
			if a.Edge != nil {
				t = a.Edge(b, i, t)
			}
			if t == unreached {
				continue
			}
			old := a.in[succ]
			var nw State
			switch {
			case old == unreached:
				nw = t
			case a.Must:
				nw = old & t
			default:
				nw = old | t
			}
			if nw != old {
				a.in[succ] = nw
				work = append(work, succ)
			}
		}
	}
}

// at returns the state immediately before node target is executed (target must be a top-level CFG node
// or nested in one; nested: the state before the enclosing CFG node, plus the effect of earlier
// sub-expressions is not modelled).
func (fl *Flow) before(a *Analysis, target ast.Node) (State, bool) {
	for _, b := range fl.G.Blocks {
		s := a.in[b]
		for _, n := range b.Nodes {
			if containsNode(n, target) {
				if s == unreached {
					return 0, false
				}
				return s, true
			}
			if s != unreached {
				s = a.Node(n, s)
			}
		}
	}
	return 0, false
}

// exits calls fn with the state at every function exit: each return statement and the fall-off-the-end block.
func (fl *Flow) exits(a *Analysis, fn func(ret *ast.ReturnStmt, ordinal int, s State)) {
	type ex struct {
		ret *ast.ReturnStmt
		s   State
		pos token.Pos
	}
	var list []ex
	for _, b := range fl.G.Blocks {
		s := a.in[b]
		if s == unreached || !b.Live {
			continue
		}
		var ret *ast.ReturnStmt
		for _, n := range b.Nodes {
			if r, ok := n.(*ast.ReturnStmt); ok {
				ret = r
				break // state before the return statement's own effects
			}
			s = a.Node(n, s)
		}
		if ret != nil {
			// apply effects of the return expression itself (calls inside the return)
			list = append(list, ex{ret, a.Node(ret, s), ret.Pos()})
		} else if len(b.Succs) == 0 && !endsInNoReturn(fl, b) {
			list = append(list, ex{nil, s, fl.F.Body().Rbrace})
		}
	}
	// ordinal in source order
	for i := range list {
		for j := i + 1; j < len(list); j++ {
			if list[j].pos < list[i].pos {
				list[i], list[j] = list[j], list[i]
			}
		}
	}
	for i, e := range list {
		fn(e.ret, i+1, e.s)
	}
}

func endsInNoReturn(fl *Flow, b *cfg.Block) bool {
	if len(b.Nodes) == 0 {
		return false
	}
	if es, ok := b.Nodes[len(b.Nodes)-1].(*ast.ExprStmt); ok {
		if call, ok := es.X.(*ast.CallExpr); ok {
			if bi, ok := calleeObj(fl.info, call).(*types.Builtin); ok && bi.Name() == "panic" {
				return true
			}
		}
	}
	return false
}

func containsNode(outer, target ast.Node) bool {
	if outer == target {
		return true
	}
	if target.Pos() < outer.Pos() || target.End() > outer.End() {
		return false
	}
	found := false
	ast.Inspect(outer, func(n ast.Node) bool {
		if n == target {
			found = true
		}
		return !found
	})
	return found
}

// callsIn lists the call expressions evaluated by CFG node n in evaluation order (arguments before the
// call), not descending into function literals. A `defer f()` / `go f()` node yields its call marked so.
func callsIn(n ast.Node) []*ast.CallExpr {
	var out []*ast.CallExpr
	var visit func(n ast.Node)
	visit = func(n ast.Node) {
		if n == nil {
			return
		}
		switch x := n.(type) {
		case *ast.FuncLit:
			return
		case *ast.CallExpr:
			visit(x.Fun)
			for _, a := range x.Args {
				visit(a)
			}
			out = append(out, x)
			return
		}
		// generic children, in source order
		var kids []ast.Node
		first := true
		ast.Inspect(n, func(m ast.Node) bool {
			if first {
				first = false
				return true
			}
			if m != nil {
				kids = append(kids, m)
			}
			return false
		})
		for _, k := range kids {
			visit(k)
		}
	}
	// Range statements appear as nodes for their X only; if/for/switch headers are split by go/cfg.
	visit(n)
	return out
}

// dominatedBy reports whether every path from entry to target passes a node for which gate returns true,
// with no later node for which kill returns true.
func (fl *Flow) dominatedBy(target ast.Node, gate func(n ast.Node) bool, kill func(n ast.Node) bool) (bool, bool) {
	a := &Analysis{Must: true, Entry: 0, Node: func(n ast.Node, s State) State {
		if containsNode(n, target) {
			return s // the target node itself neither gates nor kills
		}
		if kill != nil && kill(n) {
			s &^= 1
		}
		if gate(n) {
			s |= 1
		}
		return s
	}}
	fl.solve(a)
	s, ok := fl.before(a, target)
	return ok && s&1 != 0, ok
}

// guardedBy reports whether every path from entry to target crosses an edge on which fact returns true
// (e.g. the false edge of `f.readOnly`), or passes a node for which gate returns true.
func (fl *Flow) guardedBy(target ast.Node, fact func(Fact) bool, gate func(n ast.Node) bool) (bool, bool) {
	a := &Analysis{Must: true, Entry: 0,
		Node: func(n ast.Node, s State) State {
			if gate != nil && !containsNode(n, target) && gate(n) {
				s |= 1
			}
			return s
		},
		Edge: func(b *cfg.Block, i int, s State) State {
			for _, f := range fl.edgeFacts(b, i) {
				if fact(f) {
					return s | 1
				}
			}
			// nothing is certain on the false edge of A && B (or the true edge of A || B), but one of the alternatives
			// holds: the edge guards when each alternative on its own does
			if alts := fl.edgeAlternatives(b, i); len(alts) > 1 {
				all := true
				for _, alt := range alts {
					hit := false
					for _, f := range alt {
						if fact(f) {
							hit = true
						}
					}
					if !hit {
						all = false
					}
				}
				if all {
					return s | 1
				}
			}
			return s
		}}
	fl.solve(a)
	s, ok := fl.before(a, target)
	return ok && s&1 != 0, ok
}

// condAlts decomposes a branch condition into alternatives (a disjunction of conjunctions of leaf facts).
func condAlts(e ast.Expr, branch bool, depth int) [][]Fact {
	e = ast.Unparen(e)
	if depth < 6 {
		switch x := e.(type) {
		case *ast.UnaryExpr:
			if x.Op == token.NOT {
				return condAlts(x.X, !branch, depth+1)
			}
		case *ast.BinaryExpr:
			if x.Op == token.LAND || x.Op == token.LOR {
				l, r := condAlts(x.X, branch, depth+1), condAlts(x.Y, branch, depth+1)
				if (x.Op == token.LAND) == branch {
					// both sides hold: every combination of their alternatives
					var out [][]Fact
					for _, a := range l {
						for _, b := range r {
							out = append(out, append(append([]Fact{}, a...), b...))
						}
					}
					if len(out) > 16 {
						return [][]Fact{nil}
					}
					return out
				}
				return append(l, r...)
			}
		}
	}
	return [][]Fact{{{E: e, Pos: branch}}}
}

// edgeAlternatives: the alternatives of which one holds on the edge b -> b.Succs[i] (see condAlts); nil when the
// block does not end in a boolean condition.
func (fl *Flow) edgeAlternatives(b *cfg.Block, i int) [][]Fact {
	if len(b.Succs) != 2 || len(b.Nodes) == 0 {
		return nil
	}
	last, ok := b.Nodes[len(b.Nodes)-1].(ast.Expr)
	if !ok {
		return nil
	}
	if sw := fl.caseSwitch(b, last); sw != nil && sw.Tag != nil {
		return nil
	}
	if tv, ok := fl.info.Types[last]; !ok || !isBool(tv.Type) {
		return nil
	}
	return condAlts(last, i == 0, 0)
}

// returnsNonNilError reports whether the last result of ret is syntactically a non-nil error expression.
func returnsNil(info *types.Info, ret *ast.ReturnStmt) bool {
	if ret == nil || len(ret.Results) == 0 {
		return true
	}
	last := ast.Unparen(ret.Results[len(ret.Results)-1])
	if id, ok := last.(*ast.Ident); ok {
		if _, isNil := info.Uses[id].(*types.Nil); isNil {
			return true
		}
	}
	return false
}

// thenReturnsError: does the `then` branch of the if statement whose condition is cond always end in a
// return whose error result is not the nil literal?
func branchReturnsError(info *types.Info, body *ast.BlockStmt) bool {
	if body == nil || len(body.List) == 0 {
		return false
	}
	ret, ok := body.List[len(body.List)-1].(*ast.ReturnStmt)
	if !ok {
		return false
	}
	return !returnsNil(info, ret)
}

// sentinelFact: does the fact establish `<something> == sentinel` (equal=true) or `!= sentinel` (equal=false)?
// Recognises `x == S`, `S == x`, `x != S` and errors.Is(x, S), with the fact's polarity applied.
func sentinelFact(info *types.Info, ft Fact, sentinel types.Object) (known, equal bool) {
	k, eq := sentinelCond(info, ft.E, sentinel)
	if !k {
		return false, false
	}
	return true, eq == ft.Pos
}

// sentinelCond: the condition itself (without polarity): known, and whether it reads "== sentinel".
func sentinelCond(info *types.Info, e ast.Expr, sentinel types.Object) (known, eq bool) {
	if sentinel == nil {
		return false, false
	}
	isS := func(x ast.Expr) bool {
		switch s := ast.Unparen(x).(type) {
		case *ast.SelectorExpr:
			return info.Uses[s.Sel] == sentinel
		case *ast.Ident:
			return info.Uses[s] == sentinel
		}
		return false
	}
	switch x := ast.Unparen(e).(type) {
	case *ast.BinaryExpr:
		if (x.Op == token.EQL || x.Op == token.NEQ) && (isS(x.X) || isS(x.Y)) {
			return true, x.Op == token.EQL
		}
	case *ast.CallExpr:
		if isPkgFunc(calleeObj(info, x), "errors", "Is") && len(x.Args) == 2 && isS(x.Args[1]) {
			return true, true
		}
	}
	return false, false
}

// ---- nil-ness of local variables: which branch edges cannot be taken ----
//
// The statement inliner (and hand-written code) produces shapes like
//
//	if e1 == nil { ...; goto end }
//	...
//	err = e1
//	if err != nil { return err }   // always taken here
//
// A path-insensitive analysis sees the false edge of the last test and reports a path that cannot happen. The solver
// therefore skips edges that a small must-analysis proves infeasible: per local variable it tracks "known nil" /
// "known non-nil" from nil comparisons on the path, through plain copies (`a = b`, `a, b = nil, e`), the nil literal
// and package-level error values (sentinels are never nil); any other assignment forgets the variable. An edge is
// infeasible only when the tested variable's value is known on EVERY path to the test and contradicts the edge.

type nilVal uint8

const (
	nvUnknown nilVal = iota
	nvNil
	nvNonNil
)

type nilState map[types.Object]nilVal

func (fl *Flow) infeasibleEdges() map[[2]int32]bool {
	if fl.infeasible != nil {
		return fl.infeasible
	}
	fl.infeasible = map[[2]int32]bool{}
	info := fl.info
	blocks := fl.G.Blocks
	if len(blocks) == 0 {
		return fl.infeasible
	}
	local := func(e ast.Expr) types.Object {
		v, ok := objOfIdent(info, e).(*types.Var)
		if !ok || v.IsField() || v.Pkg() == nil || v.Parent() == v.Pkg().Scope() {
			return nil
		}
		switch v.Type().Underlying().(type) {
		case *types.Interface, *types.Pointer, *types.Map, *types.Slice, *types.Signature, *types.Chan:
			return v
		}
		return nil
	}
	valueOf := func(e ast.Expr, s nilState) nilVal {
		e = ast.Unparen(e)
		if isNilIdent(info, e) {
			return nvNil
		}
		if o := local(e); o != nil {
			return s[o]
		}
		// a package-level error value (sql.ErrNoRows, os.ErrNotExist, config.ErrXxx)
		var o types.Object
		switch x := e.(type) {
		case *ast.Ident:
			o = info.Uses[x]
		case *ast.SelectorExpr:
			o = info.Uses[x.Sel]
		}
		if v, ok := o.(*types.Var); ok && !v.IsField() && v.Pkg() != nil && v.Parent() == v.Pkg().Scope() && types.Identical(v.Type(), types.Universe.Lookup("error").Type()) && strings.HasPrefix(v.Name(), "Err") {
			return nvNonNil
		}
		if u, ok := e.(*ast.UnaryExpr); ok && u.Op == token.AND {
			return nvNonNil
		}
		return nvUnknown
	}
	transfer := func(n ast.Node, s nilState) nilState {
		// anything that takes the address of a tracked variable, or assigns it, changes what we know
		out := s
		cloned := false
		set := func(o types.Object, v nilVal) {
			if !cloned {
				c := nilState{}
				for k, x := range out {
					c[k] = x
				}
				out = c
				cloned = true
			}
			if v == nvUnknown {
				delete(out, o)
			} else {
				out[o] = v
			}
		}
		ast.Inspect(n, func(m ast.Node) bool {
			switch x := m.(type) {
			case *ast.FuncLit:
				// a closure may assign captured variables when it runs: forget what it mentions on the left of an assignment
				ast.Inspect(x.Body, func(k ast.Node) bool {
					if as, ok := k.(*ast.AssignStmt); ok {
						for _, l := range as.Lhs {
							if o := local(l); o != nil {
								set(o, nvUnknown)
							}
						}
					}
					return true
				})
				return false
			case *ast.AssignStmt:
				if len(x.Lhs) == len(x.Rhs) {
					vals := make([]nilVal, len(x.Rhs))
					for i, r := range x.Rhs {
						vals[i] = valueOf(r, out)
					}
					for i, l := range x.Lhs {
						if o := local(l); o != nil {
							set(o, vals[i])
						}
					}
				} else {
					for _, l := range x.Lhs {
						if o := local(l); o != nil {
							set(o, nvUnknown)
						}
					}
				}
			case *ast.UnaryExpr:
				if x.Op == token.AND {
					if o := local(x.X); o != nil {
						set(o, nvUnknown)
					}
				}
			case *ast.RangeStmt:
				for _, e := range []ast.Expr{x.Key, x.Value} {
					if e != nil {
						if o := local(e); o != nil {
							set(o, nvUnknown)
						}
					}
				}
			case *ast.DeclStmt:
				if gd, ok := x.Decl.(*ast.GenDecl); ok {
					for _, sp := range gd.Specs {
						if vs, ok := sp.(*ast.ValueSpec); ok {
							for i, nm := range vs.Names {
								o := info.Defs[nm]
								if o == nil {
									continue
								}
								if _, isVar := o.(*types.Var); !isVar {
									continue
								}
								if i < len(vs.Values) {
									set(o, valueOf(vs.Values[i], out))
								} else if len(vs.Values) == 0 {
									if local(nm) != nil {
										set(o, nvNil) // zero value
									}
								}
							}
						}
					}
				}
			}
			return true
		})
		return out
	}
	// the test at the end of a block: (variable, true when the TRUE edge means "is nil")
	testOf := func(b *cfg.Block) (types.Object, bool, bool) {
		if len(b.Succs) != 2 || len(b.Nodes) == 0 {
			return nil, false, false
		}
		last, ok := b.Nodes[len(b.Nodes)-1].(ast.Expr)
		if !ok {
			return nil, false, false
		}
		be, ok := ast.Unparen(last).(*ast.BinaryExpr)
		if !ok || (be.Op != token.EQL && be.Op != token.NEQ) {
			return nil, false, false
		}
		var x ast.Expr
		if isNilIdent(info, be.Y) {
			x = be.X
		} else if isNilIdent(info, be.X) {
			x = be.Y
		}
		if x == nil {
			return nil, false, false
		}
		o := local(x)
		if o == nil {
			return nil, false, false
		}
		return o, be.Op == token.EQL, true
	}
	in := map[*cfg.Block]nilState{}
	reached := map[*cfg.Block]bool{blocks[0]: true}
	in[blocks[0]] = nilState{}
	work := []*cfg.Block{blocks[0]}
	steps := 0
	for len(work) > 0 && steps < 20000 {
		steps++
		b := work[0]
		work = work[1:]
		s := in[b]
		for _, n := range b.Nodes {
			s = transfer(n, s)
		}
		tv, trueMeansNil, isTest := testOf(b)
		for i, succ := range b.Succs {
			t := s
			if isTest {
				edgeNil := trueMeansNil == (i == 0)
				want := nvNonNil
				if edgeNil {
					want = nvNil
				}
				// (an edge that contradicts what is known SO FAR is still followed: knowledge only shrinks while the
				// fixpoint is computed, so the edge may turn out feasible; the verdict is taken from the final states)
				c := nilState{}
				for k, x := range s {
					c[k] = x
				}
				c[tv] = want
				t = c
			}
			if !reached[succ] {
				reached[succ] = true
				in[succ] = t
				work = append(work, succ)
				continue
			}
			// must-join: keep only what both agree on
			old := in[succ]
			changed := false
			nw := nilState{}
			for k, x := range old {
				if t[k] == x {
					nw[k] = x
				} else {
					changed = true
				}
			}
			if changed {
				in[succ] = nw
				work = append(work, succ)
			}
		}
	}
	if steps >= 20000 {
		return fl.infeasible // no conclusion
	}
	for _, b := range blocks {
		if !reached[b] {
			continue
		}
		tv, trueMeansNil, isTest := testOf(b)
		if !isTest {
			continue
		}
		s := in[b]
		for _, n := range b.Nodes {
			s = transfer(n, s)
		}
		cur := s[tv]
		if cur == nvUnknown {
			continue
		}
		for i := range b.Succs {
			edgeNil := trueMeansNil == (i == 0)
			if (cur == nvNil) != edgeNil {
				fl.infeasible[[2]int32{b.Index, int32(i)}] = true
			}
		}
	}
	return fl.infeasible
}
