package main

// Rules added after the fifth round of independently seeded changes (see DESIGN.md §7.7).

import (
	"fmt"
	"go/ast"
	"go/token"
	"go/types"
	"strings"
)

func init() {
	extend("C04", ruleIndexStopsOnlyAtEOF("C04.index-stops-only-at-eof"))
	extend("C17", ruleIndexStopsOnlyAtEOF("C17.index-stops-only-at-eof"))
	extend("C16", ruleIndexStopsOnlyAtEOF("C16.index-stops-only-at-eof"), ruleNoRejectionAfterVerification("C16.no-rejection-after-verification"))
	extend("C08", ruleNoRejectionAfterVerification("C08.no-rejection-after-verification"))
	extend("C03", ruleNoCopyFastPaths("C03.no-copy-fast-paths"))
	extend("C05", ruleNoCopyFastPaths("C05.no-copy-fast-paths"))
	extend("C15", ruleNoCopyFastPaths("C15.no-copy-fast-paths"))
	extend("C14", ruleTruncateKeepsCursor("C14.truncate-keeps-cursor"), ruleTruncatePreservesContent("C14.truncate-preserves-content"))
	extend("C18", ruleSigningTimeUnadjusted("C18.signing-time-unadjusted"))
	extend("C13", ruleNoSQLReplaceByParameter("C13.no-sql-replace-by-parameter"), ruleRootRenameRefused("C13.root-rename-refused"))
	extend("C12", ruleRootRenameRefused("C12.root-rename-refused"))
	extend("C03", ruleBlockSizeFitsRecord("C03.block-size-fits-record"))
	extend("C12", ruleSanitiserPrefixOnly("C12.sanitiser-prefix-only"))
	extend("C17", ruleSanitiserPrefixOnly("C17.sanitiser-prefix-only"), ruleNoneNeverFails("C17.none-never-fails"))
	extend("C16", ruleNoneNeverFails("C16.none-never-fails"))
	extend("C09", ruleStructRebuildComplete("C09.struct-rebuild-complete"))
	extend("C08", ruleStructRebuildComplete("C08.struct-rebuild-complete"))
}

// ruleIndexStopsOnlyAtEOF: the indexing loops of recovery.Index leave only at the real end of the drive: every `break`
// of an outer (per-header) loop is on an edge on which an error is known to be io.EOF. Ending the pass on "no header
// here" (a run of zero blocks between archives, as GNU tar pads them) silently leaves everything behind it unindexed.
func ruleIndexStopsOnlyAtEOF(rule string) func(*Ctx) {
	return func(c *Ctx) {
		c.floor(rule, 2, "break statements of the per-header loops in recovery.Index")
		f := c.fn("pkg/recovery", "Index")
		eof := c.extObj("io", "EOF")
		if f == nil || eof == nil {
			return
		}
		info := f.Pkg.TypesInfo
		// outer loops: `for {` whose body reads a header with tr.Next()
		n := 0
		inner := map[*ast.ForStmt]bool{}
		for _, l := range resyncLoops(c, f) {
			inner[l] = true // the resynchronisation loops have exits of their own (C06.resync-exits)
		}
		walkOwn(f.Body(), func(nd ast.Node) {
			loop, ok := nd.(*ast.ForStmt)
			if !ok || inner[loop] {
				return
			}
			direct := false
			for _, st := range loop.Body.List {
				if as, ok := st.(*ast.AssignStmt); ok && len(as.Rhs) == 1 {
					if call, ok := ast.Unparen(as.Rhs[0]).(*ast.CallExpr); ok && isMethod(calleeObj(info, call), "archive/tar", "Reader", "Next") {
						direct = true
					}
				}
			}
			if !direct {
				return
			}
			// breaks that leave THIS loop: not nested in an inner for/switch/select
			var visit func(list []ast.Stmt)
			var visitStmt func(s ast.Stmt)
			visit = func(list []ast.Stmt) {
				for _, s := range list {
					visitStmt(s)
				}
			}
			visitStmt = func(s ast.Stmt) {
				switch x := s.(type) {
				case *ast.BranchStmt:
					if x.Tok == token.BREAK && x.Label == nil {
						n++
						// (go/cfg records no node for a branch statement: decide on the enclosing conditions)
						atEOF := false
						underEOF := func(node ast.Node) bool {
							for _, cl := range enclosingCondsFlow(info, f.Body(), node) {
								if known, equal := sentinelCond(info, cl.e, eof); known && equal == cl.pos {
									return true
								}
							}
							return false
						}
						atEOF = underEOF(x)
						// `done` flags: the exit is under a boolean local that is only ever set to true where a read reported
						// io.EOF (a helper reporting (done, err), inlined back)
						if !atEOF {
							for _, cl := range enclosingCondsFlow(info, f.Body(), x) {
								e, pos := ast.Unparen(cl.e), cl.pos
								if u, ok := e.(*ast.UnaryExpr); ok && u.Op == token.NOT {
									e, pos = ast.Unparen(u.X), !pos
								}
								fv, ok := objOfIdent(info, e).(*types.Var)
								if !ok || !pos || fv.IsField() {
									continue
								}
								if b, ok := fv.Type().Underlying().(*types.Basic); !ok || b.Kind() != types.Bool {
									continue
								}
								sets, allAtEOF := 0, true
								walkOwn(f.Body(), func(m ast.Node) {
									as, ok := m.(*ast.AssignStmt)
									if !ok || len(as.Lhs) != len(as.Rhs) {
										if ok {
											for _, l := range as.Lhs {
												if objOfIdentDefOrUse(info, l) == types.Object(fv) {
													allAtEOF = false
												}
											}
										}
										return
									}
									for i, l := range as.Lhs {
										if objOfIdentDefOrUse(info, l) != types.Object(fv) {
											continue
										}
										tv := info.Types[as.Rhs[i]]
										switch {
										case tv.Value != nil && tv.Value.String() == "false":
										case tv.Value != nil && tv.Value.String() == "true":
											sets++
											if !underEOF(as) {
												allAtEOF = false
											}
										default:
											allAtEOF = false
										}
									}
								})
								if sets > 0 && allAtEOF {
									atEOF = true
								}
							}
						}
						c.verdictIf(atEOF, rule, f, fmt.Sprintf("break#%d", n), x.Pos(), "the pass ends only where a read reported io.EOF", "the indexing loop is left without a read having reported io.EOF (e.g. because no header was found at this position): zero padding between archives - as GNU tar writes it - ends the pass, and every record behind it is never indexed")
					}
				case *ast.BlockStmt:
					visit(x.List)
				case *ast.IfStmt:
					visit(x.Body.List)
					if x.Else != nil {
						visitStmt(x.Else)
					}
				case *ast.LabeledStmt:
					visitStmt(x.Stmt)
				}
			}
			visit(loop.Body.List)
		})
		if n < 2 {
			c.unresolved("only %d loop exits found in recovery.Index", n)
		}
	}
}

// ruleNoRejectionAfterVerification: once the signature over the embedded header verified and the header was decoded,
// VerifyHeader accepts it. A further condition on the decoded header (e.g. "a regular file must carry a content
// signature record") rejects records STFS itself writes (header-only creates, chmod/chown/chtimes, empty files), and
// a rejected record makes Initialize abandon the rebuild and append a new root to an intact tape.
func ruleNoRejectionAfterVerification(rule string) func(*Ctx) {
	return func(c *Ctx) {
		c.floor(rule, 1, "returns of VerifyHeader behind the decoded header")
		f := c.fn("pkg/signature", "VerifyHeader")
		if f == nil {
			return
		}
		info := f.Pkg.TypesInfo
		fl := c.flow(f)
		n, badN := 0, 0
		for _, ret := range returnsIn(f) {
			if len(ret.Results) != 1 || returnsNil(info, ret) {
				continue
			}
			decoded, reach := c.successDominates(fl, ret, func(call *ast.CallExpr) bool {
				return isPkgFunc(calleeObj(info, call), "encoding/json", "Unmarshal")
			}, nil)
			if !reach {
				continue
			}
			n++
			if decoded {
				badN++
				c.bad(rule, f, fmt.Sprintf("late rejection#%d", badN), ret.Pos(), "VerifyHeader returns an error after the embedded header was verified and decoded: a condition on the decoded header rejects authentic records (header-only records carry no content signature), and a rejected record makes the rebuild in Initialize fall back to creating a new root on an intact tape")
			}
		}
		if badN == 0 {
			c.ok(rule, f, "no late rejection", f.Decl.Pos(), true, "%d error returns, none behind the verified and decoded header", n)
		}
		if n == 0 {
			c.unresolved("no error return found in VerifyHeader")
		}
	}
}

// ruleNoCopyFastPaths: io.Copy hands the whole transfer to the source's WriteTo or the destination's ReadFrom when
// they exist. The repository's own stream types (write caches, counters, handles) implement neither: a fast path
// changes the chunking of one of the two passes over a file (size pass vs. write pass) - codecs whose framing follows
// the size of each Write then produce a different length than the header announces - or bypasses the checks the
// ordinary Write path makes (a ReadFrom on a handle skips the write-flag test).
func ruleNoCopyFastPaths(rule string) func(*Ctx) {
	return func(c *Ctx) {
		c.floor(rule, 1, "WriteTo/ReadFrom methods on repository types (expected none; matcher verified on a fixture)")
		match := func(fd *ast.FuncDecl) bool {
			if fd.Recv == nil || (fd.Name.Name != "WriteTo" && fd.Name.Name != "ReadFrom") || fd.Type.Params == nil || len(fd.Type.Params.List) != 1 {
				return false
			}
			return fd.Type.Results != nil && len(fd.Type.Results.List) >= 1
		}
		n := 0
		for _, f := range c.Funcs {
			if f.Decl == nil || !inRepoPkg(f) || strings.HasPrefix(f.RelPkg(), "cmd") {
				continue
			}
			if match(f.Decl) {
				n++
				c.bad(rule, f, fmt.Sprintf("fast path#%d", n), f.Decl.Pos(), "%s implements io.%s: io.Copy will use it instead of the chunked Read/Write loop, so the two passes over a file no longer see the same sequence of writes (or the per-write checks of the type are bypassed)", f.Name, map[string]string{"WriteTo": "WriterTo", "ReadFrom": "ReaderFrom"}[f.Decl.Name.Name])
			}
		}
		if n == 0 {
			fc, err := fixtureCtx("pkg/fixture", "package fixture\nimport \"io\"\ntype T struct{}\nfunc (t *T) WriteTo(w io.Writer) (int64, error) { return 0, nil }\n")
			alive := false
			if err == nil {
				for _, g := range fc.Funcs {
					if g.Decl != nil && match(g.Decl) {
						alive = true
					}
				}
			}
			if !alive {
				c.unresolved("copy-fast-path matcher failed its positive control")
			}
			c.ok(rule, nil, "no copy fast paths", token.NoPos, false, "no repository type implements io.WriterTo / io.ReaderFrom (matcher verified on an embedded fixture)")
		}
	}
}

// ruleTruncateKeepsCursor: a file is a byte array with a cursor; truncating changes the array, never the cursor (a
// write after shrinking lands at the old offset, with a gap of zeros). File.Truncate therefore does not seek.
func ruleTruncateKeepsCursor(rule string) func(*Ctx) {
	return func(c *Ctx) {
		c.floor(rule, 1, "(*File).Truncate")
		f := c.fn("pkg/fs", "(*File).Truncate")
		if f == nil {
			return
		}
		n := 0
		scan := func(g *FuncInfo) {
			for _, cs := range g.calls {
				se, ok := ast.Unparen(cs.Call.Fun).(*ast.SelectorExpr)
				if !ok {
					continue
				}
				if se.Sel.Name == "Seek" || se.Sel.Name == "seekWithoutLocking" {
					n++
					c.bad(rule, g, fmt.Sprintf("seek#%d", n), cs.Call.Pos(), "File.Truncate moves the cursor (%s): truncation changes the length only - after shrinking, the next write must land at the old offset with a gap of zeros, as on every other filesystem", exprString(cs.Call.Fun))
				}
			}
		}
		scan(f)
		for _, l := range c.litsIn(f) {
			scan(l)
		}
		if n == 0 {
			c.ok(rule, f, "no seek", f.Decl.Pos(), true, "Truncate does not touch the cursor")
		}
	}
}

// ruleSigningTimeUnadjusted: the time a signature is created at is also the time the signing key must be valid at.
// pkg/signature uses the configured clock as it is: no Add/AddDate/Truncate on time values - back-dating the signature
// makes every key younger than the adjustment unusable ("identity could not be parsed").
func ruleSigningTimeUnadjusted(rule string) func(*Ctx) {
	return func(c *Ctx) {
		c.floor(rule, 1, "time arithmetic in pkg/signature (expected none; matcher verified on a fixture)")
		isAdj := func(o types.Object) bool {
			return isMethod(o, "time", "Time", "Add") || isMethod(o, "time", "Time", "AddDate") || isMethod(o, "time", "Time", "Truncate") || isMethod(o, "time", "Time", "Round")
		}
		n := 0
		for _, f := range c.Funcs {
			if f.RelPkg() != "pkg/signature" {
				continue
			}
			for _, cs := range f.calls {
				if isAdj(cs.Callee) {
					n++
					c.bad(rule, f, fmt.Sprintf("time adjustment#%d", n), cs.Call.Pos(), "pkg/signature adjusts a time value (%s): the adjusted time is also what the signing key's validity is checked against, so keys created within the adjustment window cannot sign", exprString(cs.Call.Fun))
				}
			}
		}
		if n == 0 {
			fc, err := fixtureCtx("pkg/fixture", "package fixture\nimport \"time\"\nfunc f(t time.Time) time.Time { return t.Add(-time.Minute) }\n")
			alive := false
			if err == nil {
				for _, g := range fc.Funcs {
					for _, cs := range g.calls {
						if isAdj(cs.Callee) {
							alive = true
						}
					}
				}
			}
			if !alive {
				c.unresolved("time-adjustment matcher failed its positive control")
			}
			c.ok(rule, nil, "no time arithmetic", token.NoPos, false, "pkg/signature performs no arithmetic on time values (matcher verified on an embedded fixture)")
		}
	}
}

// ruleBlockSizeFitsRecord: on a tape drive one lz4 block must fit into one record, or it can never be read back with a
// record-sized buffer. Every lz4.BlockSizeOption(C) is therefore chosen on a path on which `maxSize < C` is known to
// be false (the chosen block size does not exceed the record). Decided on the comparisons alone; a block size that is
// not a constant at the call is reported as undecidable.
func ruleBlockSizeFitsRecord(rule string) func(*Ctx) {
	return func(c *Ctx) {
		c.floor(rule, 4, "lz4.BlockSizeOption calls on the tape path of compression.Compress")
		f := c.fn("pkg/compression", "Compress")
		if f == nil {
			return
		}
		info := f.Pkg.TypesInfo
		n := 0
		for _, cs := range f.calls {
			fn, ok := cs.Callee.(*types.Func)
			if !ok || fn.Name() != "BlockSizeOption" || len(cs.Call.Args) != 1 {
				continue
			}
			n++
			construct := fmt.Sprintf("BlockSizeOption#%d", n)
			k := constOf(info, cs.Call.Args[0])
			if k == nil {
				c.undecided(rule, f, construct, cs.Call.Pos(), "the lz4 block size is not a constant at the call (%s): that it does not exceed the record size cannot be established from the comparisons", exprString(cs.Call.Args[0]))
				continue
			}
			fits := false
			for _, cl := range enclosingCondsFlow(info, f.Body(), cs.Call) {
				be, ok := ast.Unparen(cl.e).(*ast.BinaryExpr)
				if !ok {
					continue
				}
				mentions := false
				ast.Inspect(be.Y, func(m ast.Node) bool {
					if se, ok := m.(*ast.SelectorExpr); ok && info.Uses[se.Sel] == k {
						mentions = true
					}
					return true
				})
				if !mentions {
					continue
				}
				// maxSize < C is false, or maxSize >= C is true
				if be.Op == token.LSS && !cl.pos || be.Op == token.GEQ && cl.pos {
					fits = true
				}
			}
			c.verdictIf(fits, rule, f, construct, cs.Call.Pos(), "chosen only where the record is at least that large", "the lz4 block size "+k.Name()+" can be chosen although the record is smaller (no `maxSize < "+k.Name()+"` = false on the path): incompressible content then produces a block larger than a record, which a tape drive cannot read back")
		}
		if n < half(4) {
			c.unresolved("only %d lz4.BlockSizeOption calls found", n)
		}
	}
}

// ruleSanitiserPrefixOnly: getSanitizedPath maps spellings of a path onto the index's spelling by adding or removing
// PREFIXES relative to the root. It hands the name to nothing but prefix/suffix string functions, path functions and
// pathext.IsRoot (frozen list): any other transformation of the characters (Unicode normalisation, case folding)
// makes the stored name differ from the spelling the operations layer computes its prefix rewrites with.
func ruleSanitiserPrefixOnly(rule string) func(*Ctx) {
	return func(c *Ctx) {
		c.floor(rule, 5, "calls that receive the name inside getSanitizedPath")
		f := c.fn("pkg/persisters", "(*MetadataPersister).getSanitizedPath")
		if f == nil {
			return
		}
		info := f.Pkg.TypesInfo
		name := paramVar(f, "name")
		if name == nil {
			c.unresolved("parameter name of getSanitizedPath")
			return
		}
		allowed := map[string]bool{"strings.TrimPrefix": true, "strings.HasPrefix": true, "strings.TrimSuffix": true, "strings.HasSuffix": true,
			"path.Join": true, "path/filepath.Join": true, "path.Clean": true, "path/filepath.Clean": true, "path/filepath.ToSlash": true}
		n := 0
		for _, cs := range f.calls {
			uses := false
			for _, a := range cs.Call.Args {
				if usesObj(info, a, name) {
					uses = true
				}
			}
			if !uses {
				continue
			}
			fn, ok := cs.Callee.(*types.Func)
			if !ok || fn.Pkg() == nil {
				continue
			}
			n++
			full := fn.Pkg().Path() + "." + fn.Name()
			good := allowed[full] || (inRepo(fn) && fn.Name() == "IsRoot")
			c.verdictIf(good, rule, f, fmt.Sprintf("name use#%d %s", n, fn.Name()), cs.Call.Pos(), "prefix/suffix or path function", "getSanitizedPath hands the name to "+full+", which is not a prefix/suffix or path function: the stored name then differs character-wise from the caller's spelling, and the prefix rewrite of a directory rename (computed from the caller's spelling) no longer matches")
		}
		if n < half(5) {
			c.unresolved("only %d uses of the name in getSanitizedPath", n)
		}
	}
}

// ruleNoneNeverFails: with signatures (encryption) switched off, VerifyHeader (DecryptHeader) accepts every header:
// each of their error returns is on a path on which the format is known not to be None. A check placed in front of
// the None short-circuit (e.g. "header has no PAX records") rejects every member of a foreign ustar/GNU archive and
// STFS's own record-less headers, and Initialize then abandons the rebuild.
func ruleNoneNeverFails(rule string) func(*Ctx) {
	return func(c *Ctx) {
		c.floor(rule, 6, "error returns of signature.VerifyHeader and encryption.DecryptHeader")
		none := c.constObj("pkg/config", "NoneKey")
		n := 0
		for _, spec := range [][3]string{{"pkg/signature", "VerifyHeader", "signatureFormat"}, {"pkg/encryption", "DecryptHeader", "encryptionFormat"}} {
			f := c.fn(spec[0], spec[1])
			if f == nil || none == nil {
				continue
			}
			info := f.Pkg.TypesInfo
			fp := paramVar(f, spec[2])
			if fp == nil {
				c.unresolved("parameter %s of %s", spec[2], spec[1])
				continue
			}
			fl := c.flow(f)
			k := 0
			for _, ret := range returnsIn(f) {
				if len(ret.Results) == 0 || returnsNil(info, ret) {
					continue
				}
				k++
				n++
				notNone, reach := fl.guardedBy(ret, func(ft Fact) bool {
					be, ok := ast.Unparen(ft.E).(*ast.BinaryExpr)
					if !ok {
						return false
					}
					isCmp := (objOfIdent(info, be.X) == types.Object(fp) && constOf(info, be.Y) == none) || (objOfIdent(info, be.Y) == types.Object(fp) && constOf(info, be.X) == none)
					if !isCmp {
						return false
					}
					return be.Op == token.EQL && !ft.Pos || be.Op == token.NEQ && ft.Pos
				}, nil)
				if !reach {
					continue
				}
				c.verdictIf(notNone, rule, f, fmt.Sprintf("%s error return#%d", spec[1], k), ret.Pos(), "fails only when the format is not None", spec[1]+" can return an error although "+spec[2]+" is None: with the feature switched off every header must be accepted (foreign archives, record-less headers), otherwise a rebuild over such a tape aborts and Initialize creates a new root")
			}
		}
		if n < half(6) {
			c.unresolved("only %d error returns found in VerifyHeader/DecryptHeader", n)
		}
	}
}

// ruleStructRebuildComplete: where a configuration struct is rebuilt field by field from another value of the same
// type (`T{A: x.A, B: x.B, ...}`, typically to patch one field), every field of the type is carried over. A field left
// out silently takes its zero value - for PipeConfig.Encryption that is "no encryption", and content goes to the tape
// in clear while everything still round-trips.
func ruleStructRebuildComplete(rule string) func(*Ctx) {
	return func(c *Ctx) {
		c.floor(rule, 1, "field-by-field rebuilds of configuration structs (expected none today; matcher verified on a fixture)")
		check := func(cx *Ctx, report bool) int {
			found := 0
			for _, f := range cx.Funcs {
				if strings.HasPrefix(f.RelPkg(), "cmd") || strings.HasPrefix(f.RelPkg(), "internal/db") {
					continue
				}
				info := f.Pkg.TypesInfo
				walkOwn(f.Body(), func(nd ast.Node) {
					cl, ok := nd.(*ast.CompositeLit)
					if !ok {
						return
					}
					tv, ok := info.Types[cl]
					if !ok {
						return
					}
					st, ok := tv.Type.Underlying().(*types.Struct)
					if !ok {
						return
					}
					// how many elements copy a field from one source value of the same type?
					srcCount := map[types.Object]int{}
					present := map[string]bool{}
					for _, e := range cl.Elts {
						kv, ok := e.(*ast.KeyValueExpr)
						if !ok {
							return
						}
						if id, ok := kv.Key.(*ast.Ident); ok {
							present[id.Name] = true
						}
						if se, ok := ast.Unparen(kv.Value).(*ast.SelectorExpr); ok {
							if xt, ok := info.Types[se.X]; ok && types.Identical(xt.Type, tv.Type) {
								if o := objOfIdentOrSel(info, se.X); o != nil {
									srcCount[o]++
								}
							}
						}
					}
					rebuilt := false
					for _, k := range srcCount {
						if k >= 2 {
							rebuilt = true
						}
					}
					if !rebuilt {
						return
					}
					found++
					var missing []string
					for i := 0; i < st.NumFields(); i++ {
						if !present[st.Field(i).Name()] {
							missing = append(missing, st.Field(i).Name())
						}
					}
					if report {
						c.verdictIf(len(missing) == 0, rule, f, fmt.Sprintf("rebuild#%d of %s", found, types.TypeString(tv.Type, func(p *types.Package) string { return p.Name() })), cl.Pos(), "every field is carried over", "the struct is rebuilt field by field from another value of its type but "+strings.Join(missing, ", ")+" is left out: it silently becomes the zero value (for an encryption or signature format that is 'none')")
					}
				})
			}
			return found
		}
		if check(c, true) == 0 {
			fc, err := fixtureCtx("pkg/fixture", "package fixture\ntype T struct{ A, B, C string }\nfunc f(x T) T { return T{A: x.A, B: x.B} }\n")
			if err != nil || check(fc, false) == 0 {
				c.unresolved("struct-rebuild matcher failed its positive control")
			}
			c.ok(rule, nil, "no field-by-field rebuild", token.NoPos, false, "no configuration struct is rebuilt field by field (matcher verified on an embedded fixture)")
		}
	}
}

// ruleTruncatePreservesContent: File.Truncate(size) hands `size` to the buffer's Truncate; it never empties the
// buffer first. Growing a file keeps its content and appends zeros - emptying and refilling with zeros destroys it.
func ruleTruncatePreservesContent(rule string) func(*Ctx) {
	return func(c *Ctx) {
		c.floor(rule, 1, "buffer truncations inside (*File).Truncate")
		f := c.fn("pkg/fs", "(*File).Truncate")
		writeBuf := c.field("pkg/fs", "File", "writeBuf")
		if f == nil || writeBuf == nil {
			return
		}
		info := f.Pkg.TypesInfo
		size := paramVar(f, "size")
		n := 0
		for _, cs := range f.calls {
			se, ok := ast.Unparen(cs.Call.Fun).(*ast.SelectorExpr)
			if !ok || se.Sel.Name != "Truncate" || selField(info, se.X) != writeBuf || len(cs.Call.Args) != 1 {
				continue
			}
			n++
			c.verdictIf(size != nil && objOfIdent(info, cs.Call.Args[0]) == types.Object(size), rule, f, fmt.Sprintf("buffer truncate#%d", n), cs.Call.Pos(), "the buffer is cut to the requested size", "File.Truncate cuts the buffer to "+exprString(cs.Call.Args[0])+" instead of the requested size: growing a file (Truncate to a larger size) empties it first and refills it with zeros, so the existing content is lost and the cursor moves")
		}
		if n < 1 {
			c.unresolved("only %d buffer truncations found in (*File).Truncate", n)
		}
	}
}

// ruleNoSQLReplaceByParameter: `replace(col, ?, ”)` removes EVERY occurrence of the bound string, not a prefix: used
// to strip the parent path in the direct-children listing it also eats a later path component that repeats the
// parent's (`/a/b/a/c` under `/a` loses two components and is listed as a direct child). Positional stripping
// (`substr(col, length(?) + 1)`) is the only form accepted.
func ruleNoSQLReplaceByParameter(rule string) func(*Ctx) {
	return func(c *Ctx) {
		c.floor(rule, 1, "raw SQL statements in pkg/persisters")
		n, badN := 0, 0
		for _, f := range c.Funcs {
			if f.RelPkg() != "pkg/persisters" {
				continue
			}
			// statements may be built in a local first: look at every Sprintf/constant that flows into queries.Raw
			for _, cs := range f.calls {
				fn, ok := cs.Callee.(*types.Func)
				if !ok || fn.Name() != "Raw" || fn.Pkg() == nil || fn.Pkg().Path() != queriesPath || len(cs.Call.Args) == 0 {
					continue
				}
				n++
				var sb strings.Builder
				for _, p := range flattenSQL(f, cs.Call.Args[0], 0) {
					if p.expr != nil {
						sb.WriteString("<x>")
					} else {
						sb.WriteString(strings.ToLower(p.lit))
					}
				}
				text := strings.Join(strings.Fields(sb.String()), " ")
				idx := 0
				hit := false
				for {
					i := strings.Index(text[idx:], "replace(")
					if i < 0 {
						break
					}
					start := idx + i + len("replace(")
					// second argument at depth 0
					depth, arg, cur := 0, 0, ""
					var args []string
					for j := start; j < len(text); j++ {
						ch := text[j]
						if ch == '(' {
							depth++
						}
						if ch == ')' {
							if depth == 0 {
								args = append(args, strings.TrimSpace(cur))
								break
							}
							depth--
						}
						if ch == ',' && depth == 0 {
							args = append(args, strings.TrimSpace(cur))
							cur = ""
							arg++
							continue
						}
						cur += string(ch)
					}
					if len(args) >= 2 && args[1] == "?" {
						hit = true
					}
					idx = start
				}
				if hit {
					badN++
					c.bad(rule, f, fmt.Sprintf("sql replace#%d", badN), cs.Call.Pos(), "the statement strips a bound string with replace(col, ?, ..): every occurrence is removed, not only the leading one, so a descendant whose path repeats the parent's last component (/a/b/a/c under /a) is counted at the wrong depth and shows up in the parent's listing")
				}
			}
		}
		if n == 0 {
			c.unresolved("no raw SQL statement found in pkg/persisters")
		}
		if badN == 0 {
			c.ok(rule, nil, "no replace-by-parameter in SQL", token.NoPos, true, "%d raw statements inspected, none strips a bound string with replace()", n)
		}
	}
}

// ruleRootRenameRefused: Rename refuses the root under every spelling: the move is reachable only across the false
// edge of pathext.IsRoot(oldname, ..) (the comparison with the stored root spelling alone misses "." and "./").
func ruleRootRenameRefused(rule string) func(*Ctx) {
	return func(c *Ctx) {
		c.floor(rule, 1, "the move call in STFS.Rename")
		f := c.fn("pkg/fs", "(*STFS).Rename")
		move := c.fn("pkg/operations", "(*Operations).Move")
		isRoot := c.fn("internal/pathext", "IsRoot")
		if f == nil || move == nil || isRoot == nil {
			return
		}
		info := f.Pkg.TypesInfo
		oldV := paramVar(f, "oldname")
		fl := c.flow(f)
		n := 0
		for _, cs := range f.calls {
			if cs.Target != move {
				continue
			}
			n++
			okk, reach := fl.guardedBy(cs.Call, func(ft Fact) bool {
				call, ok := ast.Unparen(ft.E).(*ast.CallExpr)
				return ok && !ft.Pos && calleeObj(info, call) == types.Object(isRoot.Obj) && len(call.Args) > 0 && oldV != nil && usesObj(info, call.Args[0], oldV)
			}, nil)
			if !reach {
				continue
			}
			c.verdictIf(okk, rule, f, fmt.Sprintf("Move#%d root refused", n), cs.Call.Pos(), "the move happens only when oldname is not a spelling of the root", "Rename reaches Move without having tested pathext.IsRoot(oldname): Rename(\".\", x) is not recognised as renaming the root (the stored root is spelled \"/\"), the root is moved and \"/\" stops resolving")
		}
		if n == 0 {
			c.unresolved("STFS.Rename no longer calls Operations.Move")
		}
	}
}
