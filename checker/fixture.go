package main

import (
	"go/ast"
	"go/importer"
	"go/parser"
	"go/token"
	"go/types"

	"golang.org/x/tools/go/packages"
)

// fixtureCtx type-checks a tiny embedded package in-process so that a zero-expected rule can prove on every
// run that its matcher still fires (a rule matching nothing would otherwise pass vacuously forever).
func fixtureCtx(rel, src string) (*Ctx, error) {
	fset := token.NewFileSet()
	file, err := parser.ParseFile(fset, "/fixture/"+rel+"/fixture.go", src, parser.ParseComments)
	if err != nil {
		return nil, err
	}
	info := &types.Info{Types: map[ast.Expr]types.TypeAndValue{}, Defs: map[*ast.Ident]types.Object{}, Uses: map[*ast.Ident]types.Object{},
		Selections: map[*ast.SelectorExpr]*types.Selection{}, Implicits: map[ast.Node]types.Object{}, Scopes: map[ast.Node]*types.Scope{}, Instances: map[*ast.Ident]types.Instance{}}
	conf := types.Config{Importer: importer.ForCompiler(fset, "source", nil)}
	tp, err := conf.Check(modPath+"/"+rel, fset, []*ast.File{file}, info)
	if err != nil {
		return nil, err
	}
	p := &packages.Package{ID: tp.Path(), Name: tp.Name(), PkgPath: tp.Path(), Fset: fset, Syntax: []*ast.File{file}, Types: tp, TypesInfo: info,
		Imports: map[string]*packages.Package{}}
	c := &Ctx{RepoDir: "/fixture", Fset: fset, byPath: map[string]*packages.Package{tp.Path(): p}, All: map[string]*packages.Package{tp.Path(): p},
		Pkgs: []*packages.Package{p}, byObj: map[*types.Func]*FuncInfo{}, byLit: map[*ast.FuncLit]*FuncInfo{}, litOfVar: map[*types.Var]*FuncInfo{}, Variant: "fixture"}
	c.collect()
	return c, nil
}

func countVerdict(c *Ctx, rule string, v Verdict) int {
	n := 0
	for _, o := range c.Obls {
		if o.Rule == rule && o.Verdict == v {
			n++
		}
	}
	return n
}

const crashFixture = `package fixture

import (
	"io"
	"regexp"
)

func find(expr string, names []string) int {
	n := 0
	for _, s := range names {
		if regexp.MustCompile(expr).MatchString(s) {
			n++
		}
	}
	return n
}

func stream(get func(w io.Writer) error) io.Reader {
	r, w := io.Pipe()
	go func() {
		if err := get(w); err != nil {
			panic(err)
		}
	}()
	return r
}

func stream2(get func(w io.Writer) error) io.Reader {
	r, w := io.Pipe()
	go func() {
		if err := get(w); err != nil {
			return
		}
	}()
	return r
}
`

func crashMatcherAlive() bool {
	fc, err := fixtureCtx("pkg/fixture", crashFixture)
	if err != nil {
		return false
	}
	crashSites(fc, "C10.no-crash-site")
	return countVerdict(fc, "C10.no-crash-site", Violated) >= 5 // MustCompile, panic, two never-closing goroutines, one error-dropping goroutine
}
