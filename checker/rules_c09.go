package main

import (
	"fmt"
	"go/ast"
	"go/token"
	"go/types"
	"strings"
)

func init() {
	register(&Property{
		ID:          "C09",
		Explanation: "Everything that reaches the tape passes through the encryption wrapper, decided for every write site: (header-wrapped) each (*tar.Writer).WriteHeader(h) in the module is reachable only across the success edge of encryption.EncryptHeader(h, <pipes>.Encryption, <crypto>.Recipient), itself only across the success edge of signature.SignHeader(h, ..., <pipes>.Signature, <crypto>.Identity) on the same variable, with no store through h in between; (content-wrapped) the tar writer value is used only as receiver of WriteHeader and as destination of encryption.Encrypt, and tar.NewWriter is called only in internal/tarext; (wrapper-shape) the header EncryptHeader substitutes is a literal with exactly Format, Size and PAXRecords, the only record stored in it is the embedded header whose value is EncryptString of the JSON of the whole original header, and in the non-None arms of Encrypt/EncryptString nothing derived from the plaintext parameter is returned except through the crypto library call.",
		NotDecided:  "Secrecy of the ciphertext and key separation (crypto libraries), leakage through record sizes, that a different private key fails to decrypt.",
		Assumptions: []string{"age.Encrypt and openpgp.Encrypt produce ciphertext that reveals nothing but length"},
		Rules:       []func(*Ctx){ruleC09HeaderWrapped, ruleC09ContentWrapped, ruleC09WrapperShape},
	})
}

// storesThrough reports whether CFG node n stores through header variable h (h.F = .., h.M[k] = .., *h = .., h = ..).
func storesThrough(info *types.Info, n ast.Node, h types.Object) bool {
	check := func(l ast.Expr) bool {
		l = ast.Unparen(l)
		for {
			switch x := l.(type) {
			case *ast.SelectorExpr:
				l = ast.Unparen(x.X)
				continue
			case *ast.IndexExpr:
				l = ast.Unparen(x.X)
				continue
			case *ast.StarExpr:
				l = ast.Unparen(x.X)
				continue
			case *ast.Ident:
				return info.Uses[x] == h
			}
			return false
		}
	}
	switch s := n.(type) {
	case *ast.AssignStmt:
		for _, l := range s.Lhs {
			if check(l) {
				return true
			}
		}
	case *ast.IncDecStmt:
		return check(s.X)
	}
	return false
}

type writeSite struct {
	f   *FuncInfo
	cs  *CallSite
	h   types.Object
	ord int
}

func writeHeaderSites(c *Ctx) []writeSite {
	var out []writeSite
	for _, f := range c.Funcs {
		info := f.Pkg.TypesInfo
		n := 0
		for _, cs := range f.calls {
			if !isMethod(cs.Callee, "archive/tar", "Writer", "WriteHeader") {
				continue
			}
			n++
			var h types.Object
			if len(cs.Call.Args) == 1 {
				h = objOfIdent(info, cs.Call.Args[0])
			}
			out = append(out, writeSite{f, cs, h, n})
		}
	}
	return out
}

func ruleC09HeaderWrapped(c *Ctx) {
	const rule = "C09.header-wrapped"
	c.floor(rule, 15, "WriteHeader sites x {encrypted, signed-before-encrypted, threading}")
	p := c.pipeFns()
	if p.encHeader == nil || p.signHeader == nil {
		return
	}
	sites := writeHeaderSites(c)
	if len(sites) < half(5) {
		c.unresolved("only %d (*tar.Writer).WriteHeader call sites found (expected 5)", len(sites))
	}
	for _, ws := range sites {
		f, info := ws.f, ws.f.Pkg.TypesInfo
		base := fmt.Sprintf("WriteHeader#%d", ws.ord)
		if ws.h == nil {
			c.undecided(rule, f, base, ws.cs.Call.Pos(), "WriteHeader argument is not a plain variable; cannot track the header value")
			continue
		}
		fl := c.flow(f)
		kill := func(n ast.Node) bool { return storesThrough(info, n, ws.h) }
		var encCall, signCall *ast.CallExpr
		isEnc := func(call *ast.CallExpr) bool {
			if calleeObj(info, call) == types.Object(p.encHeader.Obj) && len(call.Args) == 3 && objOfIdent(info, call.Args[0]) == ws.h {
				encCall = call
				return true
			}
			return false
		}
		isSign := func(call *ast.CallExpr) bool {
			if calleeObj(info, call) == types.Object(p.signHeader.Obj) && len(call.Args) == 4 && objOfIdent(info, call.Args[0]) == ws.h {
				signCall = call
				return true
			}
			return false
		}
		okE, _ := c.successDominates(fl, ws.cs.Call, isEnc, kill)
		c.verdictIf(okE, rule, f, base+" encrypted", ws.cs.Call.Pos(),
			"header written only after EncryptHeader succeeded on it, nothing stored through it since", "a header can reach the tape without having passed EncryptHeader (or is modified after wrapping): names and metadata would be written in clear")
		// the EncryptHeader call that lies on every path to THIS write (a function has one per branch)
		encCall = nil
		for _, cs2 := range f.calls {
			if calleeObj(info, cs2.Call) != types.Object(p.encHeader.Obj) || len(cs2.Call.Args) != 3 || objOfIdent(info, cs2.Call.Args[0]) != ws.h {
				continue
			}
			call2 := cs2.Call
			if dom, _ := fl.dominatedBy(ws.cs.Call, func(m ast.Node) bool { return containsNode(m, call2) }, nil); dom {
				encCall = call2
			}
		}
		if encCall != nil {
			signCall = nil
			okS, _ := c.successDominates(fl, encCall, isSign, kill)
			c.verdictIf(okS, rule, f, base+" signed-then-encrypted", encCall.Pos(),
				"SignHeader succeeds on the same variable before EncryptHeader", "EncryptHeader can run without SignHeader having succeeded first on the same header (sign-then-encrypt order broken)")
			c.verdictIf(argField(info, encCall.Args[1]) == "Encryption" && argField(info, encCall.Args[2]) == "Recipient", rule, f, base+" EncryptHeader threading", encCall.Pos(),
				"gets pipes.Encryption and crypto.Recipient", "EncryptHeader is not given the configured (pipes.Encryption, crypto.Recipient) - e.g. a constant format disables encryption for this record kind")
		}
		if signCall != nil {
			c.verdictIf(argField(info, signCall.Args[2]) == "Signature" && argField(info, signCall.Args[3]) == "Identity", rule, f, base+" SignHeader threading", signCall.Pos(),
				"gets pipes.Signature and crypto.Identity", "SignHeader is not given the configured (pipes.Signature, crypto.Identity)")
		}
	}
}

func ruleC09ContentWrapped(c *Ctx) {
	const rule = "C09.content-wrapped"
	c.floor(rule, 6, "tar writer variables in the write operations and tar.NewWriter call sites")
	p := c.pipeFns()
	newTW := c.fn("internal/tarext", "NewTapeWriter")
	if newTW == nil || p.encrypt == nil {
		return
	}
	// who may create a tar writer
	n := 0
	for _, f := range c.Funcs {
		for _, cs := range f.calls {
			if isPkgFunc(cs.Callee, "archive/tar", "NewWriter") {
				n++
				c.verdictIf(f.RelPkg() == "internal/tarext", rule, f, fmt.Sprintf("tar.NewWriter#%d", n), cs.Call.Pos(),
					"tar writers are created only by internal/tarext", "a tar writer is created outside internal/tarext: records written through it bypass the sign/encrypt discipline of the write operations")
			}
		}
	}
	// uses of each tar writer variable
	for _, f := range c.Funcs {
		info := f.Pkg.TypesInfo
		for _, cs := range f.calls {
			if cs.Target != newTW {
				continue
			}
			// variable receiving result 0
			tw := tapeWriterVar(f, cs.Call, 0)
			if tw == nil {
				c.undecided(rule, f, "tar writer", cs.Call.Pos(), "NewTapeWriter result is not bound to a variable")
				continue
			}
			var badUses []string
			uses := 0
			// visit this function and its literals
			var visit func(g *FuncInfo)
			visit = func(g *FuncInfo) {
				parents := map[ast.Node]ast.Node{}
				ast.Inspect(g.Body(), func(nd ast.Node) bool {
					if nd == nil {
						return false
					}
					ast.Inspect(nd, func(ch ast.Node) bool {
						if ch != nil && ch != nd {
							if _, seen := parents[ch]; !seen {
								parents[ch] = nd
							}
							return false
						}
						return true
					})
					return true
				})
				ast.Inspect(g.Body(), func(nd ast.Node) bool {
					id, ok := nd.(*ast.Ident)
					if !ok || info.Uses[id] != tw {
						return true
					}
					uses++
					par := parents[id]
					switch x := par.(type) {
					case *ast.SelectorExpr:
						if x.X == ast.Expr(id) && x.Sel.Name == "WriteHeader" {
							return true
						}
					case *ast.CallExpr:
						if calleeObj(info, x) == types.Object(p.encrypt.Obj) && len(x.Args) > 0 && x.Args[0] == ast.Expr(id) {
							return true
						}
					}
					badUses = append(badUses, c.pos(id.Pos()))
					return true
				})
			}
			visit(f)
			c.verdictIf(len(badUses) == 0 && uses >= 1, rule, f, "tar writer uses", cs.Call.Pos(),
				fmt.Sprintf("%d uses: only WriteHeader receiver and Encrypt destination", uses), "the tar writer is used other than as WriteHeader receiver / Encrypt destination at "+strings.Join(badUses, ", ")+": bytes can reach the tape without passing the encryption wrapper")
		}
	}
}

func ruleC09WrapperShape(c *Ctx) {
	const rule = "C09.wrapper-shape"
	c.floor(rule, 8, "EncryptHeader literal/records/replacement and the non-None arms of Encrypt, EncryptString")
	p := c.pipeFns()
	encString := c.fn("pkg/encryption", "EncryptString")
	embedded := c.constObj("internal/records", "STFSRecordEmbeddedHeader")
	none := c.constObj("pkg/config", "NoneKey")
	if p.encHeader == nil || encString == nil || embedded == nil || p.encrypt == nil || none == nil {
		return
	}
	{
		f := p.encHeader
		info := f.Pkg.TypesInfo
		hdrParam := paramVar(f, "hdr")
		var lit *ast.CompositeLit
		var newHdr types.Object
		walkOwn(f.Body(), func(nd ast.Node) {
			as, ok := nd.(*ast.AssignStmt)
			if !ok || len(as.Rhs) != 1 {
				return
			}
			r := ast.Unparen(as.Rhs[0])
			if u, ok := r.(*ast.UnaryExpr); ok && u.Op == token.AND {
				r = u.X
			}
			if cl, ok := r.(*ast.CompositeLit); ok && isTarHeaderExpr(info, cl) {
				lit = cl
				newHdr = objOfIdent(info, as.Lhs[0])
			}
		})
		if lit == nil || newHdr == nil {
			c.unresolved("replacement header literal in EncryptHeader")
		} else {
			var keys []string
			for _, e := range lit.Elts {
				if kv, ok := e.(*ast.KeyValueExpr); ok {
					keys = append(keys, kv.Key.(*ast.Ident).Name)
				} else {
					keys = append(keys, "?")
				}
			}
			allowed := map[string]bool{"Format": true, "Size": true, "PAXRecords": true}
			good := true
			for _, k := range keys {
				if !allowed[k] {
					good = false
				}
			}
			c.verdictIf(good, rule, f, "wrapper literal", lit.Pos(), "replacement header carries only Format, Size, PAXRecords", "the outer header carries "+strings.Join(keys, ",")+": fields beyond Format/Size/PAXRecords are written in clear")
			// PAXRecords of the literal must be an empty map
			for _, e := range lit.Elts {
				if kv, ok := e.(*ast.KeyValueExpr); ok && kv.Key.(*ast.Ident).Name == "PAXRecords" {
					cl, ok := ast.Unparen(kv.Value).(*ast.CompositeLit)
					c.verdictIf(ok && len(cl.Elts) == 0, rule, f, "wrapper PAX initial", kv.Pos(), "wrapper starts with an empty PAX map", "the wrapper's PAX map is not a fresh empty map: original records would be copied in clear")
				}
			}
			// stores through newHdr: only PAXRecords[embedded] = EncryptString(json of hdr)
			n := 0
			walkOwn(f.Body(), func(nd ast.Node) {
				as, ok := nd.(*ast.AssignStmt)
				if !ok || !storesThrough(info, as, newHdr) {
					return
				}
				if as.Tok == token.DEFINE && len(as.Lhs) > 0 && objOfIdent(info, as.Lhs[0]) == newHdr {
					return // the definition itself
				}
				n++
				good := false
				if ix, ok := ast.Unparen(as.Lhs[0]).(*ast.IndexExpr); ok && constOf(info, ix.Index) == embedded && len(as.Rhs) == 1 {
					if call, ok := ast.Unparen(as.Rhs[0]).(*ast.CallExpr); ok && calleeObj(info, call) == types.Object(encString.Obj) {
						// argument derives from json.Marshal(hdr)
						arg := call.Args[0]
						derived := false
						ast.Inspect(arg, func(x ast.Node) bool {
							if id, ok := x.(*ast.Ident); ok {
								if _, dcall, _ := defOf(f, info.Uses[id]); dcall != nil && isPkgFunc(calleeObj(info, dcall), "encoding/json", "Marshal") &&
									len(dcall.Args) == 1 && objOfIdent(info, dcall.Args[0]) == types.Object(hdrParam) {
									derived = true
								}
							}
							return true
						})
						good = derived && argField(info, call.Args[1]) == "" && objOfIdent(info, call.Args[1]) == types.Object(paramVar(f, "encryptionFormat")) &&
							objOfIdent(info, call.Args[2]) == types.Object(paramVar(f, "recipient"))
					}
				}
				c.verdictIf(good, rule, f, fmt.Sprintf("wrapper store#%d", n), as.Pos(),
					"only the embedded-header record is stored, value = EncryptString(JSON of the whole original header) with the caller's format and recipient", "something other than the encrypted JSON of the original header is stored into the outer header")
			})
			if n == 0 {
				c.bad(rule, f, "wrapper store#1", f.Decl.Pos(), "EncryptHeader never stores the encrypted embedded header")
			}
			// *hdr = *newHdr happens (wholesale replacement)
			repl := false
			walkOwn(f.Body(), func(nd ast.Node) {
				as, ok := nd.(*ast.AssignStmt)
				if !ok || len(as.Lhs) != 1 || len(as.Rhs) != 1 {
					return
				}
				l, ok1 := ast.Unparen(as.Lhs[0]).(*ast.StarExpr)
				r, ok2 := ast.Unparen(as.Rhs[0]).(*ast.StarExpr)
				if ok1 && ok2 && objOfIdent(info, l.X) == types.Object(hdrParam) && objOfIdent(info, r.X) == newHdr {
					repl = true
				}
			})
			c.verdictIf(repl, rule, f, "wholesale replacement", f.Decl.Pos(), "*hdr is replaced wholesale by the wrapper", "EncryptHeader does not replace *hdr wholesale by the wrapper")
			// the None early-out is the only path that leaves hdr untouched
			fl := c.flow(f)
			fmtParam := paramVar(f, "encryptionFormat")
			for i, ret := range returnsIn(f) {
				if !returnsNil(info, ret) {
					continue
				}
				// either dominated by the replacement or guarded by format == None
				okRepl, _ := fl.dominatedBy(ret, func(m ast.Node) bool {
					as, ok := m.(*ast.AssignStmt)
					if !ok || len(as.Lhs) != 1 {
						return false
					}
					l, ok := ast.Unparen(as.Lhs[0]).(*ast.StarExpr)
					return ok && objOfIdent(info, l.X) == types.Object(hdrParam)
				}, nil)
				okNone, _ := fl.guardedBy(ret, func(ft Fact) bool {
					be, ok := ast.Unparen(ft.E).(*ast.BinaryExpr)
					return ok && be.Op == token.EQL && ft.Pos && objOfIdent(info, be.X) == types.Object(fmtParam) && constOf(info, be.Y) == none
				}, nil)
				c.verdictIf(okRepl || okNone, rule, f, fmt.Sprintf("return-nil#%d", i+1), ret.Pos(),
					"success only after wrapping, or format is None", "EncryptHeader reports success without having wrapped the header although encryption is on")
			}
		}
	}
	// Encrypt / EncryptString non-None arms
	for _, f := range []*FuncInfo{p.encrypt, encString} {
		fmtParam := paramVar(f, "encryptionFormat")
		var plain *types.Var
		if f == p.encrypt {
			plain = paramVar(f, "dst")
		} else {
			plain = paramVar(f, "src")
		}
		if fmtParam == nil || plain == nil {
			c.unresolved("parameters of %s", f.Name)
			continue
		}
		for _, t := range c.switchesOn(f, fmtParam) {
			for _, arm := range t.Arms {
				isNone := false
				for _, l := range arm.Labels {
					if l == none {
						isNone = true
					}
				}
				if isNone || arm.Default || len(arm.Labels) == 0 {
					continue
				}
				name := arm.Labels[0].Name()
				cryptoCall := false
				n := 0
				// an arm that is only `return helper(args...)` is judged on the helper's body (plaintext parameter re-bound)
				bf, body, bplain := f, arm.Body, plain
				if g, bind := c.armDelegate(f, arm.Body); g != nil {
					if hp := bind[plain]; hp != nil {
						bf, body, bplain = g, g.Body().List, hp
					}
				}
				binfo := bf.Pkg.TypesInfo
				for _, st := range body {
					ast.Inspect(st, func(x ast.Node) bool {
						if _, ok := x.(*ast.FuncLit); ok {
							return false
						}
						if call, ok := x.(*ast.CallExpr); ok {
							if fn, ok := calleeObj(binfo, call).(*types.Func); ok && fn.Name() == "Encrypt" && !inRepo(fn) {
								cryptoCall = true
							}
						}
						ret, ok := x.(*ast.ReturnStmt)
						if !ok || len(ret.Results) == 0 {
							return true
						}
						n++
						leaks := false
						if len(ret.Results) >= 2 {
							if usesObj(binfo, ret.Results[0], bplain) {
								leaks = true
							}
						} else if call, ok := ast.Unparen(ret.Results[0]).(*ast.CallExpr); ok {
							// single multi-value call: must be the crypto library's Encrypt
							fn, _ := calleeObj(binfo, call).(*types.Func)
							if fn == nil || fn.Name() != "Encrypt" || inRepo(fn) {
								leaks = true
							}
						}
						c.verdictIf(!leaks, rule, f, fmt.Sprintf("arm %s return#%d", name, n), ret.Pos(),
							"returns only what the crypto library produced (or an error)", "the "+name+" arm returns a value derived from the plaintext parameter without passing the crypto library")
						return true
					})
				}
				c.verdictIf(cryptoCall, rule, f, "arm "+name+" calls crypto Encrypt", arm.Clauses[0].Pos(), "arm calls the crypto library's Encrypt", "the "+name+" arm never calls the crypto library's Encrypt")
			}
		}
	}
}
