package main

import (
	"fmt"
	"go/ast"
	"go/constant"
	"go/token"
	"go/types"
	"sort"
	"strings"

	"golang.org/x/tools/go/cfg"
)

func init() {
	register(&Property{
		ID:          "C03",
		Explanation: "Structure of the content pipeline, decided from the typed syntax: (format-tables) every switch whose labels are compression/encryption/signature format constants has an arm for every key of config.Known*Formats (evaluated from the source) and a default that returns an error, level switches cover KnownCompressionLevels, and AddSuffix/RemoveSuffix map each key to the same suffix constant in mirrored order; (two-pass-agreement) the size pass and the write pass of archive/Update call Compress and Encrypt with identical non-destination arguments, the size pass ends in the counter whose value becomes hdr.Size, the write pass in the tar writer, both read the same source with a rewind in between; (nesting-inverse) write side sign->compress->encrypt and read side decrypt->decompress->verify are wired by value identity in inverse order and each stage gets its own format field and the right key half; (finish-order) Flush, compressor.Close, encryptor.Close succeed in that order on every path before the encoded size is read or the next member starts; (logical-size) the logical size is saved under the UncompressedSize record before hdr.Size is overwritten and restored from it by the indexer before conversion.",
		NotDecided:  "Byte equality through the third-party codecs and crypto, the empty-file-under-gzip read crash (its crash half is C10.no-crash-site), tape-specific codec parameter limits, Restore path arithmetic, write-cache behaviour.",
		Assumptions: []string{"codec and crypto libraries round-trip what they are given", "config.Known* lists are the supported configuration space"},
		Rules:       []func(*Ctx){ruleC03FormatTables, ruleC03TwoPass, ruleC03NestingInverse, ruleC03FinishOrder, ruleC03LogicalSize},
	})
}

type formatKinds struct {
	none   *types.Const
	kinds  map[string][]*types.Const // "compression" -> keys
	byObj  map[*types.Const]string
	levels []*types.Const
}

func (c *Ctx) formatKinds() *formatKinds {
	fk := &formatKinds{kinds: map[string][]*types.Const{}, byObj: map[*types.Const]string{}}
	fk.none = c.constObj("pkg/config", "NoneKey")
	for kind, v := range map[string]string{"compression": "KnownCompressionFormats", "encryption": "KnownEncryptionFormats", "signature": "KnownSignatureFormats"} {
		ks := c.knownFormats(v)
		fk.kinds[kind] = ks
		for _, k := range ks {
			if k != fk.none {
				fk.byObj[k] = kind
			}
		}
	}
	fk.levels = c.knownFormats("KnownCompressionLevels")
	return fk
}

// noneArmExempt: switches that legitimately have no None arm (one line of reason each).
var noneArmExempt = map[string]string{
	"generateEncryptionKey": "Keygen dispatches here only when the format is not None",
	"generateSignatureKey":  "Keygen dispatches here only when the format is not None",
}

func defaultReturnsError(info *types.Info, arm *SwitchArm) bool {
	if arm == nil {
		return false
	}
	for _, cc := range arm.Clauses {
		if cc.List == nil {
			return branchReturnsError(info, &ast.BlockStmt{List: cc.Body})
		}
	}
	return false
}

func ruleC03FormatTables(c *Ctx) {
	const rule = "C03.format-tables"
	c.floor(rule, 30, "format and level switches across compression, encryption, signature, suffix, keys, keygen")
	fk := c.formatKinds()
	if fk.none == nil {
		return
	}
	nsw := 0
	for _, f := range c.Funcs {
		if strings.HasPrefix(f.RelPkg(), "cmd") || strings.HasPrefix(f.RelPkg(), "examples") {
			continue
		}
		info := f.Pkg.TypesInfo
		idx := 0
		for _, ta := range dispatchTablesIn(f) {
			t, sw := ta.t, ta
			// classify by labels
			kind := ""
			isLevel := false
			for _, a := range t.Arms {
				for _, l := range a.Labels {
					if k, ok := fk.byObj[l]; ok && l != nil {
						kind = k
					}
					for _, lv := range fk.levels {
						if l == lv {
							isLevel = true
						}
					}
				}
			}
			if kind == "" && !isLevel {
				continue
			}
			idx++
			nsw++
			var keys []*types.Const
			label := ""
			if isLevel {
				keys = fk.levels
				label = "level"
			} else {
				keys = fk.kinds[kind]
				label = kind
			}
			base := fmt.Sprintf("switch#%d(%s)", idx, label)
			for _, k := range keys {
				if k == fk.none {
					if why, ok := noneArmExempt[f.Name]; ok {
						c.ok(rule, f, base+" arm None", sw.Pos(), false, "None arm not required: %s", why)
						continue
					}
				}
				// match by value: a switch compares strings, not identifiers
				found := false
				kv := constant.StringVal(k.Val())
				for _, a := range t.Arms {
					for i, l := range a.Labels {
						if l == k || (l != nil && a.Values[i] == kv) {
							found = true
						}
					}
				}
				c.verdictIf(found, rule, f, base+" arm "+k.Name(), sw.Pos(),
					"arm present", "no arm for "+k.Name()+": this "+label+" can be selected but is not handled here")
			}
			c.verdictIf(defaultReturnsError(info, t.defaultArm()), rule, f, base+" default", sw.Pos(),
				"default arm returns an error", "no default arm returning an error: an unknown "+label+" value is silently accepted")
		}
	}
	if nsw < half(14) {
		c.unresolved("only %d format/level switches found (expected >= 14)", nsw)
	}
	// suffix agreement
	add, rem := c.fn("internal/suffix", "AddSuffix"), c.fn("internal/suffix", "RemoveSuffix")
	if add == nil || rem == nil {
		return
	}
	type armSuffix map[string]*types.Const // key value -> suffix constant
	collect := func(f *FuncInfo) (map[string]armSuffix, []string) {
		info := f.Pkg.TypesInfo
		out := map[string]armSuffix{}
		var order []string
		for _, ta := range dispatchTablesIn(f) {
			t := ta.t
			kind := ""
			for _, a := range t.Arms {
				for _, l := range a.Labels {
					if k, ok := fk.byObj[l]; ok {
						kind = k
					}
				}
			}
			if kind == "" {
				continue
			}
			order = append(order, kind)
			m := armSuffix{}
			for _, a := range t.Arms {
				var suf *types.Const
				for _, st := range a.Body {
					ast.Inspect(st, func(x ast.Node) bool {
						if e, ok := x.(ast.Expr); ok {
							if k := constOf(info, e); k != nil && k.Pkg() == f.Pkg.Types {
								suf = k
							}
						}
						return true
					})
				}
				for _, l := range a.Labels {
					if l != nil {
						m[l.Name()] = suf
					}
				}
			}
			out[kind] = m
		}
		return out, order
	}
	am, ao := collect(add)
	rm, ro := collect(rem)
	for _, kind := range []string{"compression", "encryption"} {
		for _, k := range fk.kinds[kind] {
			a, r := am[kind][k.Name()], rm[kind][k.Name()]
			same := a == r
			if k != fk.none && a == nil {
				same = false
			}
			c.verdictIf(same, rule, add, "suffix "+k.Name(), add.Decl.Pos(),
				"AddSuffix and RemoveSuffix use the same suffix constant", fmt.Sprintf("AddSuffix appends %v but RemoveSuffix strips %v for %s: names written under this format are indexed under a different name", constName(a), constName(r), k.Name()))
		}
	}
	mirrored := len(ao) == 2 && len(ro) == 2 && ao[0] == ro[1] && ao[1] == ro[0]
	c.verdictIf(mirrored, rule, rem, "suffix order", rem.Decl.Pos(), "suffixes are stripped in the reverse of the order they are appended", "AddSuffix and RemoveSuffix do not apply compression/encryption suffixes in mirrored order")
}

func constName(k *types.Const) string {
	if k == nil {
		return "nothing"
	}
	return k.Name()
}

// defOf returns the unique assignment/definition statement of a local variable inside f, the call on its RHS (if
// the RHS is a single call) and the result index the variable receives.
func defOf(f *FuncInfo, v types.Object) (*ast.AssignStmt, *ast.CallExpr, int) {
	info := f.Pkg.TypesInfo
	var st *ast.AssignStmt
	var call *ast.CallExpr
	idx, n := -1, 0
	walkOwn(f.Body(), func(nd ast.Node) {
		as, ok := nd.(*ast.AssignStmt)
		if !ok {
			return
		}
		for i, l := range as.Lhs {
			id, ok := l.(*ast.Ident)
			if !ok {
				continue
			}
			if info.Defs[id] == v || (as.Tok == token.ASSIGN && info.Uses[id] == v) {
				n++
				st = as
				idx = i
				call = nil
				if len(as.Rhs) == 1 {
					call, _ = ast.Unparen(as.Rhs[0]).(*ast.CallExpr)
				} else if i < len(as.Rhs) {
					call, _ = ast.Unparen(as.Rhs[i]).(*ast.CallExpr)
					idx = 0
				}
			}
		}
	})
	if n != 1 {
		return nil, nil, -1
	}
	return st, call, idx
}

type pipeFns struct {
	encrypt, decrypt, compress, decompress, sign, verify *FuncInfo
	encHeader, signHeader                                *FuncInfo
}

func (c *Ctx) pipeFns() *pipeFns {
	return &pipeFns{
		encrypt: c.fn("pkg/encryption", "Encrypt"), decrypt: c.fn("pkg/encryption", "Decrypt"),
		compress: c.fn("pkg/compression", "Compress"), decompress: c.fn("pkg/compression", "Decompress"),
		sign: c.fn("pkg/signature", "Sign"), verify: c.fn("pkg/signature", "Verify"),
		encHeader: c.fn("pkg/encryption", "EncryptHeader"), signHeader: c.fn("pkg/signature", "SignHeader"),
	}
}

// sameArgs compares two argument expressions structurally and by resolved objects.
func sameExpr(info *types.Info, a, b ast.Expr) bool {
	if types.ExprString(a) != types.ExprString(b) {
		return false
	}
	// identical spelling: make sure identifiers resolve to the same objects (shadowing)
	var ia, ib []types.Object
	ast.Inspect(a, func(n ast.Node) bool {
		if id, ok := n.(*ast.Ident); ok {
			ia = append(ia, info.Uses[id])
		}
		return true
	})
	ast.Inspect(b, func(n ast.Node) bool {
		if id, ok := n.(*ast.Ident); ok {
			ib = append(ib, info.Uses[id])
		}
		return true
	})
	if len(ia) != len(ib) {
		return false
	}
	for i := range ia {
		if ia[i] != ib[i] {
			return false
		}
	}
	return true
}

// contentPasses finds, per writing function, the Compress calls in source order.
func contentWriters(c *Ctx, p *pipeFns) []*FuncInfo {
	var out []*FuncInfo
	for _, f := range c.Funcs {
		n := 0
		for _, cs := range f.calls {
			if cs.Target == p.compress {
				n++
			}
		}
		if n > 0 && f.RelPkg() == "pkg/operations" {
			out = append(out, f)
		}
	}
	return out
}

func ruleC03TwoPass(c *Ctx) {
	const rule = "C03.two-pass-agreement"
	c.floor(rule, 14, "per writing function: Compress pair, Encrypt pair, destinations, source, rewind")
	p := c.pipeFns()
	if p.compress == nil || p.encrypt == nil || p.sign == nil {
		return
	}
	counterBytes := c.field("internal/ioext", "CounterWriter", "BytesRead")
	ws := contentWriters(c, p)
	if len(ws) < half(2) {
		c.unresolved("only %d functions in pkg/operations stream content through Compress (expected archive and Update)", len(ws))
	}
	for _, f := range ws {
		info := f.Pkg.TypesInfo
		var comps, encs []*CallSite
		for _, cs := range f.calls {
			switch cs.Target {
			case p.compress:
				comps = append(comps, cs)
			case p.encrypt:
				encs = append(encs, cs)
			}
		}
		if len(comps) != 2 || len(encs) != 2 {
			c.undecided(rule, f, "pass count", f.Decl.Pos(), "expected exactly two Compress and two Encrypt calls (size pass, write pass), found %d and %d", len(comps), len(encs))
			continue
		}
		for i := 1; i < len(comps[0].Call.Args); i++ {
			pn := p.compress.Obj.Type().(*types.Signature).Params().At(i).Name()
			c.verdictIf(sameExpr(info, comps[0].Call.Args[i], comps[1].Call.Args[i]), rule, f, "Compress arg "+pn, comps[1].Call.Pos(),
				"size pass and write pass agree", fmt.Sprintf("size pass compresses with %s=%s but write pass with %s: the header size no longer matches the bytes written", pn, exprString(comps[0].Call.Args[i]), exprString(comps[1].Call.Args[i])))
		}
		for i := 1; i < len(encs[0].Call.Args); i++ {
			pn := p.encrypt.Obj.Type().(*types.Signature).Params().At(i).Name()
			c.verdictIf(sameExpr(info, encs[0].Call.Args[i], encs[1].Call.Args[i]), rule, f, "Encrypt arg "+pn, encs[1].Call.Pos(),
				"size pass and write pass agree", fmt.Sprintf("size pass encrypts with %s=%s but write pass with %s", pn, exprString(encs[0].Call.Args[i]), exprString(encs[1].Call.Args[i])))
		}
		// destinations: pass 1 -> a CounterWriter whose BytesRead becomes hdr.Size ; pass 2 -> the tar writer
		d0 := objOfIdent(info, encs[0].Call.Args[0])
		d1 := objOfIdent(info, encs[1].Call.Args[0])
		isCounter := false
		if d0 != nil {
			if pt, ok := d0.Type().(*types.Pointer); ok {
				if nm, ok := pt.Elem().(*types.Named); ok && nm.Obj().Name() == "CounterWriter" {
					isCounter = true
				}
			}
		}
		sizeFromCounter := false
		var sizeStore *ast.AssignStmt
		walkOwn(f.Body(), func(n ast.Node) {
			as, ok := n.(*ast.AssignStmt)
			if !ok || len(as.Lhs) != 1 || len(as.Rhs) != 1 {
				return
			}
			if se, ok := ast.Unparen(as.Lhs[0]).(*ast.SelectorExpr); ok && se.Sel.Name == "Size" && isTarHeaderExpr(info, se.X) {
				if mentionsField(info, as.Rhs[0], counterBytes) && usesObj(info, as.Rhs[0], d0) {
					sizeFromCounter = true
					sizeStore = as
				}
			}
		})
		c.verdictIf(isCounter && sizeFromCounter, rule, f, "size-pass destination", encs[0].Call.Pos(),
			"size pass writes into the counter whose total becomes hdr.Size", "the size pass does not end in the counter that feeds hdr.Size")
		_ = sizeStore
		isTW := false
		if d1 != nil {
			isTW = tapeWriterResult(f, d1) == 0
		}
		c.verdictIf(isTW, rule, f, "write-pass destination", encs[1].Call.Pos(),
			"write pass writes into the tar writer", "the write pass does not write into the tar writer returned by NewTapeWriter")
		// each Compress wraps the encryptor created just before it
		for i := 0; i < 2; i++ {
			dst := objOfIdent(info, comps[i].Call.Args[0])
			_, call, idx := defOf(f, dst)
			c.verdictIf(call == encs[i].Call && idx == 0, rule, f, fmt.Sprintf("Compress#%d wraps Encrypt#%d", i+1, i+1), comps[i].Call.Pos(),
				"compressor output goes to this pass's encryptor", "compressor of this pass does not write into this pass's encryptor")
		}
		// sources: pass 1 copies from the signer wrapped around f; pass 2 copies from f itself after a rewind
		var signCall *CallSite
		for _, cs := range f.calls {
			if cs.Target == p.sign {
				signCall = cs
			}
		}
		if signCall == nil {
			c.bad(rule, f, "source", f.Decl.Pos(), "content is not passed through signature.Sign")
			continue
		}
		srcVar := objOfIdent(info, signCall.Call.Args[0])
		var copies []*CallSite
		for _, cs := range f.calls {
			if (isPkgFunc(cs.Callee, "io", "Copy") || isPkgFunc(cs.Callee, "io", "CopyBuffer")) && len(cs.Call.Args) >= 2 {
				copies = append(copies, cs)
			}
		}
		okSrc := len(copies) > 0
		pass2Copies := 0
		for _, cp := range copies {
			dst := objOfIdent(info, cp.Call.Args[0])
			src := objOfIdent(info, cp.Call.Args[1])
			_, dcall, _ := defOf(f, dst)
			switch dcall {
			case comps[0].Call:
				_, scall, sidx := defOf(f, src)
				if scall != signCall.Call || sidx != 0 {
					okSrc = false
				}
			case comps[1].Call:
				pass2Copies++
				if src != srcVar {
					okSrc = false
				}
			default:
				okSrc = false
			}
		}
		c.verdictIf(okSrc && pass2Copies > 0, rule, f, "same source both passes", signCall.Call.Pos(),
			"size pass reads signer(f), write pass reads the same f", "the two passes do not read the same source through the expected wrappers")
		// rewind between the passes: f.Seek(0, io.SeekStart) succeeds before every write-pass copy
		fl := c.flow(f)
		n := 0
		for _, cp := range copies {
			dst := objOfIdent(info, cp.Call.Args[0])
			if _, dcall, _ := defOf(f, dst); dcall != comps[1].Call {
				continue
			}
			n++
			okk, _ := c.successDominates(fl, cp.Call, func(call *ast.CallExpr) bool {
				se, ok := ast.Unparen(call.Fun).(*ast.SelectorExpr)
				if !ok || se.Sel.Name != "Seek" || objOfIdent(info, se.X) != srcVar || len(call.Args) != 2 {
					return false
				}
				tv := info.Types[call.Args[0]]
				return tv.Value != nil && tv.Value.String() == "0" && constOf(info, call.Args[1]) != nil && constOf(info, call.Args[1]).Name() == "SeekStart"
			}, func(nd ast.Node) bool {
				// reading from the source (size-pass copy through the signer) invalidates an earlier rewind
				for _, call := range callsIn(nd) {
					for _, c0 := range copies {
						if c0.Call == call && c0 != cp {
							return true
						}
					}
				}
				return false
			})
			c.verdictIf(okk, rule, f, fmt.Sprintf("rewind before write copy#%d", n), cp.Call.Pos(),
				"source rewound to offset 0 after the size pass", "write pass can start reading the source without a successful Seek(0, SeekStart) after the size pass: content would be written from the wrong offset")
		}
	}
}

func isTarHeaderExpr(info *types.Info, e ast.Expr) bool {
	tv, ok := info.Types[e]
	if !ok {
		return false
	}
	t := tv.Type
	if p, ok := t.(*types.Pointer); ok {
		t = p.Elem()
	}
	n, ok := t.(*types.Named)
	return ok && n.Obj().Pkg() != nil && n.Obj().Pkg().Path() == "archive/tar" && n.Obj().Name() == "Header"
}

// argField: the struct field an argument expression selects (o.pipes.Encryption -> PipeConfig.Encryption).
func argField(info *types.Info, e ast.Expr) string {
	if fv := selField(info, e); fv != nil {
		return fv.Name()
	}
	return ""
}

func ruleC03NestingInverse(c *Ctx) {
	const rule = "C03.nesting-inverse"
	c.floor(rule, 12, "stage wiring and format/key threading on the write side (2 functions) and the read side (Fetch)")
	p := c.pipeFns()
	fetch := c.fn("pkg/recovery", "Fetch")
	if p.decrypt == nil || p.decompress == nil || p.verify == nil || fetch == nil {
		return
	}
	// read side
	{
		f := fetch
		info := f.Pkg.TypesInfo
		var dec, decomp, ver *CallSite
		for _, cs := range f.calls {
			switch cs.Target {
			case p.decrypt:
				dec = cs
			case p.decompress:
				decomp = cs
			case p.verify:
				ver = cs
			}
		}
		if dec == nil || decomp == nil || ver == nil {
			c.bad(rule, f, "read pipeline", f.Decl.Pos(), "Fetch does not call Decrypt, Decompress and Verify")
		} else {
			from := func(arg ast.Expr, want *CallSite) bool {
				_, call, idx := defOf(f, objOfIdent(info, arg))
				return call == want.Call && idx == 0
			}
			// Decrypt reads the tar reader
			trOK := false
			if tv, ok := info.Types[dec.Call.Args[0]]; ok {
				trOK = strings.HasSuffix(tv.Type.String(), "archive/tar.Reader")
			}
			c.verdictIf(trOK, rule, f, "Decrypt reads tar member", dec.Call.Pos(), "decryptor reads the tar member", "Decrypt does not read from the tar reader")
			c.verdictIf(from(decomp.Call.Args[0], dec), rule, f, "Decompress reads Decrypt", decomp.Call.Pos(), "decompressor reads the decryptor", "Decompress does not read the decryptor's output: read nesting is not the inverse of compress-then-encrypt")
			c.verdictIf(from(ver.Call.Args[0], decomp), rule, f, "Verify reads Decompress", ver.Call.Pos(), "verifier reads the decompressor (signature is over the plain content)", "Verify does not read the decompressor's output: the signature would be checked over the wrong bytes")
			c.verdictIf(argField(info, dec.Call.Args[1]) == "Encryption" && argField(info, dec.Call.Args[2]) == "Identity", rule, f, "Decrypt threading", dec.Call.Pos(), "Decrypt gets pipes.Encryption and crypto.Identity", "Decrypt is not given (pipes.Encryption, crypto.Identity)")
			c.verdictIf(argField(info, decomp.Call.Args[1]) == "Compression", rule, f, "Decompress threading", decomp.Call.Pos(), "Decompress gets pipes.Compression", "Decompress is not given pipes.Compression")
			c.verdictIf(argField(info, ver.Call.Args[2]) == "Signature" && argField(info, ver.Call.Args[3]) == "Recipient", rule, f, "Verify threading", ver.Call.Pos(), "Verify gets pipes.Signature and crypto.Recipient", "Verify is not given (pipes.Signature, crypto.Recipient)")
		}
	}
	// write side
	for _, f := range contentWriters(c, p) {
		info := f.Pkg.TypesInfo
		n := map[*FuncInfo]int{}
		for _, cs := range f.calls {
			switch cs.Target {
			case p.encrypt:
				n[p.encrypt]++
				c.verdictIf(argField(info, cs.Call.Args[1]) == "Encryption" && argField(info, cs.Call.Args[2]) == "Recipient", rule, f, fmt.Sprintf("Encrypt#%d threading", n[p.encrypt]), cs.Call.Pos(),
					"Encrypt gets pipes.Encryption and crypto.Recipient", "Encrypt is not given (pipes.Encryption, crypto.Recipient): data would be unreadable with the configured identity")
			case p.compress:
				n[p.compress]++
				c.verdictIf(argField(info, cs.Call.Args[1]) == "Compression" && argField(info, cs.Call.Args[4]) == "RecordSize" && argField(info, cs.Call.Args[3]) == "DriveIsRegular", rule, f, fmt.Sprintf("Compress#%d threading", n[p.compress]), cs.Call.Pos(),
					"Compress gets pipes.Compression, writer.DriveIsRegular, pipes.RecordSize", "Compress is not given (pipes.Compression, writer.DriveIsRegular, pipes.RecordSize)")
			case p.sign:
				n[p.sign]++
				c.verdictIf(argField(info, cs.Call.Args[2]) == "Signature" && argField(info, cs.Call.Args[3]) == "Identity", rule, f, fmt.Sprintf("Sign#%d threading", n[p.sign]), cs.Call.Pos(),
					"Sign gets pipes.Signature and crypto.Identity", "Sign is not given (pipes.Signature, crypto.Identity)")
			}
		}
	}
}

func ruleC03FinishOrder(c *Ctx) {
	const rule = "C03.finish-order"
	c.floor(rule, 6, "checkpoints (encoded-size read, next member, trailer) after each content pass")
	p := c.pipeFns()
	if p.compress == nil || p.encrypt == nil {
		return
	}
	counterBytes := c.field("internal/ioext", "CounterWriter", "BytesRead")
	for _, f := range contentWriters(c, p) {
		info := f.Pkg.TypesInfo
		fl := c.flow(f)
		compVars, encVars := map[types.Object]bool{}, map[types.Object]bool{}
		for _, cs := range f.calls {
			if cs.Target != p.compress && cs.Target != p.encrypt {
				continue
			}
			// find the variable this call defines
			walkOwn(f.Body(), func(n ast.Node) {
				as, ok := n.(*ast.AssignStmt)
				if !ok || len(as.Rhs) != 1 || ast.Unparen(as.Rhs[0]) != ast.Expr(cs.Call) {
					return
				}
				if o := objOfIdent(info, as.Lhs[0]); o != nil {
					if cs.Target == p.compress {
						compVars[o] = true
					} else {
						encVars[o] = true
					}
				}
			})
		}
		const done, flushed, cclosed = 1, 2, 4
		methodOn := func(call *ast.CallExpr, vars map[types.Object]bool, name string) bool {
			se, ok := ast.Unparen(call.Fun).(*ast.SelectorExpr)
			return ok && se.Sel.Name == name && vars[objOfIdent(info, se.X)]
		}
		an := &Analysis{Must: true, Entry: done,
			Node: func(n ast.Node, s State) State {
				for _, call := range callsIn(n) {
					if calleeObj(info, call) == types.Object(p.compress.Obj) {
						s = 0 // a new codec chain is open
					}
				}
				return s
			},
			Edge: func(b *cfg.Block, i int, s State) State {
				for _, ft := range fl.edgeFacts(b, i) {
					be, ok := ast.Unparen(ft.E).(*ast.BinaryExpr)
					if !ok || !(isNilIdent(info, be.Y) || isNilIdent(info, be.X)) {
						continue
					}
					if !(be.Op == token.EQL && ft.Pos || be.Op == token.NEQ && !ft.Pos) {
						continue
					}
					for _, nd := range fl.condNodes(b) {
						as, ok := nd.(*ast.AssignStmt)
						if !ok || len(as.Rhs) != 1 {
							continue
						}
						call, ok := ast.Unparen(as.Rhs[0]).(*ast.CallExpr)
						if !ok {
							continue
						}
						switch {
						case methodOn(call, compVars, "Flush"):
							s |= flushed
						case methodOn(call, compVars, "Close"):
							if s&flushed != 0 {
								s |= cclosed
							}
						case methodOn(call, encVars, "Close"):
							if s&cclosed != 0 {
								s = done
							}
						}
					}
				}
				return s
			}}
		fl.solve(an)
		n := 0
		check := func(node ast.Node, what string) {
			s, reach := fl.before(an, node)
			if !reach {
				return
			}
			n++
			c.verdictIf(s&done != 0, rule, f, fmt.Sprintf("checkpoint#%d %s", n, what), node.Pos(),
				"every codec chain opened earlier was flushed and closed (compressor, then encryptor), errors checked", "reached while a compressor/encryptor may still be unflushed or unclosed (order: Flush, compressor.Close, encryptor.Close): the last codec block would be missing from the size or from the tape")
		}
		var nodes []ast.Node
		walkOwn(f.Body(), func(nd ast.Node) {
			switch x := nd.(type) {
			case *ast.AssignStmt:
				if len(x.Lhs) == 1 && len(x.Rhs) == 1 {
					if se, ok := ast.Unparen(x.Lhs[0]).(*ast.SelectorExpr); ok && se.Sel.Name == "Size" && isTarHeaderExpr(info, se.X) && mentionsField(info, x.Rhs[0], counterBytes) {
						nodes = append(nodes, x)
					}
				}
			case *ast.CallExpr:
				o := calleeObj(info, x)
				if v, ok := o.(*types.Var); ok && !v.IsField() {
					// local function values: getSrc (parameter) and cleanup (from NewTapeWriter)
					if isSourceCallback(v) || isCleanupVar(f, v) {
						nodes = append(nodes, x)
					}
				}
				if isMethod(o, "archive/tar", "Writer", "WriteHeader") {
					nodes = append(nodes, x)
				}
			}
		})
		sort.Slice(nodes, func(i, j int) bool { return nodes[i].Pos() < nodes[j].Pos() })
		for _, nd := range nodes {
			what := "call"
			switch x := nd.(type) {
			case *ast.AssignStmt:
				what = "encoded size read"
			case *ast.CallExpr:
				what = exprString(x.Fun)
			}
			check(nd, what)
		}
		if n < half(3) {
			c.unresolved("only %d finish-order checkpoints found in %s", n, f.Name)
		}
	}
}

func ruleC03LogicalSize(c *Ctx) {
	const rule = "C03.logical-size"
	c.floor(rule, 3, "encoded-size stores (2) and the indexer's restore of the logical size")
	p := c.pipeFns()
	counterBytes := c.field("internal/ioext", "CounterWriter", "BytesRead")
	key := c.constObj("internal/records", "STFSRecordUncompressedSize")
	indexHeader := c.fn("pkg/recovery", "indexHeader")
	if key == nil || counterBytes == nil || indexHeader == nil || p.compress == nil {
		return
	}
	for _, f := range contentWriters(c, p) {
		info := f.Pkg.TypesInfo
		fl := c.flow(f)
		n := 0
		walkOwn(f.Body(), func(nd ast.Node) {
			as, ok := nd.(*ast.AssignStmt)
			if !ok || len(as.Lhs) != 1 || len(as.Rhs) != 1 {
				return
			}
			se, ok := ast.Unparen(as.Lhs[0]).(*ast.SelectorExpr)
			if !ok || se.Sel.Name != "Size" || !isTarHeaderExpr(info, se.X) || !mentionsField(info, as.Rhs[0], counterBytes) {
				return
			}
			n++
			hdrObj := objOfIdent(info, se.X)
			isSave := func(m ast.Node) bool {
				a2, ok := m.(*ast.AssignStmt)
				if !ok || len(a2.Lhs) != 1 || len(a2.Rhs) != 1 {
					return false
				}
				ix, ok := ast.Unparen(a2.Lhs[0]).(*ast.IndexExpr)
				if !ok || constOf(info, ix.Index) != key {
					return false
				}
				// value derives from hdr.Size of the same header through strconv.Itoa
				call, ok := ast.Unparen(a2.Rhs[0]).(*ast.CallExpr)
				if !ok || !isPkgFunc(calleeObj(info, call), "strconv", "Itoa") {
					return false
				}
				uses := false
				ast.Inspect(call, func(x ast.Node) bool {
					if s2, ok := x.(*ast.SelectorExpr); ok && s2.Sel.Name == "Size" && objOfIdent(info, s2.X) == hdrObj {
						uses = true
					}
					return true
				})
				return uses
			}
			isSizeStore := func(m ast.Node) bool {
				a2, ok := m.(*ast.AssignStmt)
				if !ok || a2 == as {
					return false
				}
				for _, l := range a2.Lhs {
					if s2, ok := ast.Unparen(l).(*ast.SelectorExpr); ok && s2.Sel.Name == "Size" && objOfIdent(info, s2.X) == hdrObj {
						return true
					}
				}
				return false
			}
			okk, _ := fl.dominatedBy(as, isSave, isSizeStore)
			c.verdictIf(okk, rule, f, fmt.Sprintf("encoded-size store#%d", n), as.Pos(),
				"logical size saved under STFS.UncompressedSize on every path before hdr.Size is overwritten with the encoded size", "hdr.Size is overwritten with the encoded size on a path where the logical size was not saved first: Stat would report the encoded length")
		})
		if n == 0 {
			c.unresolved("no encoded-size store found in %s", f.Name)
		}
	}
	// indexer: restores hdr.Size from the record before any conversion to an index row
	{
		f := indexHeader
		info := f.Pkg.TypesInfo
		fl := c.flow(f)
		var lookup *ast.AssignStmt
		var okVar, valVar types.Object
		walkOwn(f.Body(), func(nd ast.Node) {
			as, ok := nd.(*ast.AssignStmt)
			if !ok || len(as.Lhs) != 2 || len(as.Rhs) != 1 {
				return
			}
			ix, ok := ast.Unparen(as.Rhs[0]).(*ast.IndexExpr)
			if ok && constOf(info, ix.Index) == key {
				lookup = as
				valVar, okVar = objOfIdent(info, as.Lhs[0]), objOfIdent(info, as.Lhs[1])
			}
		})
		if lookup == nil {
			c.bad(rule, f, "restore logical size", f.Decl.Pos(), "the indexer no longer reads the UncompressedSize record: compressed/encrypted entries would report their encoded length")
			return
		}
		// a store to hdr.Size guarded by ok, value derived from the looked-up string
		restored := false
		walkOwn(f.Body(), func(nd ast.Node) {
			is, ok := nd.(*ast.IfStmt)
			if !ok || objOfIdent(info, is.Cond) != okVar {
				return
			}
			derived := map[types.Object]bool{valVar: true}
			ast.Inspect(is.Body, func(m ast.Node) bool {
				as, ok := m.(*ast.AssignStmt)
				if !ok {
					return true
				}
				for _, r := range as.Rhs {
					for d := range derived {
						if usesObj(info, r, d) {
							for _, l := range as.Lhs {
								if o := objOfIdent(info, l); o != nil {
									derived[o] = true
								}
								if se, ok := ast.Unparen(l).(*ast.SelectorExpr); ok && se.Sel.Name == "Size" && isTarHeaderExpr(info, se.X) {
									restored = true
								}
							}
							break
						}
					}
				}
				return true
			})
		})
		c.verdictIf(restored, rule, f, "restore logical size", lookup.Pos(), "hdr.Size restored from the UncompressedSize record when present", "hdr.Size is not restored from the UncompressedSize record")
		conv := c.fn("internal/converters", "TarHeaderToDBHeader")
		n := 0
		for _, cs := range f.calls {
			if cs.Target != conv {
				continue
			}
			n++
			okk, _ := fl.dominatedBy(cs.Call, func(m ast.Node) bool { return m == ast.Node(lookup) }, nil)
			c.verdictIf(okk, rule, f, fmt.Sprintf("convert#%d after restore", n), cs.Call.Pos(), "conversion to an index row happens after the logical size was restored", "a header is converted to an index row before its logical size was restored")
		}
	}
}

// dispatchTable is a value-keyed dispatch in a function: a tagged switch, or a lookup in a package-level map whose
// initialiser is a literal with constant keys (`s, ok := table[format]; if !ok { return err }`), presented as a
// switch table: one arm per entry (its body is the entry's value), the `!ok` branch as the default arm.
type dispatchTable struct {
	t   *SwitchTable
	pos token.Pos
}

func (d dispatchTable) Pos() token.Pos { return d.pos }

func dispatchTablesIn(f *FuncInfo) []dispatchTable {
	info := f.Pkg.TypesInfo
	var out []dispatchTable
	var visit func(list []ast.Stmt)
	handle := func(list []ast.Stmt, i int) {
		as, ok := list[i].(*ast.AssignStmt)
		if !ok || len(as.Rhs) != 1 {
			return
		}
		ix, ok := ast.Unparen(as.Rhs[0]).(*ast.IndexExpr)
		if !ok {
			return
		}
		mv, ok := objOfIdent(info, ix.X).(*types.Var)
		if !ok || mv.Pkg() == nil || mv.Parent() != mv.Pkg().Scope() {
			return
		}
		if _, isMap := mv.Type().Underlying().(*types.Map); !isMap {
			return
		}
		// the literal initialiser
		var lit *ast.CompositeLit
		for _, file := range f.Pkg.Syntax {
			for _, d := range file.Decls {
				gd, ok := d.(*ast.GenDecl)
				if !ok || gd.Tok != token.VAR {
					continue
				}
				for _, sp := range gd.Specs {
					vs := sp.(*ast.ValueSpec)
					for k, nm := range vs.Names {
						if info.Defs[nm] == types.Object(mv) && k < len(vs.Values) {
							lit, _ = ast.Unparen(vs.Values[k]).(*ast.CompositeLit)
						}
					}
				}
			}
		}
		if lit == nil {
			return
		}
		t := &SwitchTable{At: as.Pos(), TagObj: objOfIdent(info, ix.Index)}
		for _, el := range lit.Elts {
			kv, ok := el.(*ast.KeyValueExpr)
			if !ok {
				return
			}
			sv, _ := constString(info, kv.Key)
			t.Arms = append(t.Arms, &SwitchArm{Labels: []*types.Const{constOf(info, kv.Key)}, Values: []string{sv}, Body: []ast.Stmt{&ast.ExprStmt{X: kv.Value}}})
		}
		// `if !ok { ... }` right behind the lookup is the default arm
		if len(as.Lhs) == 2 && i+1 < len(list) {
			if is, ok := list[i+1].(*ast.IfStmt); ok && is.Init == nil {
				if u, ok := ast.Unparen(is.Cond).(*ast.UnaryExpr); ok && u.Op == token.NOT && objOfIdent(info, u.X) != nil && objOfIdent(info, u.X) == objOfIdent(info, as.Lhs[1]) {
					t.Arms = append(t.Arms, &SwitchArm{Default: true, Clauses: []*ast.CaseClause{{Body: is.Body.List}}, Body: is.Body.List})
				}
			}
		}
		out = append(out, dispatchTable{t, as.Pos()})
	}
	// `if v == A { ... } else if v == B || v == C { ... } else { ... }` over one variable and constants
	chain := func(is *ast.IfStmt) {
		var tagObj types.Object
		t := &SwitchTable{At: is.Pos()}
		labelsOf := func(cond ast.Expr) ([]*types.Const, []string, bool) {
			var ks []*types.Const
			var vs []string
			var walk func(e ast.Expr) bool
			walk = func(e ast.Expr) bool {
				be, ok := ast.Unparen(e).(*ast.BinaryExpr)
				if !ok {
					return false
				}
				if be.Op == token.LOR {
					return walk(be.X) && walk(be.Y)
				}
				if be.Op != token.EQL {
					return false
				}
				v, k := be.X, be.Y
				if constOf(info, v) != nil {
					v, k = k, v
				}
				kc := constOf(info, k)
				vo := objOfIdent(info, v)
				if kc == nil || vo == nil || (tagObj != nil && vo != tagObj) {
					return false
				}
				tagObj = vo
				sv, _ := constString(info, k)
				ks = append(ks, kc)
				vs = append(vs, sv)
				return true
			}
			ok := walk(cond)
			return ks, vs, ok
		}
		cur := is
		for cur != nil {
			if cur.Init != nil {
				return
			}
			ks, vs, ok := labelsOf(cur.Cond)
			if !ok {
				return
			}
			t.Arms = append(t.Arms, &SwitchArm{Labels: ks, Values: vs, Body: cur.Body.List, Clauses: []*ast.CaseClause{{Body: cur.Body.List}}})
			switch e := cur.Else.(type) {
			case *ast.IfStmt:
				cur = e
			case *ast.BlockStmt:
				t.Arms = append(t.Arms, &SwitchArm{Default: true, Body: e.List, Clauses: []*ast.CaseClause{{Body: e.List}}})
				cur = nil
			default:
				cur = nil
			}
		}
		if len(t.Arms) >= 2 {
			t.TagObj = tagObj
			out = append(out, dispatchTable{t, is.Pos()})
		}
	}
	visit = func(list []ast.Stmt) {
		for i, st := range list {
			handle(list, i)
			if is, ok := st.(*ast.IfStmt); ok {
				chain(is)
			}
			switch x := st.(type) {
			case *ast.SwitchStmt:
				if x.Tag != nil {
					t := buildSwitchTable(info, x)
					augmentSwitchTable(info, t, list, i)
					out = append(out, dispatchTable{t, t.At})
				}
				for _, cc := range x.Body.List {
					visit(cc.(*ast.CaseClause).Body)
				}
			case *ast.BlockStmt:
				visit(x.List)
			case *ast.IfStmt:
				visit(x.Body.List)
				for el := x.Else; el != nil; {
					switch e := el.(type) {
					case *ast.BlockStmt:
						visit(e.List)
						el = nil
					case *ast.IfStmt:
						visit(e.Body.List)
						el = e.Else
					default:
						el = nil
					}
				}
			case *ast.ForStmt:
				visit(x.Body.List)
			case *ast.RangeStmt:
				visit(x.Body.List)
			case *ast.TypeSwitchStmt:
				for _, cc := range x.Body.List {
					visit(cc.(*ast.CaseClause).Body)
				}
			case *ast.SelectStmt:
				for _, cc := range x.Body.List {
					visit(cc.(*ast.CommClause).Body)
				}
			case *ast.LabeledStmt:
				visit([]ast.Stmt{x.Stmt})
			}
		}
	}
	if f.Body() != nil {
		visit(f.Body().List)
	}
	return out
}

// augmentSwitchTable completes the table of the tagged switch list[i] over a plain variable by the two spellings that
// move an arm out of the switch: `if v == K { ...; return }` statements in front of it (arms handled by an early
// return) and, when the switch has no default, the statements behind it (what runs for every value no arm took).
func augmentSwitchTable(info *types.Info, t *SwitchTable, list []ast.Stmt, i int) {
	if t.TagObj == nil {
		return
	}
	terminates := func(b []ast.Stmt) bool {
		if len(b) == 0 {
			return false
		}
		_, ok := b[len(b)-1].(*ast.ReturnStmt)
		return ok
	}
	var front []*SwitchArm
	for j := i - 1; j >= 0; j-- {
		is, ok := list[j].(*ast.IfStmt)
		if !ok || is.Init != nil || is.Else != nil || !terminates(is.Body.List) {
			break
		}
		var ks []*types.Const
		var vs []string
		var walk func(e ast.Expr) bool
		walk = func(e ast.Expr) bool {
			be, ok := ast.Unparen(e).(*ast.BinaryExpr)
			if !ok {
				return false
			}
			if be.Op == token.LOR {
				return walk(be.X) && walk(be.Y)
			}
			if be.Op != token.EQL {
				return false
			}
			v, k := be.X, be.Y
			if constOf(info, v) != nil {
				v, k = k, v
			}
			kc := constOf(info, k)
			if kc == nil || objOfIdent(info, v) != t.TagObj {
				return false
			}
			sv, _ := constString(info, k)
			ks, vs = append(ks, kc), append(vs, sv)
			return true
		}
		if !walk(is.Cond) {
			break
		}
		front = append([]*SwitchArm{{Labels: ks, Values: vs, Body: is.Body.List, Clauses: []*ast.CaseClause{{Body: is.Body.List}}}}, front...)
		t.At = is.Pos()
	}
	t.Arms = append(front, t.Arms...)
	hasDefault := false
	for _, a := range t.Arms {
		if a.Default {
			hasDefault = true
		}
	}
	if !hasDefault && i+1 < len(list) {
		rest := list[i+1:]
		t.Arms = append(t.Arms, &SwitchArm{Default: true, Body: rest, Clauses: []*ast.CaseClause{{Body: rest}}})
	}
}
