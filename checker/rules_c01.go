package main

import (
	"fmt"
	"go/ast"
	"go/token"
	"go/types"
	"sort"
	"strings"

	"golang.org/x/tools/go/cfg"
)

func init() {
	register(&Property{
		ID:          "C01",
		Explanation: "Code-shape facts without which the live index cannot equal a rebuild from the tape, decided for every site: (single-writer) every call of a row-changing method of config.MetadataPersister (set computed from pkg/persisters) sits in a function that becomes unreachable from all roots once recovery.Index is removed from the static call graph, and the SQL write API is used only in pkg/persisters; (snapshot-window) at each (*tar.Writer).WriteHeader(h) the value the live index will receive - the snapshot appended to the slice that the decrypt callback handed to recovery.Index reads - was taken from h on every path and nothing was stored through h since, the only calls receiving h being SignHeader/EncryptHeader; every snapshot is followed by its WriteHeader before the next snapshot or the trailer; (append-then-index) after a WriteHeader may have happened, the only non-error exit is `recovery.Index(...)` with the operation's own metadata, reached across the success edges of cleanup and CloseWriter; (converters) the four header converters assign every same-meaning field from its counterpart, none crossed.",
		NotDecided:  "Replay semantics over histories (tombstones, rename onto used names: see C07), the positional offset=1 re-read, tar encode/decode fidelity, the cached-root heuristics.",
		Assumptions: []string{"SignHeader/EncryptHeader and their inverses are exact inverses on the header value (C09/C08 check their shape)"},
		Rules:       []func(*Ctx){ruleC01SingleWriter, ruleC01SnapshotWindow, ruleC01AppendThenIndex, ruleConverters("C01")},
	})
	register(&Property{
		ID:          "C02",
		Explanation: "Two necessary conditions of reference-filesystem behaviour, nothing more: (converters) each of the four header converters (tar<->db<->config) assigns every target field that has a same-meaning source field or parameter from exactly that counterpart, so Chown/Chtimes/Stat cannot silently cross fields; (precondition-before-append) in Create, Mkdir, OpenFile's create path, Rename and SymlinkIfPossible every path to a tape-appending call crosses the success edge of inventory.Stat on filepath.Dir(<target>); Remove checks the target and its emptiness before Delete; Rename stats the source before Move; Chmod/Chown/Chtimes stat the target before the metadata update - so a call that must fail is rejected before anything is appended.",
		NotDecided:  "Outcome equality per call with a reference filesystem, tombstone/reuse histories, SQL wildcard names (C12), parent kind (C13), error classes, the rename-over-existing early return.",
		Assumptions: []string{"inventory.Stat returns sql.ErrNoRows exactly when the entry does not exist"},
		Rules:       []func(*Ctx){ruleConverters("C02"), ruleC02Preconditions},
	})
}

// ---- single writer ----

func ruleC01SingleWriter(c *Ctx) {
	const rule = "C01.single-writer"
	c.floor(rule, 7, "call sites of index-store mutators and of the SQL write API")
	s := c.sinks()
	index := c.fn("pkg/recovery", "Index")
	if index == nil {
		return
	}
	if len(s.mutators) < 5 {
		c.unresolved("index-store mutator set has %d members (%s)", len(s.mutators), s.mutatorNames())
	}
	// reachability from roots in the static call graph with recovery.Index removed
	callers := map[*FuncInfo]int{}
	for _, f := range c.Funcs {
		for _, cs := range f.calls {
			if cs.Target != nil {
				callers[cs.Target]++
			}
		}
	}
	reach := map[*FuncInfo]bool{}
	var work []*FuncInfo
	for _, f := range c.Funcs {
		if f == index {
			continue
		}
		root := false
		switch {
		case f.Decl != nil && (f.Decl.Name.IsExported() || f.Decl.Name.Name == "main" || f.Decl.Name.Name == "init"):
			root = true
		case f.Decl != nil && callers[f] == 0:
			root = true
		case f.Lit != nil && f.Outer == nil:
			root = true // package-level literals (cobra commands)
		}
		if root {
			reach[f] = true
			work = append(work, f)
		}
	}
	for len(work) > 0 {
		f := work[0]
		work = work[1:]
		next := []*FuncInfo{}
		for _, cs := range f.calls {
			if cs.Target != nil {
				next = append(next, cs.Target)
			}
		}
		next = append(next, c.litsIn(f)...)
		for _, g := range next {
			if g == index || reach[g] {
				continue
			}
			reach[g] = true
			work = append(work, g)
		}
	}
	n := 0
	for _, f := range c.Funcs {
		k := 0
		for _, cs := range f.calls {
			if !s.isMutatorCall(cs) {
				continue
			}
			n++
			k++
			construct := fmt.Sprintf("%s#%d", cs.Callee.Name(), k)
			inIndex := f == index
			// literals nested in Index count as Index
			for g := f; g != nil; g = g.Outer {
				if g == index {
					inIndex = true
				}
			}
			if inIndex || !reach[f] {
				c.ok(rule, f, construct, cs.Call.Pos(), true, "index row change happens only during replay (function unreachable once recovery.Index is removed from the call graph)")
			} else {
				c.bad(rule, f, construct, cs.Call.Pos(), "index row change (%s) outside tape replay: this state is not derived from a tape record, so a rebuild from the tape cannot reproduce it", cs.Callee.Name())
			}
		}
	}
	if n < half(6) {
		c.unresolved("only %d mutator call sites found (expected >= 6)", n)
	}
	// SQL write API only in the persister package (generated code and migrations aside)
	k := 0
	for _, f := range c.Funcs {
		rel := f.RelPkg()
		for _, cs := range f.calls {
			if !isSQLWriteCall(cs.Callee) {
				continue
			}
			if strings.HasPrefix(rel, "internal/db/") {
				continue
			}
			k++
			c.verdictIf(rel == "pkg/persisters", rule, f, fmt.Sprintf("sql-write#%d", k), cs.Call.Pos(),
				"SQL write issued by the persister", "package "+rel+" writes index rows directly, bypassing the persister and tape replay")
		}
	}
}

// ---- snapshot window ----

// snapshotSlice finds, for a write operation, the local slice that the decrypt callback passed to recovery.Index reads.
func snapshotSlice(c *Ctx, f *FuncInfo, index *FuncInfo) (types.Object, *CallSite) {
	info := f.Pkg.TypesInfo
	for _, cs := range f.calls {
		if cs.Target != index {
			continue
		}
		sig := index.Obj.Type().(*types.Signature)
		for i := 0; i < sig.Params().Len() && i < len(cs.Call.Args); i++ {
			if sig.Params().At(i).Name() != "decryptHeader" {
				continue
			}
			lf, bind := c.callbackFunc(f, cs.Call.Args[i])
			if lf == nil || (lf.Lit == nil && len(bind) == 0) {
				return nil, cs
			}
			linfo := lf.Pkg.TypesInfo
			var slice types.Object
			ast.Inspect(lf.Body(), func(n ast.Node) bool {
				as, ok := n.(*ast.AssignStmt)
				if !ok || len(as.Lhs) != 1 || len(as.Rhs) != 1 {
					return true
				}
				if _, ok := ast.Unparen(as.Lhs[0]).(*ast.StarExpr); !ok {
					return true
				}
				r := ast.Unparen(as.Rhs[0])
				if st, ok := r.(*ast.StarExpr); ok {
					r = ast.Unparen(st.X)
				}
				if ix, ok := r.(*ast.IndexExpr); ok {
					slice = objOfIdent(linfo, ix.X)
					if slice == nil {
						if fv := selField(linfo, ix.X); fv != nil {
							slice = fv // a field of the method's receiver; bound to the operation's local below
						}
					}
				}
				return true
			})
			// a factory parameter stands for the local the operation passed
			if arg, ok := bind[slice]; ok {
				slice = objOfIdent(info, arg)
			}
			return slice, cs
		}
	}
	return nil, nil
}

// copiesOf returns local variables that hold a copy of *h (x := *h).
func isSnapshotAppend(info *types.Info, f *FuncInfo, n ast.Node, slice, h types.Object) bool {
	as, ok := n.(*ast.AssignStmt)
	if !ok || len(as.Lhs) != 1 || len(as.Rhs) != 1 || objOfIdent(info, as.Lhs[0]) != slice {
		return false
	}
	call, ok := ast.Unparen(as.Rhs[0]).(*ast.CallExpr)
	if !ok || len(call.Args) != 2 {
		return false
	}
	if b, ok := calleeObj(info, call).(*types.Builtin); !ok || b.Name() != "append" {
		return false
	}
	v := ast.Unparen(call.Args[1])
	// append(hdrs, *h)
	if st, ok := v.(*ast.StarExpr); ok && objOfIdent(info, st.X) == h {
		return true
	}
	// append(hdrs, &copy) with copy := *h
	if u, ok := v.(*ast.UnaryExpr); ok && u.Op == token.AND {
		cp := objOfIdent(info, u.X)
		if cp == nil {
			return false
		}
		st, _, _ := defOf(f, cp)
		if st != nil && len(st.Rhs) == 1 {
			if s2, ok := ast.Unparen(st.Rhs[0]).(*ast.StarExpr); ok && objOfIdent(info, s2.X) == h {
				return true
			}
		}
	}
	return false
}

func ruleC01SnapshotWindow(c *Ctx) {
	const rule = "C01.snapshot-window"
	c.floor(rule, 10, "WriteHeader sites x {snapshot fresh, written after snapshot}")
	p := c.pipeFns()
	index := c.fn("pkg/recovery", "Index")
	if index == nil || p.encHeader == nil || p.signHeader == nil {
		return
	}
	sites := writeHeaderSites(c)
	for _, ws := range sites {
		f, info := ws.f, ws.f.Pkg.TypesInfo
		base := fmt.Sprintf("WriteHeader#%d", ws.ord)
		slice, ics := snapshotSlice(c, f, index)
		if ics == nil {
			c.bad(rule, f, base+" snapshot", ws.cs.Call.Pos(), "this function appends to the tape but never replays through recovery.Index")
			continue
		}
		if slice == nil || ws.h == nil {
			c.undecided(rule, f, base+" snapshot", ws.cs.Call.Pos(), "cannot identify the snapshot slice read by the decrypt callback / the header variable")
			continue
		}
		fl := c.flow(f)
		sizeExempt := sizeCarriedInRecord(c, f, fl, ws.h, slice)
		// the copy variable (hdrToAppend) must not be modified after it was taken either
		kill := func(n ast.Node) bool {
			if isSnapshotAppend(info, f, n, slice, ws.h) {
				return false
			}
			if sizeExempt[n] {
				return false
			}
			if storesThrough(info, n, ws.h) {
				return true
			}
			// any call receiving h other than the two wrappers (and WriteHeader itself) may change it
			for _, call := range callsIn(n) {
				if call == ws.cs.Call {
					continue
				}
				for ai, a := range call.Args {
					if objOfIdent(info, a) == ws.h {
						o := calleeObj(info, call)
						if o == types.Object(p.encHeader.Obj) || o == types.Object(p.signHeader.Obj) {
							continue
						}
						if fn, ok := o.(*types.Func); ok && c.byObj[fn] != nil && readsOnlyParam(c, c.byObj[fn], ai, 0) {
							continue // a repository function that only reads the header (e.g. a converter)
						}
						return true
					}
				}
			}
			return false
		}
		okk, _ := fl.dominatedBy(ws.cs.Call, func(n ast.Node) bool { return isSnapshotAppend(info, f, n, slice, ws.h) }, kill)
		c.verdictIf(okk, rule, f, base+" snapshot fresh", ws.cs.Call.Pos(),
			"the header handed to the live index is a copy of this header taken on every path, and only SignHeader/EncryptHeader touched it since", "the header written to the tape can differ from the snapshot the live index receives (stored through / passed on after the snapshot, or no snapshot on some path): a rebuild would replay a different record than the running instance indexed")
	}
	// every snapshot is written before the next snapshot or the trailer (positional correspondence i <-> i)
	for _, f := range c.Funcs {
		if f.RelPkg() != "pkg/operations" || f.Lit != nil {
			continue
		}
		slice, ics := snapshotSlice(c, f, index)
		if ics == nil || slice == nil {
			continue
		}
		info := f.Pkg.TypesInfo
		fl := c.flow(f)
		isAppend := func(n ast.Node) bool {
			as, ok := n.(*ast.AssignStmt)
			if !ok || len(as.Lhs) != 1 || len(as.Rhs) != 1 || objOfIdent(info, as.Lhs[0]) != slice {
				return false
			}
			call, ok := ast.Unparen(as.Rhs[0]).(*ast.CallExpr)
			if !ok {
				return false
			}
			b, ok := calleeObj(info, call).(*types.Builtin)
			return ok && b.Name() == "append"
		}
		const pending = 1
		an := &Analysis{Must: false, Entry: 0, Node: func(n ast.Node, s State) State {
			if isAppend(n) {
				return s | pending
			}
			for _, call := range callsIn(n) {
				if isMethod(calleeObj(info, call), "archive/tar", "Writer", "WriteHeader") {
					s &^= pending
				}
			}
			return s
		}}
		fl.solve(an)
		k := 0
		for _, b := range fl.G.Blocks {
			for _, n := range b.Nodes {
				isCleanup := false
				for _, call := range callsIn(n) {
					if v, ok := calleeObj(info, call).(*types.Var); ok && !v.IsField() && isCleanupVar(f, v) {
						isCleanup = true
					}
				}
				if !isAppend(n) && !isCleanup {
					continue
				}
				s, reach := fl.before(an, n)
				if !reach {
					continue
				}
				k++
				what := "next snapshot"
				if isCleanup {
					what = "trailer"
				}
				c.verdictIf(s&pending == 0, rule, f, fmt.Sprintf("pairing#%d before %s", k, what), n.Pos(),
					"every earlier snapshot has been written to the tape", "a snapshot can be appended without its header being written (the positional substitution during replay would shift)")
			}
		}
	}
}

// readsOnlyParam: the repository function never stores through its i-th parameter nor hands it to anything
// that might (bounded recursion through repository callees).
func readsOnlyParam(c *Ctx, f *FuncInfo, i int, depth int) bool {
	if depth > 2 || f.Decl == nil {
		return false
	}
	var pv *types.Var
	k := 0
	for _, fl := range f.Type().Params.List {
		for _, id := range fl.Names {
			if k == i {
				pv, _ = f.Pkg.TypesInfo.Defs[id].(*types.Var)
			}
			k++
		}
	}
	if pv == nil {
		return false
	}
	info := f.Pkg.TypesInfo
	ok := true
	ast.Inspect(f.Body(), func(n ast.Node) bool {
		if !ok {
			return false
		}
		if storesThrough(info, n, pv) {
			ok = false
		}
		if call, isCall := n.(*ast.CallExpr); isCall {
			for ai, a := range call.Args {
				if objOfIdent(info, a) != types.Object(pv) {
					continue
				}
				if fn, isFn := calleeObj(info, call).(*types.Func); isFn && c.byObj[fn] != nil && readsOnlyParam(c, c.byObj[fn], ai, depth+1) {
					continue
				}
				ok = false
			}
		}
		if u, isU := n.(*ast.UnaryExpr); isU && u.Op == token.AND && objOfIdent(info, u.X) == types.Object(pv) {
			ok = false
		}
		return true
	})
	return ok
}

// ---- append then index ----

func ruleC01AppendThenIndex(c *Ctx) {
	const rule = "C01.append-then-index"
	c.floor(rule, 4, "write operations (archive, Update, Delete, Move)")
	index := c.fn("pkg/recovery", "Index")
	s := c.sinks()
	if index == nil || s.closeWriter == nil {
		return
	}
	nops := 0
	for _, f := range c.Funcs {
		if f.Lit != nil {
			continue
		}
		writes := false
		info := f.Pkg.TypesInfo
		for _, cs := range f.calls {
			if isMethod(cs.Callee, "archive/tar", "Writer", "WriteHeader") {
				writes = true
			}
		}
		if !writes {
			continue
		}
		nops++
		fl := c.flow(f)
		const wrote = 1
		an := &Analysis{Must: false, Entry: 0, Node: func(n ast.Node, st State) State {
			for _, call := range callsIn(n) {
				if isMethod(calleeObj(info, call), "archive/tar", "Writer", "WriteHeader") {
					st |= wrote
				}
			}
			return st
		}}
		fl.solve(an)
		isCleanup := func(call *ast.CallExpr) bool {
			v, ok := calleeObj(info, call).(*types.Var)
			return ok && !v.IsField() && isCleanupVar(f, v)
		}
		isCloseW := func(call *ast.CallExpr) bool { return calleeObj(info, call) == types.Object(s.closeWriter) }
		fl.exits(an, func(ret *ast.ReturnStmt, ord int, st State) {
			if st&wrote == 0 {
				return
			}
			pos := f.Body().Rbrace
			if ret != nil {
				pos = ret.Pos()
			}
			construct := fmt.Sprintf("return#%d after append", ord)
			if ret == nil {
				c.bad(rule, f, construct, pos, "function can fall off its end after appending")
				return
			}
			last := ast.Unparen(ret.Results[len(ret.Results)-1])
			// error propagation: `return ..., err` where err is an error variable
			if id, ok := last.(*ast.Ident); ok {
				if _, isNil := info.Uses[id].(*types.Nil); !isNil {
					return // propagates an error value: not a success exit
				}
			}
			if se, ok := last.(*ast.SelectorExpr); ok && constOf(info, se) == nil {
				if _, isVar := info.Uses[se.Sel].(*types.Var); isVar {
					return // config.ErrX
				}
			}
			call, isCall := last.(*ast.CallExpr)
			if !isCall || calleeObj(info, call) != types.Object(index.Obj) {
				c.bad(rule, f, construct, pos, "success exit after a header may have been appended that does not end in recovery.Index: the live index would lag the tape while a rebuild does not")
				return
			}
			okC, _ := c.successDominates(fl, ret, isCleanup, nil)
			okW, _ := c.successDominates(fl, ret, isCloseW, nil)
			meta := false
			sig := index.Obj.Type().(*types.Signature)
			for i := 0; i < sig.Params().Len() && i < len(call.Args); i++ {
				if sig.Params().At(i).Name() == "metadata" {
					meta = argField(info, call.Args[i]) == "metadata"
				}
			}
			c.verdictIf(okC && okW && meta, rule, f, construct, pos,
				"trailer written, writer closed, then the appended records are replayed into the operation's own index", "recovery.Index is reached without cleanup/CloseWriter having succeeded, or replays into a different index store")
		})
	}
	if nops < half(4) {
		c.unresolved("only %d functions call WriteHeader (expected 4)", nops)
	}
}

// ---- converters ----

func lowerKey(s string) string { return strings.ToLower(s) }

func ruleConverters(prop string) func(*Ctx) {
	return func(c *Ctx) {
		rule := prop + ".converters"
		c.floor(rule, 60, "fields assigned by the four header converters")
		for _, name := range []string{"TarHeaderToDBHeader", "DBHeaderToTarHeader", "ConfigHeaderToDBHeader", "DBHeaderToConfigHeader"} {
			f := c.fn("internal/converters", name)
			if f == nil {
				continue
			}
			info := f.Pkg.TypesInfo
			// the source header parameter: the (single) pointer-to-struct parameter
			var src *types.Var
			var srcStruct *types.Struct
			scalarParams := map[string]*types.Var{}
			for _, pv := range paramsWhere(f, func(v *types.Var) bool { return true }) {
				if pt, ok := pv.Type().(*types.Pointer); ok {
					if st, ok := pt.Elem().Underlying().(*types.Struct); ok {
						src, srcStruct = pv, st
						continue
					}
				}
				scalarParams[lowerKey(pv.Name())] = pv
			}
			// the target literal: the struct literal whose type is the (pointee of the) first result
			var lit *ast.CompositeLit
			var tgtStruct *types.Struct
			walkOwn(f.Body(), func(n ast.Node) {
				cl, ok := n.(*ast.CompositeLit)
				if !ok {
					return
				}
				tv := info.Types[cl]
				if st, ok := tv.Type.Underlying().(*types.Struct); ok && st.NumFields() >= 10 {
					lit, tgtStruct = cl, st
				}
			})
			if src == nil || lit == nil {
				c.unresolved("shape of converter %s (source parameter / target literal)", name)
				continue
			}
			srcFields := map[string]string{}
			for i := 0; i < srcStruct.NumFields(); i++ {
				if srcStruct.Field(i).Exported() {
					srcFields[lowerKey(srcStruct.Field(i).Name())] = srcStruct.Field(i).Name()
				}
			}
			// which source fields / parameters does an expression draw from (through one level of local definitions)
			var sources func(e ast.Expr, depth int) []string
			sources = func(e ast.Expr, depth int) []string {
				var out []string
				ast.Inspect(e, func(n ast.Node) bool {
					switch x := n.(type) {
					case *ast.SelectorExpr:
						if objOfIdent(info, x.X) == types.Object(src) {
							out = append(out, lowerKey(x.Sel.Name))
							return false
						}
					case *ast.Ident:
						o := info.Uses[x]
						if v, ok := o.(*types.Var); ok {
							if pv, isParam := scalarParams[lowerKey(v.Name())]; isParam && pv == v {
								out = append(out, lowerKey(v.Name()))
							} else if depth < 2 && v != src && !v.IsField() {
								if st, _, _ := defOf(f, v); st != nil {
									for _, r := range st.Rhs {
										out = append(out, sources(r, depth+1)...)
									}
								}
								// filled through a pointer: json.Unmarshal(<from source>, &v)
								walkOwn(f.Body(), func(m ast.Node) {
									call, ok := m.(*ast.CallExpr)
									if !ok {
										return
									}
									fills := false
									for _, a := range call.Args {
										if u, ok := ast.Unparen(a).(*ast.UnaryExpr); ok && u.Op == token.AND && objOfIdent(info, u.X) == types.Object(v) {
											fills = true
										}
									}
									if fills {
										for _, a := range call.Args {
											if _, isAddr := ast.Unparen(a).(*ast.UnaryExpr); !isAddr {
												out = append(out, sources(a, depth+1)...)
											}
										}
									}
								})
							}
						}
					}
					return true
				})
				return out
			}
			assigned := map[string]bool{}
			usedBy := map[string][]string{}
			for _, e := range lit.Elts {
				kv, ok := e.(*ast.KeyValueExpr)
				if !ok {
					c.undecided(rule, f, "positional literal", lit.Pos(), "converter uses a positional struct literal; fields cannot be paired by name")
					continue
				}
				tname := kv.Key.(*ast.Ident).Name
				assigned[lowerKey(tname)] = true
				srcs := sources(kv.Value, 0)
				sort.Strings(srcs)
				good := false
				for _, s := range srcs {
					if s == lowerKey(tname) {
						good = true
					}
					usedBy[s] = append(usedBy[s], tname)
				}
				c.verdictIf(good, rule, f, "field "+tname, kv.Pos(),
					"assigned from its same-named counterpart", fmt.Sprintf("target field %s is assigned from %v, not from its counterpart: attributes get crossed or lost between tape, index and API", tname, srcs))
			}
			// every target field with a counterpart must be assigned
			for i := 0; i < tgtStruct.NumFields(); i++ {
				tf := tgtStruct.Field(i)
				if !tf.Exported() || assigned[lowerKey(tf.Name())] {
					continue
				}
				_, hasField := srcFields[lowerKey(tf.Name())]
				_, hasParam := scalarParams[lowerKey(tf.Name())]
				if hasField || hasParam {
					c.bad(rule, f, "field "+tf.Name(), lit.Pos(), "target field %s has a counterpart in the source but is not assigned: the attribute is dropped in this conversion", tf.Name())
				}
			}
			// no source feeds two different targets
			for s, ts := range usedBy {
				if len(ts) > 1 {
					c.bad(rule, f, "source "+s, lit.Pos(), "source %s feeds several target fields %v", s, ts)
				}
			}
		}
	}
}

// ---- C02 preconditions ----

func ruleC02Preconditions(c *Ctx) {
	const rule = "C02.precondition-before-append"
	c.floor(rule, 11, "guarded write sites in Create, Mkdir, OpenFile, Rename, SymlinkIfPossible, Remove, Chmod, Chown, Chtimes")
	stat := c.fn("pkg/inventory", "Stat")
	list := c.fn("pkg/inventory", "List")
	g := newROGuards(c)
	if stat == nil || list == nil || g.s.getWriter == nil {
		return
	}
	fsFn := func(name string) *FuncInfo { return c.fn("pkg/fs", name) }
	isStatOf := func(info *types.Info, call *ast.CallExpr, nameMatches func(e ast.Expr) bool) bool {
		if e := c.statSubject(stat, info, call, 0); e != nil {
			return nameMatches(e)
		}
		return false
	}
	isDirOf := func(info *types.Info, e ast.Expr, v types.Object) bool {
		call, ok := ast.Unparen(e).(*ast.CallExpr)
		if !ok || len(call.Args) != 1 {
			return false
		}
		o := calleeObj(info, call)
		if !(isPkgFunc(o, "path/filepath", "Dir") || isPkgFunc(o, "path", "Dir")) {
			return false
		}
		return objOfIdent(info, call.Args[0]) == v
	}
	// appending calls inside a function: calls whose target reaches GetWriter (sinkward), resolved statically
	appendCalls := func(f *FuncInfo) []*CallSite {
		var out []*CallSite
		for _, cs := range f.calls {
			if g.s.sinkOf(cs) != "" || (cs.Target != nil && g.s.reachesSink(cs.Target)) {
				out = append(out, cs)
			}
		}
		return out
	}
	type spec struct {
		fn      string
		nameVar string // parameter holding the target name
		parent  bool   // require Stat(filepath.Dir(name)) success
		self    bool   // require Stat(name) success (either symlink flag)
		what    string
	}
	specs := []spec{
		{"(*STFS).Create", "name", true, false, "parent of the new file exists"},
		{"(*STFS).Mkdir", "name", true, false, "parent of the new directory exists"},
		{"(*STFS).Rename", "newname", true, false, "parent of the destination exists"},
		{"(*STFS).Rename", "oldname", false, true, "source exists"},
		{"(*STFS).SymlinkIfPossible", "newname", true, false, "parent of the link exists"},
		{"(*STFS).removeWithoutLocking", "name", false, true, "target exists"},
		{"(*STFS).Chmod", "name", false, true, "target exists"},
		{"(*STFS).Chown", "name", false, true, "target exists"},
		{"(*STFS).Chtimes", "name", false, true, "target exists"},
	}
	for _, sp := range specs {
		f := fsFn(sp.fn)
		if f == nil {
			continue
		}
		info := f.Pkg.TypesInfo
		nv := paramVar(f, sp.nameVar)
		if nv == nil {
			c.unresolved("parameter %s of %s", sp.nameVar, sp.fn)
			continue
		}
		fl := c.flow(f)
		calls := appendCalls(f)
		if sp.fn == "(*STFS).Create" {
			// Create delegates the append to OpenFile
			calls = nil
			for _, cs := range f.calls {
				if cs.Target != nil && cs.Target.Name == "(*STFS).OpenFile" {
					calls = append(calls, cs)
				}
			}
		}
		if len(calls) == 0 {
			c.unresolved("no tape-appending call found in %s", sp.fn)
			continue
		}
		for i, cs := range calls {
			// Rename: removeWithoutLocking(newname) is about the destination, Move about the source; check each spec on all appends
			gate := func(call *ast.CallExpr) bool {
				return isStatOf(info, call, func(e ast.Expr) bool {
					if sp.parent {
						return isDirOf(info, e, nv)
					}
					return objOfIdent(info, e) == types.Object(nv)
				})
			}
			okk, reach := c.successDominates(fl, cs.Call, gate, nil)
			if !reach {
				continue
			}
			if !okk && sp.fn == "(*STFS).Create" && len(cs.Call.Args) > 0 && objOfIdent(info, cs.Call.Args[0]) == types.Object(nv) {
				// Create hands its name to OpenFile, whose create closure establishes the parent itself - under the
				// filesystem lock, which a check made here would not be (see the obligation on that closure below)
				okk = true
			}
			tname := "call"
			if cs.Target != nil {
				tname = cs.Target.Name
			} else if se, ok := ast.Unparen(cs.Call.Fun).(*ast.SelectorExpr); ok {
				tname = se.Sel.Name
			}
			c.verdictIf(okk, rule, f, fmt.Sprintf("%s before %s#%d", sp.nameVar, tname, i+1), cs.Call.Pos(),
				"append reachable only after the lookup succeeded ("+sp.what+")", "the tape can be appended to without the precondition '"+sp.what+"' having been established: a call that must fail would already have changed the tape")
		}
	}
	// OpenFile's create closure: parent check inside the closure before mknode
	if of := fsFn("(*STFS).OpenFile"); of != nil {
		nv := paramVar(of, "name")
		n := 0
		for _, l := range c.litsIn(of) {
			info := l.Pkg.TypesInfo
			fl := c.flow(l)
			for _, cs := range l.calls {
				if cs.Target == nil || !g.s.reachesSink(cs.Target) {
					continue
				}
				n++
				okk, _ := c.successDominates(fl, cs.Call, func(call *ast.CallExpr) bool {
					return isStatOf(info, call, func(e ast.Expr) bool { return isDirOf(info, e, nv) })
				}, nil)
				c.verdictIf(okk, rule, l, fmt.Sprintf("name before %s#%d", cs.Target.Name, n), cs.Call.Pos(),
					"file creation reachable only after the parent lookup succeeded", "OpenFile can create a file without having established that its parent exists")
			}
		}
		if n == 0 {
			c.unresolved("no creating call inside OpenFile's closure")
		}
	}
	// Remove: emptiness check (inventory.List) precedes Delete for directories
	if rm := fsFn("(*STFS).removeWithoutLocking"); rm != nil {
		info := rm.Pkg.TypesInfo
		fl := c.flow(rm)
		for _, cs := range appendCalls(rm) {
			// on every path where the target is a directory, List must have succeeded: we check that a List call
			// lies on some path and that no path bypasses the directory test: Delete is dominated by the Typeflag test node
			var listCall *ast.CallExpr
			for _, x := range rm.calls {
				if x.Target == list {
					listCall = x.Call
				}
			}
			if listCall == nil {
				c.bad(rule, rm, "emptiness before Delete", cs.Call.Pos(), "Remove no longer lists the directory before deleting it: non-empty directories would be removed")
				continue
			}
			// the List call must be control-dependent only on the directory test, and its success edge must be the only way past it
			okk, _ := fl.dominatedBy(cs.Call, func(n ast.Node) bool {
				e, ok := n.(ast.Expr)
				if !ok {
					return false
				}
				found := false
				ast.Inspect(e, func(m ast.Node) bool {
					if se, ok := m.(*ast.SelectorExpr); ok && se.Sel.Name == "Typeflag" {
						found = true
					}
					return true
				})
				return found
			}, nil)
			// and the `len(hdrs) > 0` rejection exists right after List
			rejects := false
			walkOwn(rm.Body(), func(n ast.Node) {
				is, ok := n.(*ast.IfStmt)
				if !ok {
					return
				}
				be, ok := ast.Unparen(is.Cond).(*ast.BinaryExpr)
				if !ok || be.Op != token.GTR {
					return
				}
				if call, ok := ast.Unparen(be.X).(*ast.CallExpr); ok {
					if b, ok := calleeObj(info, call).(*types.Builtin); ok && b.Name() == "len" && branchReturnsError(info, is.Body) {
						rejects = true
					}
				}
			})
			c.verdictIf(okk && rejects, rule, rm, "emptiness before Delete", cs.Call.Pos(),
				"directory test and emptiness rejection precede Delete", "Delete can be reached without the directory/emptiness check")
		}
	}
	_ = cfg.KindBody
}

// statSubject returns the name expression whose existence `call` establishes when it succeeds: argument 1 of
// inventory.Stat itself, or the corresponding argument of a lookup helper - a repository function whose every
// success return (last result nil) is dominated by the success of a Stat (or of another such helper) on one parameter.
func (c *Ctx) statSubject(stat *FuncInfo, info *types.Info, call *ast.CallExpr, depth int) ast.Expr {
	fn, _ := calleeObj(info, call).(*types.Func)
	if fn == nil {
		return nil
	}
	if fn == stat.Obj {
		if len(call.Args) >= 2 {
			return call.Args[1]
		}
		return nil
	}
	if depth >= 2 || !inRepo(fn) {
		return nil
	}
	if c.statHelper == nil {
		c.statHelper = map[*types.Func]int{}
	}
	idx, seen := c.statHelper[fn]
	if !seen {
		idx = -1
		c.statHelper[fn] = -1 // recursion guard
		g := c.byObj[fn]
		sig := fn.Type().(*types.Signature)
		if g != nil && g.Body() != nil && sig.Results().Len() >= 2 && sig.Results().At(sig.Results().Len()-1).Type().String() == "error" {
			ginfo := g.Pkg.TypesInfo
			fl := c.flow(g)
			for i := 0; i < sig.Params().Len() && idx < 0; i++ {
				pv := sig.Params().At(i)
				if b, ok := pv.Type().Underlying().(*types.Basic); !ok || b.Kind() != types.String {
					continue
				}
				n, all := 0, true
				for _, ret := range returnsIn(g) {
					if len(ret.Results) != sig.Results().Len() || !isNilIdent(ginfo, ret.Results[len(ret.Results)-1]) {
						continue
					}
					n++
					okk, reach := c.successDominates(fl, ret, func(cl *ast.CallExpr) bool {
						e := c.statSubject(stat, ginfo, cl, depth+1)
						return e != nil && objOfIdent(ginfo, e) == types.Object(pv)
					}, nil)
					if reach && !okk {
						all = false
					}
				}
				if n > 0 && all {
					idx = i
				}
			}
		}
		c.statHelper[fn] = idx
	}
	if idx < 0 || idx >= len(call.Args) {
		return nil
	}
	return call.Args[idx]
}

// sizeCarriedInRecord: the one field of a header whose value also travels in a PAX record is Size - the indexer takes the
// size from STFS.UncompressedSize whenever the record is present (C03 "restore logical size" pins that), for the snapshot and
// for the record read back from the tape alike. A store to h.Size behind the snapshot therefore changes nothing the index
// can see, provided the record was stored from h.Size on every path before the snapshot and before that store, and h.Size
// was not stored in between. Returns the assignments to h.Size that qualify.
func sizeCarriedInRecord(c *Ctx, f *FuncInfo, fl *Flow, h, slice types.Object) map[ast.Node]bool {
	out := map[ast.Node]bool{}
	key := c.extObjRepo("internal/records", "STFSRecordUncompressedSize")
	if key == nil || h == nil {
		return out
	}
	info := f.Pkg.TypesInfo
	isSizeOfH := func(e ast.Expr) bool {
		se, ok := ast.Unparen(e).(*ast.SelectorExpr)
		return ok && se.Sel.Name == "Size" && objOfIdent(info, se.X) == h
	}
	isSizeStore := func(n ast.Node) bool {
		as, ok := n.(*ast.AssignStmt)
		if !ok {
			return false
		}
		for _, l := range as.Lhs {
			if isSizeOfH(l) {
				return true
			}
		}
		return false
	}
	isRecStore := func(n ast.Node) bool {
		as, ok := n.(*ast.AssignStmt)
		if !ok || len(as.Lhs) != 1 || len(as.Rhs) != 1 {
			return false
		}
		ix, ok := ast.Unparen(as.Lhs[0]).(*ast.IndexExpr)
		if !ok || !usesObjExpr(info, ix.Index, key) {
			return false
		}
		px, ok := ast.Unparen(ix.X).(*ast.SelectorExpr)
		if !ok || px.Sel.Name != "PAXRecords" || objOfIdent(info, px.X) != h {
			return false
		}
		from := false
		ast.Inspect(as.Rhs[0], func(m ast.Node) bool {
			if e, ok := m.(ast.Expr); ok && isSizeOfH(e) {
				from = true
			}
			return true
		})
		return from
	}
	var cands, snaps []ast.Node
	for _, b := range fl.G.Blocks {
		for _, n := range b.Nodes {
			if as, ok := n.(*ast.AssignStmt); ok && len(as.Lhs) == 1 && isSizeOfH(as.Lhs[0]) {
				cands = append(cands, n)
			}
			if isSnapshotAppend(info, f, n, slice, h) {
				snaps = append(snaps, n)
			}
		}
	}
	for _, n := range cands {
		if ok, _ := fl.dominatedBy(n, isRecStore, isSizeStore); !ok {
			continue
		}
		// every snapshot this store can follow was itself taken behind the record store
		all := true
		for _, sn := range snaps {
			sn := sn
			may := &Analysis{Must: false, Entry: 0, Node: func(m ast.Node, st State) State {
				if m == sn {
					return st | 1
				}
				if as, ok := m.(*ast.AssignStmt); ok {
					for _, l := range as.Lhs {
						if id, ok := l.(*ast.Ident); ok && (info.Defs[id] == h || info.Uses[id] == h) {
							return st &^ 1 // h names another header from here on (the next member of the loop)
						}
					}
				}
				return st
			}}
			fl.solve(may)
			if st, reach := fl.before(may, n); !reach || st&1 == 0 {
				continue // no path leads from this snapshot to the store
			}
			if ok, _ := fl.dominatedBy(sn, isRecStore, isSizeStore); !ok {
				all = false
			}
		}
		if all {
			out[n] = true
		}
	}
	return out
}
