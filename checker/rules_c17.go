package main

import (
	"fmt"
	"go/ast"
	"go/token"
	"go/types"
	"sort"
	"strconv"
	"strings"

	"golang.org/x/tools/go/cfg"
)

func init() {
	register(&Property{
		ID:          "C17",
		Explanation: "Name normalisation discipline, decided for every query of the index store: (sanitise-before-query) in every exported method of persisters.MetadataPersister that takes a caller-supplied name (name, linkname, oldName, newName) each SQL-builder / generated-model call using that name is dominated by `x = getSanitizedPath(ctx, x)`; for header-valued arguments the row variable's Name is stored from getSanitizedPath before any model call, the single frozen exception being UpsertHeader on the initializing path (the root's own spelling is stored verbatim); (root-shape-agreement) every spelling pathext.IsRoot treats as root is a shape the normaliser's chain handles, and every arm of cache.NewCacheFilesystem decides between the plain and the base-path view through pathext.IsRoot.",
		NotDecided:  "That a given foreign archive lists and reads back correctly, the behaviour of the five root-inference branches, PAX long names, GNU/ustar format differences.",
		Assumptions: []string{"getSanitizedPath is the only normaliser"},
		Rules:       []func(*Ctx){ruleC17Sanitise, ruleC17RootShapes},
	})
}

func isSQLBuilderCall(o types.Object) bool {
	f, ok := o.(*types.Func)
	if !ok || f.Pkg() == nil {
		return false
	}
	p := f.Pkg().Path()
	return p == modelsPath || p == queriesPath || strings.HasSuffix(p, "/queries/qm")
}

func ruleC17Sanitise(c *Ctx) {
	const rule = "C17.sanitise-before-query"
	c.floor(rule, 10, "query uses of caller-supplied names in pkg/persisters")
	san := c.fn("pkg/persisters", "(*MetadataPersister).getSanitizedPath")
	if san == nil {
		return
	}
	nameLike := map[string]bool{"name": true, "linkname": true, "oldName": true, "newName": true, "oldname": true, "newname": true}
	total := 0
	for _, f := range exportedMethods(c, "pkg/persisters", "MetadataPersister") {
		info := f.Pkg.TypesInfo
		fl := c.flow(f)
		// (a) string parameters
		for _, pv := range paramsWhere(f, func(v *types.Var) bool {
			b, ok := v.Type().Underlying().(*types.Basic)
			return ok && b.Kind() == types.String && nameLike[v.Name()]
		}) {
			// sanitisedLhs: for an assignment whose right side is one call to the normaliser (or to a helper that only
			// returns normalised parameters), the source variable of each left-hand side that receives a normalised value
			sanitisedLhs := func(as *ast.AssignStmt) map[int]types.Object {
				if len(as.Rhs) != 1 {
					return nil
				}
				call, ok := ast.Unparen(as.Rhs[0]).(*ast.CallExpr)
				if !ok {
					return nil
				}
				fn, _ := calleeObj(info, call).(*types.Func)
				sum := c.sanitiserSummary(san, fn, 0)
				if sum == nil || len(sum) != len(as.Lhs) {
					return nil
				}
				out := map[int]types.Object{}
				for j, pi := range sum {
					if pi >= 0 && pi < len(call.Args) {
						if src := objOfIdent(info, call.Args[pi]); src != nil {
							out[j] = src
						}
					}
				}
				return out
			}
			// clean locals: `indexedName := sanitise(name)`; a query use of one is a discharged obligation of name
			clean := map[types.Object]bool{}
			walkOwn(f.Body(), func(n ast.Node) {
				if as, ok := n.(*ast.AssignStmt); ok {
					for j, src := range sanitisedLhs(as) {
						if o := objOfIdent(info, as.Lhs[j]); src == types.Object(pv) && o != nil && o != types.Object(pv) && as.Tok == token.DEFINE {
							clean[o] = true
						}
					}
				}
			})
			isSanitise := func(n ast.Node) bool {
				as, ok := n.(*ast.AssignStmt)
				if !ok {
					return false
				}
				for j, src := range sanitisedLhs(as) {
					if src == types.Object(pv) && objOfIdent(info, as.Lhs[j]) == types.Object(pv) {
						return true
					}
				}
				// `name = cleanLocal` (also inside a parallel assignment), cleanLocal holding sanitise(name)
				if len(as.Lhs) == len(as.Rhs) {
					for j, l := range as.Lhs {
						if objOfIdent(info, l) == types.Object(pv) {
							if o := objOfIdent(info, as.Rhs[j]); o != nil && clean[o] {
								return true
							}
						}
					}
				}
				return false
			}
			// derived locals (prefix := strings.TrimSuffix(name, "/") + "/") carry the taint
			derived := map[types.Object]bool{pv: true}
			for changed := true; changed; {
				changed = false
				walkOwn(f.Body(), func(n ast.Node) {
					as, ok := n.(*ast.AssignStmt)
					if !ok {
						return
					}
					sl := sanitisedLhs(as)
					for i, l := range as.Lhs {
						if _, isSan := sl[i]; isSan {
							continue
						}
						if i >= len(as.Rhs) && len(as.Rhs) != 1 {
							continue
						}
						r := as.Rhs[0]
						if len(as.Rhs) == len(as.Lhs) {
							r = as.Rhs[i]
						}
						o := objOfIdent(info, l)
						if o == nil || derived[o] {
							continue
						}
						if _, isStr := o.Type().Underlying().(*types.Basic); !isStr {
							continue
						}
						for d := range derived {
							if usesObj(info, r, d) {
								derived[o] = true
								changed = true
								break
							}
						}
					}
				})
			}
			k := 0
			check := func(g *FuncInfo, gfl *Flow, inLit bool) {
				for _, cs := range g.calls {
					if !isSQLBuilderCall(cs.Callee) {
						continue
					}
					uses := false
					for _, a := range cs.Call.Args {
						for d := range derived {
							if usesObj(info, a, d) {
								uses = true
							}
						}
					}
					if !uses {
						usesClean := false
						for _, a := range cs.Call.Args {
							for d := range clean {
								if usesObj(info, a, d) {
									usesClean = true
								}
							}
						}
						if usesClean {
							k++
							total++
							c.ok(rule, f, fmt.Sprintf("%s query-use#%d", pv.Name(), k), cs.Call.Pos(), true, "the query uses a local that holds getSanitizedPath("+pv.Name()+")")
						}
						continue
					}
					// only the outermost builder call of an expression is an obligation
					k++
					total++
					var okk, reach bool
					if inLit {
						// closure defined after the sanitising assignment: the literal itself must be dominated
						okk, reach = fl.dominatedBy(g.Lit, isSanitise, nil)
					} else {
						okk, reach = gfl.dominatedBy(cs.Call, isSanitise, nil)
					}
					if !reach {
						continue
					}
					c.verdictIf(okk, rule, f, fmt.Sprintf("%s query-use#%d", pv.Name(), k), cs.Call.Pos(),
						"the name reaches SQL only after getSanitizedPath normalised it", "caller-supplied "+pv.Name()+" reaches a query ("+exprString(cs.Call.Fun)+") without passing getSanitizedPath: '/d/f', 'd/f' and './d/f' would address different rows")
				}
			}
			check(f, fl, false)
			for _, l := range c.litsIn(f) {
				check(l, nil, true)
			}
		}
		// (b) header-valued parameter: the row variable's Name comes from getSanitizedPath before any model call
		for _, pv := range paramsWhere(f, func(v *types.Var) bool {
			p, ok := v.Type().(*types.Pointer)
			if !ok {
				return false
			}
			n, ok := p.Elem().(*types.Named)
			return ok && n.Obj().Name() == "Header"
		}) {
			_ = pv
			initializing := roleVar(f, "initializing")
			isStore := func(n ast.Node) bool {
				as, ok := n.(*ast.AssignStmt)
				if !ok || len(as.Lhs) != 1 || len(as.Rhs) != 1 {
					return false
				}
				se, ok := ast.Unparen(as.Lhs[0]).(*ast.SelectorExpr)
				if !ok || se.Sel.Name != "Name" {
					return false
				}
				call, ok := ast.Unparen(as.Rhs[0]).(*ast.CallExpr)
				return ok && calleeObj(info, call) == types.Object(san.Obj)
			}
			an := &Analysis{Must: true, Entry: 0,
				Node: func(n ast.Node, s State) State {
					if isStore(n) {
						return s | 1
					}
					return s
				},
				Edge: func(b *cfg.Block, i int, s State) State {
					for _, ft := range fl.edgeFacts(b, i) {
						if initializing != nil && objOfIdent(info, ft.E) == types.Object(initializing) && ft.Pos {
							return s | 1 // frozen exception: the root's own spelling is stored verbatim while initializing
						}
					}
					return s
				}}
			fl.solve(an)
			k := 0
			for _, cs := range f.calls {
				fn, ok := cs.Callee.(*types.Func)
				if !ok || fn.Pkg() == nil || fn.Pkg().Path() != modelsPath {
					continue
				}
				if fn.Name() == "Headers" {
					continue // builder; its terminal One/All call is the obligation
				}
				k++
				total++
				s, reach := fl.before(an, cs.Call)
				if !reach {
					continue
				}
				c.verdictIf(s&1 != 0, rule, f, fmt.Sprintf("row model-call#%d %s", k, fn.Name()), cs.Call.Pos(),
					"row name normalised before the model call (or initializing)", "the row reaches "+fn.Name()+" with a name that did not pass getSanitizedPath")
			}
		}
	}
	if total < half(10) {
		c.unresolved("only %d query uses of caller-supplied names found (expected >= 10)", total)
	}
}

// sanitiserSummary: for the normaliser itself and for helpers that do nothing with their string parameters but return
// their normalised values, the parameter index each result is the normalisation of (-1: not a normalised parameter).
func (c *Ctx) sanitiserSummary(san *FuncInfo, fn *types.Func, depth int) []int {
	if fn == nil || depth > 2 {
		return nil
	}
	if fn == san.Obj {
		return []int{1}
	}
	g := c.byObj[fn]
	if g == nil || g.Body() == nil || !inRepo(fn) {
		return nil
	}
	sig := fn.Type().(*types.Signature)
	if sig.Results().Len() == 0 {
		return nil
	}
	info := g.Pkg.TypesInfo
	paramIdx := func(o types.Object) int {
		for i := 0; i < sig.Params().Len(); i++ {
			if types.Object(sig.Params().At(i)) == o {
				return i
			}
		}
		return -1
	}
	// the normalised parameter an expression denotes
	var normOf func(e ast.Expr, d int) int
	normOf = func(e ast.Expr, d int) int {
		e = ast.Unparen(e)
		if call, ok := e.(*ast.CallExpr); ok {
			cf, _ := calleeObj(info, call).(*types.Func)
			sum := c.sanitiserSummary(san, cf, depth+1)
			if len(sum) == 1 && sum[0] >= 0 && sum[0] < len(call.Args) {
				return paramIdx(objOfIdent(info, call.Args[sum[0]]))
			}
			return -1
		}
		if id, ok := e.(*ast.Ident); ok && d < 2 {
			if o := info.Uses[id]; o != nil && paramIdx(o) < 0 {
				if _, dcall, idx := defOf(g, o); dcall != nil && idx == 0 {
					return normOf(dcall, d+1)
				}
			}
		}
		return -1
	}
	var out []int
	rets := returnsIn(g)
	if len(rets) == 0 {
		return nil
	}
	for _, ret := range rets {
		if len(ret.Results) != sig.Results().Len() {
			return nil
		}
		cur := make([]int, len(ret.Results))
		for j, r := range ret.Results {
			cur[j] = normOf(r, 0)
		}
		if out == nil {
			out = cur
			continue
		}
		for j := range out {
			if out[j] != cur[j] {
				out[j] = -1
			}
		}
	}
	any := false
	for _, v := range out {
		if v >= 0 {
			any = true
		}
	}
	if !any {
		return nil
	}
	return out
}

func stringLitsComparedWith(info *types.Info, body ast.Node, pred func(e ast.Expr) bool) map[string]bool {
	out := map[string]bool{}
	ast.Inspect(body, func(n ast.Node) bool {
		// `switch x { case "lit": ... }` compares x with each case literal
		if sw, ok := n.(*ast.SwitchStmt); ok && sw.Tag != nil && pred(sw.Tag) {
			for _, cc := range sw.Body.List {
				for _, e := range cc.(*ast.CaseClause).List {
					if lit, ok := ast.Unparen(e).(*ast.BasicLit); ok && lit.Kind == token.STRING {
						if s, err := strconv.Unquote(lit.Value); err == nil {
							out[s] = true
						}
					}
				}
			}
		}
		// `_, ok := table[x]` against a package-level map literal compares x with each of its keys
		if ix, ok := n.(*ast.IndexExpr); ok && pred(ix.Index) {
			if mv, ok := objOfIdent(info, ix.X).(*types.Var); ok && mv.Pkg() != nil && mv.Parent() == mv.Pkg().Scope() {
				if lit := packageVarLiteral(mv); lit != nil {
					for _, el := range lit.Elts {
						if kv, ok := el.(*ast.KeyValueExpr); ok {
							if bl, ok := ast.Unparen(kv.Key).(*ast.BasicLit); ok && bl.Kind == token.STRING {
								if s, err := strconv.Unquote(bl.Value); err == nil {
									out[s] = true
								}
							}
						}
					}
				}
			}
		}
		be, ok := n.(*ast.BinaryExpr)
		if !ok || (be.Op != token.EQL && be.Op != token.NEQ) {
			return true
		}
		for _, pair := range [][2]ast.Expr{{be.X, be.Y}, {be.Y, be.X}} {
			if lit, ok := ast.Unparen(pair[1]).(*ast.BasicLit); ok && lit.Kind == token.STRING && pred(pair[0]) {
				if s, err := strconv.Unquote(lit.Value); err == nil {
					out[s] = true
				}
			}
		}
		return true
	})
	return out
}

func ruleC17RootShapes(c *Ctx) {
	const rule = "C17.root-shape-agreement"
	c.floor(rule, 6, "root spellings of pathext.IsRoot and the arms of NewCacheFilesystem")
	isRoot := c.fn("internal/pathext", "IsRoot")
	san := c.fn("pkg/persisters", "(*MetadataPersister).getSanitizedPath")
	cacheFS := c.fn("pkg/cache", "NewCacheFilesystem")
	rootField := c.field("pkg/persisters", "MetadataPersister", "root")
	if isRoot == nil || san == nil || cacheFS == nil || rootField == nil {
		return
	}
	pathParam := paramVar(isRoot, "path")
	shapes := stringLitsComparedWith(isRoot.Pkg.TypesInfo, isRoot.Body(), func(e ast.Expr) bool {
		return objOfIdent(isRoot.Pkg.TypesInfo, e) == types.Object(pathParam)
	})
	handled := stringLitsComparedWith(san.Pkg.TypesInfo, san.Body(), func(e ast.Expr) bool {
		return selField(san.Pkg.TypesInfo, e) == rootField
	})
	// prefix tests count as handling the shapes they start with
	sinfo := san.Pkg.TypesInfo
	var prefixes []string
	ast.Inspect(san.Body(), func(n ast.Node) bool {
		call, ok := n.(*ast.CallExpr)
		if ok && isPkgFunc(calleeObj(sinfo, call), "strings", "HasPrefix") && len(call.Args) == 2 && selField(sinfo, call.Args[0]) == rootField {
			if s, ok := constString(sinfo, call.Args[1]); ok {
				prefixes = append(prefixes, s)
			}
		}
		return true
	})
	var names []string
	for s := range shapes {
		names = append(names, s)
	}
	sort.Strings(names)
	if len(names) < 4 {
		c.unresolved("pathext.IsRoot compares its argument with %d literals (expected 4)", len(names))
	}
	for _, s := range names {
		// a prefix test (`HasPrefix(p.root, "/")`) also holds for longer roots ("/data"), so it does not single out the
		// root spelled exactly that way: only an equality (or case label) counts
		ok := handled[s]
		_ = prefixes
		c.verdictIf(ok, rule, san, fmt.Sprintf("root shape %q", s), san.Decl.Pos(),
			"the normaliser has a branch for this root spelling", fmt.Sprintf("pathext.IsRoot treats %q as root but getSanitizedPath has no branch for a root spelled that way", s))
	}
	// NewCacheFilesystem: every non-default arm consults IsRoot(root, ...) before choosing the view
	info := cacheFS.Pkg.TypesInfo
	ct := paramVar(cacheFS, "cacheType")
	rootParam := paramVar(cacheFS, "root")
	for _, t := range c.switchesOn(cacheFS, ct) {
		for _, arm := range t.Arms {
			if arm.Default || len(arm.Labels) == 0 || arm.Labels[0] == nil {
				continue
			}
			consults, base := false, false
			for _, st := range arm.Body {
				ast.Inspect(st, func(m ast.Node) bool {
					call, ok := m.(*ast.CallExpr)
					if !ok {
						return true
					}
					if calleeObj(info, call) == types.Object(isRoot.Obj) && len(call.Args) > 0 && objOfIdent(info, call.Args[0]) == types.Object(rootParam) {
						consults = true
					}
					if fn, ok := calleeObj(info, call).(*types.Func); ok && fn.Name() == "NewBasePathFs" && len(call.Args) == 2 && objOfIdent(info, call.Args[1]) == types.Object(rootParam) {
						base = true
					}
					return true
				})
			}
			// ... and the base-path view is chosen exactly when the root is not a root spelling: the wrapping call is
			// conditional on `pathext.IsRoot(root, ..)` being false and on nothing else
			exact := true
			for _, st := range arm.Body {
				ast.Inspect(st, func(m ast.Node) bool {
					call, ok := m.(*ast.CallExpr)
					if !ok {
						return true
					}
					fn, ok := calleeObj(info, call).(*types.Func)
					if !ok || fn.Name() != "NewBasePathFs" || len(call.Args) != 2 || objOfIdent(info, call.Args[1]) != types.Object(rootParam) {
						return true
					}
					seen := false
					for _, cl := range enclosingCondsFlow(info, cacheFS.Body(), call) {
						if cl.e.Pos() < st.Pos() && !containsNode(st, cl.e) {
							// conditions outside the arm (none today)
						}
						e, pos := ast.Unparen(cl.e), cl.pos
						for {
							if u, ok := e.(*ast.UnaryExpr); ok && u.Op == token.NOT {
								e, pos = ast.Unparen(u.X), !pos
								continue
							}
							break
						}
						if c2, ok := e.(*ast.CallExpr); ok && calleeObj(info, c2) == types.Object(isRoot.Obj) && len(c2.Args) > 0 && objOfIdent(info, c2.Args[0]) == types.Object(rootParam) && !pos {
							seen = true
							continue
						}
						exact = false
					}
					if !seen {
						exact = false
					}
					return true
				})
			}
			if consults && base && !exact {
				c.bad(rule, cacheFS, "arm "+arm.Labels[0].Name()+" exact", arm.Clauses[0].Pos(), "the base-path view of this cache type is not chosen exactly when pathext.IsRoot(root) is false (a further condition, e.g. on the root being absolute, takes part): archives whose members live under a named absolute directory are then served un-rebased, and every path below the root resolves to nothing")
			} else if consults && base {
				c.ok(rule, cacheFS, "arm "+arm.Labels[0].Name()+" exact", arm.Clauses[0].Pos(), true, "the base-path view is chosen exactly when the root is not a root spelling")
			}
			c.verdictIf(consults && base, rule, cacheFS, "arm "+arm.Labels[0].Name(), arm.Clauses[0].Pos(),
				"chooses between the plain view and a base-path view at root via pathext.IsRoot", "this cache type does not wrap a non-root archive root in a base-path view (or does not consult pathext.IsRoot): members of archives rooted at a named directory would be unreachable")
		}
	}
}

// pkgLiteralIndex: package-level variables and their composite-literal initialisers, filled while loading.
var pkgLiteralIndex = map[*types.Var]*ast.CompositeLit{}

// packageVarLiteral returns the composite literal a package-level variable is initialised with (nil if none).
func packageVarLiteral(v *types.Var) *ast.CompositeLit { return pkgLiteralIndex[v] }
