package main

import (
	"fmt"
	"go/ast"
	"go/token"
	"go/types"
	"strings"

	"golang.org/x/tools/go/cfg"
)

func init() {
	register(&Property{
		ID:          "C08",
		Explanation: "Fail-closed control flow of signature checking, decided on every path: (fail-closed) in signature.VerifyString, Verify (and the closure it returns) and VerifyHeader, every return whose error operand is the nil literal and that is not inside the NoneKey arm lies only on paths that crossed the success edge of a verification primitive of the crypto modules (a Verify* function/method of aead.dev/minisign or go-crypto/openpgp, or the repo's own VerifyString) - a must-dataflow over go/cfg; every non-None arm contains such a primitive; (verify-before-use) in recovery.Index the verifyHeader callback's success edge dominates indexHeader and follows decryptHeader, in Fetch/Query signature.VerifyHeader's success edge dominates every use of the header, at every call site of recovery.Index the verifier argument either fails closed around signature.VerifyHeader or the sibling decrypt callback overwrites the header wholesale from the operation's own slice, VerifyHeader replaces the outer header only after VerifyString succeeded, and Fetch checks the content verifier after the copy.",
		NotDecided:  "Unforgeability and what the crypto libraries accept; bytes already written to the destination before a failing content verification (streaming design, the error is returned); tar parsing of hostile bytes.",
		Assumptions: []string{"functions named Verify* in aead.dev/minisign and ProtonMail/go-crypto are sound verifiers", "callbacks passed to recovery.Index are function literals at all call sites (checked)"},
		Rules:       []func(*Ctx){ruleC08FailClosed, ruleC08VerifyBeforeUse},
	})
}

// isVerifyPrimitive: a Verify* function or method of the two crypto modules.
func isVerifyPrimitive(o types.Object) bool {
	f, ok := o.(*types.Func)
	if !ok || f.Pkg() == nil || !strings.HasPrefix(f.Name(), "Verify") {
		return false
	}
	p := f.Pkg().Path()
	return p == "aead.dev/minisign" || strings.HasPrefix(p, "github.com/ProtonMail/go-crypto/openpgp")
}

type failClosed struct {
	c      *Ctx
	rule   string
	isPrim func(o types.Object) bool
	exempt func(f *FuncInfo, ret *ast.ReturnStmt) bool
	prefix string
}

func (fc *failClosed) primIn(info *types.Info, n ast.Node) bool {
	found := false
	ast.Inspect(n, func(m ast.Node) bool {
		if _, ok := m.(*ast.FuncLit); ok {
			return false
		}
		if call, ok := m.(*ast.CallExpr); ok && fc.isPrim(calleeObj(info, call)) {
			found = true
		}
		return !found
	})
	return found
}

// successEdge returns a State transformer that sets bit 1 on edges proving a primitive succeeded.
func (fc *failClosed) edgeFn(fl *Flow) func(b *cfg.Block, i int, s State) State {
	info := fl.info
	return func(b *cfg.Block, i int, s State) State {
		for _, f := range fl.edgeFacts(b, i) {
			if f.Pos && fc.primIn(info, f.E) {
				if _, isBin := ast.Unparen(f.E).(*ast.BinaryExpr); !isBin {
					return s | 1 // `if prim(...) {` true edge
				}
			}
			be, ok := ast.Unparen(f.E).(*ast.BinaryExpr)
			if !ok {
				continue
			}
			var x ast.Expr
			if isNilIdent(info, be.Y) {
				x = be.X
			} else if isNilIdent(info, be.X) {
				x = be.Y
			}
			if x == nil {
				continue
			}
			success := be.Op == token.EQL && f.Pos || be.Op == token.NEQ && !f.Pos
			if !success {
				continue
			}
			obj := objOfIdent(info, x)
			if obj == nil {
				continue
			}
			// the error variable must have been assigned from a primitive call in this very block
			nodes := fl.condNodes(b)
			for k := len(nodes) - 1; k >= 0; k-- {
				as, ok := nodes[k].(*ast.AssignStmt)
				if !ok {
					continue
				}
				assigns := false
				for _, l := range as.Lhs {
					if objOfIdent(info, l) == obj {
						assigns = true
					}
				}
				if !assigns {
					continue
				}
				if len(as.Rhs) == 1 && fc.primIn(info, as.Rhs[0]) {
					return s | 1
				}
				break // most recent assignment is something else
			}
		}
		return s
	}
}

// check examines the returns of f (a declaration or literal) and records one obligation per nil-returning return.
func (fc *failClosed) check(f *FuncInfo, label string) {
	c := fc.c
	info := f.Pkg.TypesInfo
	fl := c.flow(f)
	an := &Analysis{Must: true, Entry: 0, Node: func(n ast.Node, s State) State { return s }, Edge: fc.edgeFn(fl)}
	fl.solve(an)
	rets := returnsIn(f)
	// a returned error VARIABLE can be nil too: `var err error; for ... { continue }; return err`. Such a return is
	// accepted only if a primitive succeeded, the variable is known to be non-nil here, or it holds a primitive's result.
	nv := 0
	for _, ret := range rets {
		if len(ret.Results) == 0 || returnsNil(info, ret) {
			continue
		}
		last := ast.Unparen(ret.Results[len(ret.Results)-1])
		id, ok := last.(*ast.Ident)
		if !ok {
			continue
		}
		v, ok := info.Uses[id].(*types.Var)
		if !ok || v.Type().String() != "error" || v.Pkg() == nil || v.Parent() == v.Pkg().Scope() {
			continue
		}
		if fc.exempt != nil && fc.exempt(f, ret) {
			continue
		}
		const verified, nonNil, fromPrim = 1, 2, 4
		base := fc.edgeFn(fl)
		av := &Analysis{Must: true, Entry: 0,
			Node: func(n ast.Node, st State) State {
				if as, ok := n.(*ast.AssignStmt); ok {
					for _, l := range as.Lhs {
						if objOfIdent(info, l) == types.Object(v) {
							st &^= nonNil | fromPrim
							if len(as.Rhs) == 1 && fc.primIn(info, as.Rhs[0]) {
								st |= fromPrim
							}
						}
					}
				}
				return st
			},
			Edge: func(b *cfg.Block, i int, st State) State {
				if base(b, i, 0)&1 != 0 {
					st |= verified
				}
				for _, ft := range fl.edgeFacts(b, i) {
					be, ok := ast.Unparen(ft.E).(*ast.BinaryExpr)
					if !ok {
						continue
					}
					var x ast.Expr
					if isNilIdent(info, be.Y) {
						x = be.X
					} else if isNilIdent(info, be.X) {
						x = be.Y
					}
					if x != nil && objOfIdent(info, x) == types.Object(v) && (be.Op == token.NEQ && ft.Pos || be.Op == token.EQL && !ft.Pos) {
						st |= nonNil
					}
				}
				return st
			}}
		fl.solve(av)
		st, reach := fl.before(av, ret)
		if !reach {
			continue
		}
		nv++
		c.verdictIf(st&(verified|nonNil|fromPrim) != 0, fc.rule, f, fmt.Sprintf("%sreturn-var#%d", label, nv), ret.Pos(),
			"the returned error is known to be non-nil here, or a verification primitive succeeded / produced it", "the returned error variable can still be nil on this path although no signature verification succeeded (e.g. a loop over candidate keys that skipped every one): a signature by an unknown key is accepted")
	}
	for i, ret := range rets {
		if len(ret.Results) == 0 || !returnsNil(info, ret) {
			continue
		}
		construct := fmt.Sprintf("%sreturn-nil#%d", label, i+1)
		if fc.exempt != nil && fc.exempt(f, ret) {
			c.ok(fc.rule, f, construct, ret.Pos(), false, "signature checking disabled on this path (None format)")
			continue
		}
		// does it hand out a verifying closure?
		delegated := false
		for _, r := range ret.Results {
			if lit, ok := ast.Unparen(r).(*ast.FuncLit); ok {
				li := c.byLit[lit]
				if li != nil && fc.primIn(li.Pkg.TypesInfo, lit.Body) {
					delegated = true
					fc.check(li, label+"closure.")
				}
			}
		}
		if delegated {
			c.ok(fc.rule, f, construct, ret.Pos(), true, "returns a closure that performs the verification (checked separately)")
			continue
		}
		s, reach := fl.before(an, ret)
		if !reach {
			continue
		}
		if s&1 != 0 {
			c.ok(fc.rule, f, construct, ret.Pos(), true, "reachable only across the success edge of a verification primitive")
		} else {
			c.bad(fc.rule, f, construct, ret.Pos(), "reports success although no signature verification succeeded on this path (e.g. after a failed type assertion, decode or parse): a forged or missing signature is accepted")
		}
	}
}

func ruleC08FailClosed(c *Ctx) { ruleFailClosedAs("C08.fail-closed")(c) }

func ruleFailClosedAs(rule string) func(*Ctx) {
	return func(c *Ctx) {
		c.floor(rule, 8, "nil-error returns and non-None arms of VerifyString / Verify / VerifyHeader")
		none := c.constObj("pkg/config", "NoneKey")
		sigFormats := c.knownFormats("KnownSignatureFormats")
		verifyString := c.fn("pkg/signature", "VerifyString")
		verify := c.fn("pkg/signature", "Verify")
		verifyHeader := c.fn("pkg/signature", "VerifyHeader")
		if none == nil || verifyString == nil || verify == nil || verifyHeader == nil {
			return
		}
		for _, f := range []*FuncInfo{verifyString, verify, verifyHeader} {
			fmtParam := paramVar(f, "signatureFormat")
			if fmtParam == nil {
				c.unresolved("parameter signatureFormat of %s", f.Name)
				continue
			}
			info := f.Pkg.TypesInfo
			tables := c.switchesOn(f, fmtParam)
			fl := c.flow(f)
			exempt := func(g *FuncInfo, ret *ast.ReturnStmt) bool {
				if g != f {
					return false
				}
				for _, t := range tables {
					for _, arm := range t.Arms {
						for _, cc := range arm.Clauses {
							if ret.Pos() >= cc.Pos() && ret.End() <= cc.End() {
								onlyNone := len(arm.Labels) > 0
								for _, l := range arm.Labels {
									if l != none {
										onlyNone = false
									}
								}
								return onlyNone
							}
						}
					}
				}
				// if-form: `if signatureFormat == config.NoneKey { return nil }`
				okk, reach := fl.guardedBy(ret, func(ft Fact) bool {
					be, ok := ast.Unparen(ft.E).(*ast.BinaryExpr)
					if !ok || be.Op != token.EQL || !ft.Pos {
						return false
					}
					return objOfIdent(info, be.X) == types.Object(fmtParam) && constOf(info, be.Y) == none ||
						objOfIdent(info, be.Y) == types.Object(fmtParam) && constOf(info, be.X) == none
				}, nil)
				return reach && okk
			}
			isPrim := func(o types.Object) bool {
				if isVerifyPrimitive(o) {
					return true
				}
				// VerifyHeader delegates to the repository's own VerifyString
				return f == verifyHeader && verifyString.Obj != nil && o == types.Object(verifyString.Obj)
			}
			fc := &failClosed{c: c, rule: rule, isPrim: isPrim, exempt: exempt}
			fc.check(f, "")
			// every non-None arm contains a primitive (directly or in the closure it returns)
			for _, t := range tables {
				for _, k := range sigFormats {
					if k == none {
						continue
					}
					arm := t.armFor(k)
					construct := "arm " + k.Name()
					if arm == nil {
						c.bad(rule, f, construct, t.At, "no arm for signature format %s", k.Name())
						continue
					}
					has := false
					for _, st := range arm.Body {
						ast.Inspect(st, func(m ast.Node) bool {
							if call, ok := m.(*ast.CallExpr); ok && isVerifyPrimitive(calleeObj(info, call)) {
								has = true
							}
							return !has
						})
					}
					c.verdictIf(has, rule, f, construct, arm.Clauses[0].Pos(), "arm calls a verification primitive of the crypto module", "arm for "+k.Name()+" never calls a verification primitive")
				}
			}
			if f != verifyHeader && len(tables) == 0 {
				c.unresolved("no switch over signatureFormat in %s", f.Name)
			}
		}
	}
}

// successDominates: every path from entry to target crosses the success edge (err == nil) of a call matched by
// isGate whose error result is tested, with no kill node in between. Gates returning no error just need to be passed.
func (c *Ctx) successDominates(fl *Flow, target ast.Node, isGate func(call *ast.CallExpr) bool, kill func(n ast.Node) bool) (bool, bool) {
	info := fl.info
	fc := &failClosed{c: c, isPrim: nil}
	_ = fc
	gateIn := func(n ast.Node) bool {
		found := false
		ast.Inspect(n, func(m ast.Node) bool {
			if _, ok := m.(*ast.FuncLit); ok {
				return false
			}
			if call, ok := m.(*ast.CallExpr); ok && isGate(call) {
				found = true
			}
			return !found
		})
		return found
	}
	an := &Analysis{Must: true, Entry: 0,
		Node: func(n ast.Node, s State) State {
			if containsNode(n, target) {
				return s
			}
			if kill != nil && kill(n) {
				s &^= 1
			}
			return s
		},
		Edge: func(b *cfg.Block, i int, s State) State {
			for _, f := range fl.edgeFacts(b, i) {
				be, ok := ast.Unparen(f.E).(*ast.BinaryExpr)
				if !ok {
					continue
				}
				var x ast.Expr
				if isNilIdent(info, be.Y) {
					x = be.X
				} else if isNilIdent(info, be.X) {
					x = be.Y
				}
				if x == nil {
					continue
				}
				if !(be.Op == token.EQL && f.Pos || be.Op == token.NEQ && !f.Pos) {
					continue
				}
				obj := objOfIdent(info, x)
				if obj == nil {
					continue
				}
				nodes := fl.condNodes(b)
				for k := len(nodes) - 1; k >= 0; k-- {
					as, ok := nodes[k].(*ast.AssignStmt)
					if !ok {
						continue
					}
					assigns := false
					for _, l := range as.Lhs {
						if objOfIdent(info, l) == obj {
							assigns = true
						}
					}
					if !assigns {
						continue
					}
					if len(as.Rhs) == 1 && gateIn(as.Rhs[0]) {
						return s | 1
					}
					break
				}
			}
			return s
		}}
	fl.solve(an)
	s, reach := fl.before(an, target)
	return reach && s&1 != 0, reach
}

func isCallTo(info *types.Info, call *ast.CallExpr, o types.Object) bool {
	return o != nil && calleeObj(info, call) == o
}

func ruleC08VerifyBeforeUse(c *Ctx) {
	const rule = "C08.verify-before-use"
	c.floor(rule, 16, "indexHeader calls in Index, header uses in Fetch/Query, call sites of recovery.Index, VerifyHeader replacement, Fetch content verification")
	index := c.fn("pkg/recovery", "Index")
	indexHeader := c.fn("pkg/recovery", "indexHeader")
	fetch := c.fn("pkg/recovery", "Fetch")
	query := c.fn("pkg/recovery", "Query")
	sigVerifyHeader := c.fn("pkg/signature", "VerifyHeader")
	sigVerify := c.fn("pkg/signature", "Verify")
	sigVerifyString := c.fn("pkg/signature", "VerifyString")
	decHeader := c.fn("pkg/encryption", "DecryptHeader")
	if index == nil || indexHeader == nil || fetch == nil || query == nil || sigVerifyHeader == nil || sigVerify == nil || decHeader == nil || sigVerifyString == nil {
		return
	}
	// (i) Index: decryptHeader -> verifyHeader -> indexHeader, each gate's success edge dominating the next
	{
		info := index.Pkg.TypesInfo
		vparam, dparam := paramVar(index, "verifyHeader"), paramVar(index, "decryptHeader")
		if vparam == nil || dparam == nil {
			c.unresolved("callback parameters decryptHeader/verifyHeader of recovery.Index")
		} else {
			fl := c.flow(index)
			n := 0
			for _, cs := range index.calls {
				if cs.Target != indexHeader {
					continue
				}
				n++
				isV := func(call *ast.CallExpr) bool { return calleeObj(info, call) == types.Object(vparam) }
				isD := func(call *ast.CallExpr) bool { return calleeObj(info, call) == types.Object(dparam) }
				okV, _ := c.successDominates(fl, cs.Call, isV, nil)
				c.verdictIf(okV, rule, index, fmt.Sprintf("indexHeader#%d after verifyHeader", n), cs.Call.Pos(),
					"reachable only across the success edge of the verifyHeader callback", "a header can be applied to the index without a successful verifyHeader call on this path")
				// the verify call itself is preceded by decrypt
				var vcall *ast.CallExpr
				for _, cs2 := range index.calls {
					if isV(cs2.Call) && cs2.Call.Pos() < cs.Call.Pos() {
						vcall = cs2.Call
					}
				}
				if vcall != nil {
					okD, _ := c.successDominates(fl, vcall, isD, nil)
					c.verdictIf(okD, rule, index, fmt.Sprintf("verifyHeader#%d after decryptHeader", n), vcall.Pos(),
						"verification runs on the decrypted header", "verifyHeader can run before/without decryptHeader succeeding")
					// same header variable handed to all three
					a0 := func(call *ast.CallExpr, i int) types.Object {
						if len(call.Args) <= i {
							return nil
						}
						return objOfIdent(info, call.Args[i])
					}
					same := a0(vcall, 0) != nil && a0(vcall, 0) == a0(cs.Call, 2)
					c.verdictIf(same, rule, index, fmt.Sprintf("indexHeader#%d same header", n), cs.Call.Pos(),
						"the verified header variable is the one indexed", "indexHeader receives a different header value than the one verified")
				} else {
					c.bad(rule, index, fmt.Sprintf("verifyHeader#%d after decryptHeader", n), cs.Call.Pos(), "no verifyHeader call precedes this indexHeader call")
				}
			}
			if n < half(2) {
				c.unresolved("only %d indexHeader calls in recovery.Index (expected 2: regular and tape branch)", n)
			}
		}
	}
	// (ii) Fetch / Query: signature.VerifyHeader's success dominates every use of the header read from the tape
	for _, f := range []*FuncInfo{fetch, query} {
		info := f.Pkg.TypesInfo
		fl := c.flow(f)
		// header variables: assigned from (*tar.Reader).Next
		hdrVars := map[types.Object]bool{}
		walkOwn(f.Body(), func(n ast.Node) {
			as, ok := n.(*ast.AssignStmt)
			if !ok || len(as.Rhs) != 1 {
				return
			}
			call, ok := ast.Unparen(as.Rhs[0]).(*ast.CallExpr)
			if !ok || !isMethod(calleeObj(info, call), "archive/tar", "Reader", "Next") {
				return
			}
			if o := objOfIdent(info, as.Lhs[0]); o != nil {
				hdrVars[o] = true
			}
		})
		if len(hdrVars) == 0 {
			c.unresolved("no header variable read from tar.Reader.Next in %s", f.Name)
			continue
		}
		isVH := func(call *ast.CallExpr) bool { return isCallTo(info, call, sigVerifyHeader.Obj) }
		isDH := func(call *ast.CallExpr) bool { return isCallTo(info, call, decHeader.Obj) }
		defOfHdr := func(n ast.Node) bool {
			as, ok := n.(*ast.AssignStmt)
			if !ok {
				return false
			}
			for _, l := range as.Lhs {
				if hdrVars[objOfIdent(info, l)] {
					return true
				}
			}
			return false
		}
		n := 0
		for _, b := range fl.G.Blocks {
			if !b.Live {
				continue
			}
			for _, node := range b.Nodes {
				if defOfHdr(node) {
					continue
				}
				uses := false
				skip := false
				ast.Inspect(node, func(m ast.Node) bool {
					if _, ok := m.(*ast.FuncLit); ok {
						return false
					}
					if call, ok := m.(*ast.CallExpr); ok && (isVH(call) || isDH(call)) {
						skip = true
						return false
					}
					if be, ok := m.(*ast.BinaryExpr); ok && (isNilIdent(info, be.X) || isNilIdent(info, be.Y)) {
						return false // `hdr == nil` end-of-tape test
					}
					if id, ok := m.(*ast.Ident); ok && hdrVars[info.Uses[id]] {
						uses = true
					}
					return true
				})
				if !uses || skip {
					continue
				}
				n++
				okk, reach := c.successDominates(fl, node, isVH, defOfHdr)
				if !reach {
					continue
				}
				c.verdictIf(okk, rule, f, fmt.Sprintf("header-use#%d", n), node.Pos(),
					"header used only after signature.VerifyHeader succeeded on it", "a header read from the tape is used ("+truncate(nodeString(c, node), 60)+") on a path where signature.VerifyHeader has not succeeded for it")
			}
		}
		if n < half(3) {
			c.unresolved("only %d header uses found in %s", n, f.Name)
		}
		// decrypt precedes verify
		k := 0
		for _, cs := range f.calls {
			if !isVH(cs.Call) {
				continue
			}
			k++
			okk, _ := c.successDominates(fl, cs.Call, isDH, defOfHdr)
			c.verdictIf(okk, rule, f, fmt.Sprintf("VerifyHeader#%d after DecryptHeader", k), cs.Call.Pos(),
				"verification runs on the decrypted header", "VerifyHeader can run without DecryptHeader having succeeded")
		}
	}
	// (iii) call sites of recovery.Index
	nsites := 0
	for _, f := range c.Funcs {
		for _, cs := range f.calls {
			if cs.Target != index {
				continue
			}
			nsites++
			construct := fmt.Sprintf("recovery.Index#%d verifier", ordinalOfCall(f, cs, index))
			sig := index.Obj.Type().(*types.Signature)
			vi, di := -1, -1
			for i := 0; i < sig.Params().Len(); i++ {
				switch sig.Params().At(i).Name() {
				case "verifyHeader":
					vi = i
				case "decryptHeader":
					di = i
				}
			}
			if vi < 0 || di < 0 || len(cs.Call.Args) <= vi {
				c.unresolved("callback positions in call of recovery.Index at %s", c.pos(cs.Call.Pos()))
				continue
			}
			vf, _ := c.callbackFunc(f, cs.Call.Args[vi])
			df, dbind := c.callbackFunc(f, cs.Call.Args[di])
			if vf == nil || df == nil {
				c.undecided(rule, f, construct, cs.Call.Pos(), "verifier/decrypt argument is neither a function literal nor a repository function; cannot decide what it does")
				continue
			}
			dlit := df.Lit
			vinfo := vf.Pkg.TypesInfo
			// (A) real verifier: every return is the result of signature.VerifyHeader on its own first parameter,
			//     or nil only after its success
			var hdrParam types.Object
			if pl := vf.Type().Params.List; len(pl) > 0 && len(pl[0].Names) > 0 {
				hdrParam = vinfo.Defs[pl[0].Names[0]]
			}
			callsVH := false
			for _, vcs := range vf.calls {
				if vcs.Target == sigVerifyHeader && len(vcs.Call.Args) > 0 && objOfIdent(vinfo, vcs.Call.Args[0]) == hdrParam {
					callsVH = true
				}
			}
			if callsVH {
				fc := &failClosed{c: c, rule: rule, isPrim: func(o types.Object) bool { return o == types.Object(sigVerifyHeader.Obj) }}
				before := len(c.Obls)
				fc.check(vf, construct+" ")
				bad := false
				for _, o := range c.Obls[before:] {
					if o.Verdict != Discharged {
						bad = true
					}
				}
				// signature format must not be a constant (it would pin verification to "none")
				constFmt := false
				for _, vcs := range vf.calls {
					if vcs.Target == sigVerifyHeader && len(vcs.Call.Args) > 2 {
						if tv, ok := vinfo.Types[vcs.Call.Args[2]]; ok && tv.Value != nil {
							constFmt = true
						}
					}
				}
				c.verdictIf(!bad && !constFmt, rule, f, construct, cs.Call.Pos(),
					"verifier callback fails closed around signature.VerifyHeader with the configured format", "verifier callback can accept a header without signature.VerifyHeader succeeding (or pins the format to a constant)")
				continue
			}
			// (B) write-path exemption: decrypt callback replaces *hdr from the operation's own snapshot on every nil return
			dinfo := df.Pkg.TypesInfo
			var dHdr types.Object
			if pl := df.Type().Params.List; len(pl) > 0 && len(pl[0].Names) > 0 {
				dHdr = dinfo.Defs[pl[0].Names[0]]
			}
			if dlit == nil && len(dbind) == 0 {
				c.bad(rule, f, construct, cs.Call.Pos(), "verification is skipped, and the decrypt callback is not a closure over the operation's own header snapshot: headers read back from the tape reach the index unverified")
				continue
			}
			dfl := c.flow(df)
			isOverwrite := func(n ast.Node) bool {
				as, ok := n.(*ast.AssignStmt)
				if !ok || len(as.Lhs) != 1 || len(as.Rhs) != 1 {
					return false
				}
				st, ok := ast.Unparen(as.Lhs[0]).(*ast.StarExpr)
				if !ok || objOfIdent(dinfo, st.X) != dHdr {
					return false
				}
				// RHS must come from a local slice of the enclosing operation: hdrs[i] or *hdrs[i]
				r := ast.Unparen(as.Rhs[0])
				if s2, ok := r.(*ast.StarExpr); ok {
					r = ast.Unparen(s2.X)
				}
				ix, ok := r.(*ast.IndexExpr)
				if !ok {
					return false
				}
				v, ok := objOfIdent(dinfo, ix.X).(*types.Var)
				if !ok {
					v = selField(dinfo, ix.X) // a field of the method's receiver (method-value callbacks)
				}
				if v == nil {
					return false
				}
				if arg, bound := dbind[v]; bound {
					// factory parameter / receiver field: the operation must pass one of its own locals
					lv, ok := objOfIdent(f.Pkg.TypesInfo, arg).(*types.Var)
					return ok && !lv.IsField()
				}
				if v.IsField() || dlit == nil {
					return false
				}
				return v.Pos() < dlit.Pos() // captured local of the operation
			}
			allOverwrite := true
			nret := 0
			for _, ret := range returnsIn(df) {
				if !returnsNil(dinfo, ret) {
					continue
				}
				nret++
				okk, reach := dfl.dominatedBy(ret, isOverwrite, nil)
				if reach && !okk {
					allOverwrite = false
				}
			}
			c.verdictIf(allOverwrite && nret > 0, rule, f, construct, cs.Call.Pos(),
				"write path: verification skipped, but the decrypt callback overwrites the tape header wholesale with the operation's own in-memory header on every success path, so nothing read from the tape is indexed",
				"verification is skipped although headers read back from the tape can reach the index (the decrypt callback does not replace them from the operation's own snapshot on every path)")
		}
	}
	if nsites < half(6) {
		c.unresolved("only %d call sites of recovery.Index found (expected 6)", nsites)
	}
	// (iv) VerifyHeader: outer header replaced only after VerifyString succeeded; both PAX records demanded
	{
		f := sigVerifyHeader
		info := f.Pkg.TypesInfo
		fl := c.flow(f)
		hdrParam := paramVar(f, "hdr")
		n := 0
		walkOwn(f.Body(), func(nd ast.Node) {
			as, ok := nd.(*ast.AssignStmt)
			if !ok || len(as.Lhs) != 1 {
				return
			}
			st, ok := ast.Unparen(as.Lhs[0]).(*ast.StarExpr)
			if !ok || objOfIdent(info, st.X) != types.Object(hdrParam) {
				return
			}
			n++
			okk, _ := c.successDominates(fl, as, func(call *ast.CallExpr) bool { return isCallTo(info, call, sigVerifyString.Obj) }, nil)
			c.verdictIf(okk, rule, f, fmt.Sprintf("replace-header#%d", n), as.Pos(),
				"embedded header adopted only after VerifyString succeeded", "the embedded header replaces the outer one on a path where VerifyString has not succeeded")
		})
		if n == 0 {
			c.unresolved("VerifyHeader no longer replaces *hdr (shape changed)")
		}
		// VerifyString receives the embedded header text and the signature record, both looked up with the comma-ok form and checked
		for _, cs := range f.calls {
			if cs.Target != sigVerifyString {
				continue
			}
			embedded := c.constObj("internal/records", "STFSRecordEmbeddedHeader")
			sigRec := c.constObj("internal/records", "STFSRecordSignature")
			src0, src4 := paxKeyOfIdent(f, cs.Call.Args[0]), paxKeyOfIdent(f, cs.Call.Args[len(cs.Call.Args)-1])
			c.verdictIf(src0 == embedded && src4 == sigRec && embedded != nil, rule, f, "VerifyString operands", cs.Call.Pos(),
				"verifies the embedded-header record against the signature record", "VerifyString is not applied to (embedded header, signature record)")
			// what is unmarshalled is the same text that was verified
			unm := false
			for _, cs2 := range f.calls {
				if isPkgFunc(cs2.Callee, "encoding/json", "Unmarshal") {
					if usesObj(info, cs2.Call.Args[0], objOfIdent(info, cs.Call.Args[0])) {
						unm = true
					}
				}
			}
			c.verdictIf(unm, rule, f, "unmarshal verified text", cs.Call.Pos(), "the verified text is what gets decoded", "the decoded header text is not the verified text")
		}
	}
	// (v) Fetch: content verifier checked after the copy, signature taken from the verified header
	{
		f := fetch
		info := f.Pkg.TypesInfo
		fl := c.flow(f)
		var verifyFn types.Object // second result of signature.Verify
		var verifierRd types.Object
		var sigArg ast.Expr
		walkOwn(f.Body(), func(nd ast.Node) {
			as, ok := nd.(*ast.AssignStmt)
			if !ok || len(as.Rhs) != 1 || len(as.Lhs) < 2 {
				return
			}
			call, ok := ast.Unparen(as.Rhs[0]).(*ast.CallExpr)
			if ok && isCallTo(info, call, sigVerify.Obj) {
				verifierRd = objOfIdent(info, as.Lhs[0])
				verifyFn = objOfIdent(info, as.Lhs[1])
				sigArg = call.Args[len(call.Args)-1]
			}
		})
		if verifyFn == nil {
			c.unresolved("signature.Verify result in recovery.Fetch")
		} else {
			isCheck := func(call *ast.CallExpr) bool { return calleeObj(info, call) == verifyFn }
			// every nil return after the copy from the verifier must cross verify()'s success edge
			var copyCall *ast.CallExpr
			for _, cs := range f.calls {
				if isPkgFunc(cs.Callee, "io", "Copy") && len(cs.Call.Args) == 2 && objOfIdent(info, cs.Call.Args[1]) == verifierRd {
					copyCall = cs.Call
				}
			}
			if copyCall == nil {
				c.bad(rule, f, "content copy", f.Decl.Pos(), "restored content is not read through the verifying reader returned by signature.Verify")
			} else {
				c.ok(rule, f, "content copy", copyCall.Pos(), true, "content flows through the verifying reader")
				// may-analysis: "content copied and its signature not yet checked"; cleared on verify()'s success edge
				const pending = 1
				an := &Analysis{Must: false, Entry: 0,
					Node: func(nd ast.Node, st State) State {
						if containsNode(nd, copyCall) {
							return st | pending
						}
						return st
					},
					Edge: func(b *cfg.Block, i int, st State) State {
						for _, ft := range fl.edgeFacts(b, i) {
							be, ok := ast.Unparen(ft.E).(*ast.BinaryExpr)
							if !ok || !(isNilIdent(info, be.Y) || isNilIdent(info, be.X)) {
								continue
							}
							if !(be.Op == token.EQL && ft.Pos || be.Op == token.NEQ && !ft.Pos) {
								continue
							}
							for _, nd := range fl.condNodes(b) {
								if as, ok := nd.(*ast.AssignStmt); ok && len(as.Rhs) == 1 {
									if call, ok := ast.Unparen(as.Rhs[0]).(*ast.CallExpr); ok && isCheck(call) {
										return st &^ pending
									}
								}
							}
						}
						return st
					}}
				fl.solve(an)
				n := 0
				fl.exits(an, func(ret *ast.ReturnStmt, ord int, st State) {
					if ret == nil || !returnsNil(info, ret) {
						return
					}
					n++
					c.verdictIf(st&pending == 0, rule, f, fmt.Sprintf("return#%d success after content copy", ord), ret.Pos(),
						"no path reaches this success return with content copied but its signature unchecked", "Fetch can report success for regular content without the content signature check having passed")
				})
				if n == 0 {
					c.unresolved("no success return in Fetch")
				}
			}
			// the signature operand originates from the header's signature PAX record
			sigRec := c.constObj("internal/records", "STFSRecordSignature")
			c.verdictIf(sigRec != nil && paxKeyOfIdent(f, sigArg) == sigRec, rule, f, "content signature source", sigArg.Pos(),
				"content signature is taken from the (verified) header's signature record", "content signature does not originate from the header's signature record")
		}
	}
}

// paxKeyOfIdent: if identifier e is (only) assigned from X.PAXRecords[K] in f, return constant K.
func paxKeyOfIdent(f *FuncInfo, e ast.Expr) *types.Const {
	info := f.Pkg.TypesInfo
	o := objOfIdent(info, e)
	if o == nil {
		return nil
	}
	var key *types.Const
	seen := map[types.Object]bool{}
	var trace func(o types.Object)
	trace = func(o types.Object) {
		if seen[o] {
			return
		}
		seen[o] = true
		walkOwn(f.Body(), func(n ast.Node) {
			as, ok := n.(*ast.AssignStmt)
			if !ok {
				return
			}
			for i, l := range as.Lhs {
				if objOfIdent(info, l) != o {
					continue
				}
				var r ast.Expr
				if len(as.Rhs) == len(as.Lhs) {
					r = as.Rhs[i]
				} else if i == 0 && len(as.Rhs) == 1 {
					r = as.Rhs[0]
				}
				if r == nil {
					continue
				}
				r = ast.Unparen(r)
				if ix, ok := r.(*ast.IndexExpr); ok {
					if se, ok := ast.Unparen(ix.X).(*ast.SelectorExpr); ok && se.Sel.Name == "PAXRecords" {
						if k := constOf(info, ix.Index); k != nil {
							key = k
						}
					}
				}
				if o2 := objOfIdent(info, r); o2 != nil {
					trace(o2)
				}
			}
		})
	}
	trace(o)
	return key
}

func ordinalOfCall(f *FuncInfo, cs *CallSite, target *FuncInfo) int {
	n := 0
	for _, x := range f.calls {
		if x.Target == target {
			n++
			if x == cs {
				return n
			}
		}
	}
	return n
}

func nodeString(c *Ctx, n ast.Node) string {
	if e, ok := n.(ast.Expr); ok {
		return types.ExprString(e)
	}
	switch s := n.(type) {
	case *ast.AssignStmt:
		var l, r []string
		for _, x := range s.Lhs {
			l = append(l, types.ExprString(x))
		}
		for _, x := range s.Rhs {
			r = append(r, types.ExprString(x))
		}
		return strings.Join(l, ", ") + " " + s.Tok.String() + " " + strings.Join(r, ", ")
	case *ast.ExprStmt:
		return types.ExprString(s.X)
	case *ast.ReturnStmt:
		var r []string
		for _, x := range s.Results {
			r = append(r, types.ExprString(x))
		}
		return "return " + strings.Join(r, ", ")
	}
	return fmt.Sprintf("%T", n)
}

func truncate(s string, n int) string {
	if len(s) > n {
		return s[:n] + "..."
	}
	return s
}
