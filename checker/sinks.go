package main

import (
	"go/ast"
	"go/types"
	"sort"
	"strings"
)

const (
	modelsPath  = modPath + "/internal/db/sqlite/models/metadata"
	queriesPath = "github.com/volatiletech/sqlboiler/v4/queries"
)

// sqlWriteAPI is the frozen table of generated-model / query-builder entry points that change rows.
// (sqlboiler's generated Insert may use QueryRowContext for RETURNING, so the database/sql method is no
// reliable discriminator; the generated API names are.)
var sqlWriteAPI = map[string]string{
	"Insert":      "generated model insert",
	"Update":      "generated model update (by primary key)",
	"Upsert":      "generated model upsert",
	"Delete":      "generated model delete",
	"DeleteAll":   "generated query/slice delete",
	"UpdateAll":   "generated query/slice update",
	"Exec":        "raw query execution",
	"ExecContext": "raw query execution",
}

func isSQLWriteCall(o types.Object) bool {
	f, ok := o.(*types.Func)
	if !ok || f.Pkg() == nil {
		return false
	}
	if _, ok := sqlWriteAPI[f.Name()]; !ok {
		return false
	}
	sig := f.Type().(*types.Signature)
	if sig.Recv() == nil {
		return false
	}
	switch f.Pkg().Path() {
	case modelsPath:
		return f.Name() != "Exec" && f.Name() != "ExecContext"
	case queriesPath:
		return f.Name() == "Exec" || f.Name() == "ExecContext"
	}
	return false
}

type sinkInfo struct {
	c           *Ctx
	getWriter   *types.Var
	getReader   *types.Var
	closeWriter *types.Var
	closeReader *types.Var
	writeOpsS   *types.Var
	writeOpsF   *types.Var
	getBufS     *types.Var
	getBufF     *types.Var
	mutators    map[string]bool // method names of the index-store interface that change rows
	mutatorObjs map[*types.Func]bool
	reach       map[*FuncInfo]int // 0 unknown, 1 in progress, 2 no, 3 yes
	reachWhy    map[*FuncInfo]string
}

func (c *Ctx) sinks() *sinkInfo {
	s := &sinkInfo{c: c, mutators: map[string]bool{}, mutatorObjs: map[*types.Func]bool{}, reach: map[*FuncInfo]int{}, reachWhy: map[*FuncInfo]string{}}
	s.getWriter = c.field("pkg/config", "BackendConfig", "GetWriter")
	s.getReader = c.field("pkg/config", "BackendConfig", "GetReader")
	s.closeWriter = c.field("pkg/config", "BackendConfig", "CloseWriter")
	s.closeReader = c.field("pkg/config", "BackendConfig", "CloseReader")
	s.writeOpsS = c.field("pkg/fs", "STFS", "writeOps")
	s.writeOpsF = c.field("pkg/fs", "File", "writeOps")
	s.getBufS = c.field("pkg/fs", "STFS", "getFileBuffer")
	s.getBufF = c.field("pkg/fs", "File", "getFileBuffer")
	s.computeMutators()
	return s
}

// computeMutators: methods of the interface config.MetadataPersister whose implementation in pkg/persisters
// reaches (inside that package) a call of the SQL write API.
func (s *sinkInfo) computeMutators() {
	c := s.c
	iface := c.namedType("pkg/config", "MetadataPersister")
	if iface == nil {
		return
	}
	it, ok := iface.Underlying().(*types.Interface)
	if !ok {
		c.unresolved("config.MetadataPersister is not an interface")
		return
	}
	writes := map[*FuncInfo]int{}
	var reaches func(f *FuncInfo) bool
	reaches = func(f *FuncInfo) bool {
		switch writes[f] {
		case 1, 2:
			return false
		case 3:
			return true
		}
		writes[f] = 1
		res := false
		for _, cs := range f.calls {
			if isSQLWriteCall(cs.Callee) {
				res = true
				break
			}
			if cs.Target != nil && cs.Target.Pkg == f.Pkg && reaches(cs.Target) {
				res = true
				break
			}
		}
		if !res {
			for _, l := range c.litsIn(f) {
				if reaches(l) {
					res = true
					break
				}
			}
		}
		if res {
			writes[f] = 3
		} else {
			writes[f] = 2
		}
		return res
	}
	impls := 0
	for i := 0; i < it.NumMethods(); i++ {
		m := it.Method(i)
		impl := c.fnOpt("pkg/persisters", "(*MetadataPersister)."+m.Name())
		if impl == nil {
			c.unresolved("implementation of config.MetadataPersister.%s in pkg/persisters", m.Name())
			continue
		}
		impls++
		if reaches(impl) {
			s.mutators[m.Name()] = true
			s.mutatorObjs[m] = true
			if impl.Obj != nil {
				s.mutatorObjs[impl.Obj] = true
			}
		}
	}
}

func (s *sinkInfo) mutatorNames() string {
	var n []string
	for k := range s.mutators {
		n = append(n, k)
	}
	sort.Strings(n)
	return strings.Join(n, ",")
}

// isMutatorCall reports whether a call site invokes a row-changing method of the index store
// (through the interface or on the concrete persister).
func (s *sinkInfo) isMutatorCall(cs *CallSite) bool {
	f, ok := cs.Callee.(*types.Func)
	if !ok {
		return false
	}
	if s.mutatorObjs[f] {
		return true
	}
	// any other implementation / embedding of the same interface method
	if s.mutators[f.Name()] {
		sig := f.Type().(*types.Signature)
		if sig.Recv() != nil {
			if iface := s.c.namedType("pkg/config", "MetadataPersister"); iface != nil {
				rt := sig.Recv().Type()
				if types.Implements(rt, iface.Underlying().(*types.Interface)) {
					return true
				}
				if _, isPtr := rt.(*types.Pointer); !isPtr && types.Implements(types.NewPointer(rt), iface.Underlying().(*types.Interface)) {
					return true
				}
			}
		}
	}
	return false
}

// sinkOf classifies a call site as a tape/index-changing sink for the read-only property.
func (s *sinkInfo) sinkOf(cs *CallSite) string {
	info := cs.In.Pkg.TypesInfo
	if v, ok := cs.Callee.(*types.Var); ok && v != nil {
		switch v {
		case s.getWriter:
			return "drive opened for writing (BackendConfig.GetWriter)"
		case s.getBufS, s.getBufF:
			return "write cache created (getFileBuffer)"
		}
	}
	if s.isMutatorCall(cs) {
		return "index row change (" + cs.Callee.Name() + ")"
	}
	if se, ok := ast.Unparen(cs.Call.Fun).(*ast.SelectorExpr); ok {
		if fv := selField(info, se.X); fv != nil && (fv == s.writeOpsS || fv == s.writeOpsF) {
			return "write operations used (writeOps." + se.Sel.Name + ")"
		}
	}
	return ""
}

// reachesSink: can executing f (or a literal nested in it) reach a sink through statically resolved calls?
// Computed as a backward closure over the repository call graph (fixpoint, so cycles are handled).
func (s *sinkInfo) reachesSink(f *FuncInfo) bool {
	if s.reach == nil || len(s.reach) == 0 {
		s.computeReach()
	}
	return s.reach[f] == 3
}

func (s *sinkInfo) computeReach() {
	for _, f := range s.c.Funcs {
		s.reach[f] = 2
		for _, cs := range f.calls {
			if w := s.sinkOf(cs); w != "" {
				s.reach[f] = 3
				s.reachWhy[f] = w + " at " + s.c.pos(cs.Call.Pos())
				break
			}
		}
	}
	for changed := true; changed; {
		changed = false
		for _, f := range s.c.Funcs {
			if s.reach[f] == 3 {
				continue
			}
			for _, cs := range f.calls {
				if cs.Target != nil && s.reach[cs.Target] == 3 {
					s.reach[f] = 3
					s.reachWhy[f] = "calls " + cs.Target.Name + " -> " + s.reachWhy[cs.Target]
					changed = true
					break
				}
			}
			if s.reach[f] == 3 {
				continue
			}
			for _, l := range s.c.litsIn(f) {
				if s.reach[l] == 3 {
					s.reach[f] = 3
					s.reachWhy[f] = "literal " + l.Name + " -> " + s.reachWhy[l]
					changed = true
					break
				}
			}
		}
	}
}

// reachClosure: the set of repository functions from which a call site satisfying direct is reachable through
// statically resolved calls, bound local closures and nested literals (backward fixpoint).
func (c *Ctx) reachClosure(direct func(cs *CallSite) bool) map[*FuncInfo]bool {
	reach := map[*FuncInfo]bool{}
	for _, f := range c.Funcs {
		for _, cs := range f.calls {
			if direct(cs) {
				reach[f] = true
				break
			}
		}
	}
	for changed := true; changed; {
		changed = false
		for _, f := range c.Funcs {
			if reach[f] {
				continue
			}
			for _, cs := range f.calls {
				if cs.Target != nil && reach[cs.Target] {
					reach[f] = true
					changed = true
					break
				}
			}
			if reach[f] {
				continue
			}
			for _, l := range c.litsIn(f) {
				if reach[l] {
					reach[f] = true
					changed = true
					break
				}
			}
		}
	}
	return reach
}
