package main

// Normalisation pass: the rules were written against the function inventory of the tree they were confirmed on
// (inventory.txt, frozen). Ordinary maintenance introduces new helper functions - a block extracted into a helper, a
// repeated sequence wrapped, a lookup chain given a name. Instead of teaching every rule to look through every possible
// helper, calls of functions that are NOT in the inventory are inlined back into their callers before the rules run,
// with the semantics-preserving inliner of golang.org/x/tools (copied under xti/, see xti/README.md). The analysed
// program is then behaviourally the program in /repo, in the shape the rules know. A helper all of whose calls could
// be inlined is dropped from the analysed text. Calls the inliner cannot reduce to statements (it would wrap them in a
// function literal) are left alone; rules that meet them fall back to their own helper-following.
//
// Nothing is written to /repo: the transformed files live in a go/packages overlay (and, for diagnosis, as copies
// under <verif>/evidence/normalised/).

import (
	_ "embed"
	"fmt"
	"go/ast"
	"go/parser"
	"go/token"
	"go/types"
	"os"
	"path/filepath"
	"sort"
	"strings"

	"golang.org/x/tools/go/packages"
	"golang.org/x/tools/imports"

	"stfsverif/checker/xti/refactor/inline"
)

//go:embed inventory.txt
var inventoryText string

var inventory = func() map[string]bool {
	m := map[string]bool{}
	for _, l := range strings.Split(inventoryText, "\n") {
		l = strings.TrimSpace(l)
		if l != "" && !strings.HasPrefix(l, "#") {
			m[l] = true
		}
	}
	return m
}()

func inventoryKey(pkgPath string, fd *ast.FuncDecl) string {
	rel := strings.TrimPrefix(strings.TrimPrefix(pkgPath, modPath), "/")
	if rel == "" {
		rel = "."
	}
	return rel + " " + recvName(fd)
}

type normResult struct {
	Overlay map[string][]byte
	Notes   []string // one line per inlined helper / skipped call
}

var normCache = map[string]*normResult{}

// normalise computes the overlay for the tree at dir (cached per directory and process).
func normalise(dir string, env []string) (*normResult, error) {
	if r, ok := normCache[dir]; ok {
		return r, nil
	}
	res := &normResult{Overlay: map[string][]byte{}}
	normCache[dir] = res
	mode := packages.NeedName | packages.NeedFiles | packages.NeedCompiledGoFiles | packages.NeedImports |
		packages.NeedTypes | packages.NeedSyntax | packages.NeedTypesInfo | packages.NeedTypesSizes | packages.NeedModule
	loadPkgs := func(patterns ...string) ([]*packages.Package, error) {
		cfg := &packages.Config{Mode: mode, Dir: dir, Env: env, Fset: token.NewFileSet(), Overlay: res.Overlay}
		return packages.Load(cfg, patterns...)
	}
	// cheap pre-scan (file lists + parsing only): which packages declare functions unknown to the inventory?
	lcfg := &packages.Config{Mode: packages.NeedName | packages.NeedFiles | packages.NeedCompiledGoFiles | packages.NeedModule, Dir: dir, Env: env}
	pkgs, err := packages.Load(lcfg, "./...")
	if err != nil {
		return nil, err
	}
	var work []string
	pfset := token.NewFileSet()
	for _, p := range pkgs {
		if p.Module == nil || p.Module.Path != modPath || strings.Contains(p.PkgPath, "/internal/db/") {
			continue
		}
		for _, name := range p.CompiledGoFiles {
			if !strings.HasSuffix(name, ".go") {
				continue
			}
			f, perr := parser.ParseFile(pfset, name, nil, parser.SkipObjectResolution)
			if perr != nil {
				continue // the typed load reports it
			}
			for _, d := range f.Decls {
				if fd, ok := d.(*ast.FuncDecl); ok && !inventory[inventoryKey(p.PkgPath, fd)] {
					work = append(work, p.PkgPath)
				}
			}
		}
	}
	sort.Strings(work)
	seenPkg := map[string]bool{}
	for _, pp := range work {
		if seenPkg[pp] {
			continue
		}
		seenPkg[pp] = true
		if err := normalisePackage(pp, loadPkgs, res); err != nil {
			res.Notes = append(res.Notes, fmt.Sprintf("normalisation of %s stopped: %v", pp, err))
		}
	}
	return res, nil
}

func normalisePackage(pkgPath string, loadPkgs func(...string) ([]*packages.Package, error), res *normResult) error {
	skipped := map[string]bool{}
	inlinedInto := map[string]int{}
	nInl := 0
	for iter := 0; iter < 200; iter++ {
		pkgs, err := loadPkgs(pkgPath)
		if err != nil {
			return err
		}
		if len(pkgs) != 1 {
			return fmt.Errorf("%d packages for %s", len(pkgs), pkgPath)
		}
		p := pkgs[0]
		if len(p.Errors) > 0 {
			return fmt.Errorf("type errors after inlining: %v", p.Errors[0])
		}
		// unknown helpers declared in this package
		unknown := map[*types.Func]*ast.FuncDecl{}
		declFile := map[*ast.FuncDecl]*ast.File{}
		for _, f := range p.Syntax {
			for _, d := range f.Decls {
				if fd, ok := d.(*ast.FuncDecl); ok && !inventory[inventoryKey(p.PkgPath, fd)] && fd.Body != nil {
					if fn, ok := p.TypesInfo.Defs[fd.Name].(*types.Func); ok {
						unknown[fn] = fd
						declFile[fd] = f
					}
				}
			}
		}
		if len(unknown) == 0 {
			return nil
		}
		// pick the first inlinable call: a static call of an unknown helper from a function of this package.
		// Calls inside unknown helpers are handled first (innermost helpers are flattened before their callers).
		type cand struct {
			file   *ast.File
			call   *ast.CallExpr
			callee *types.Func
			key    string
			inner  bool
		}
		var cands []cand
		for _, f := range p.Syntax {
			for _, d := range f.Decls {
				fd, ok := d.(*ast.FuncDecl)
				if !ok || fd.Body == nil {
					continue
				}
				_, callerUnknown := unknown[p.TypesInfo.Defs[fd.Name].(*types.Func)]
				ord := map[string]int{}
				ast.Inspect(fd.Body, func(n ast.Node) bool {
					call, ok := n.(*ast.CallExpr)
					if !ok {
						return true
					}
					fn, _ := calleeObj(p.TypesInfo, call).(*types.Func)
					if fn == nil {
						return true
					}
					fn = fn.Origin()
					if _, ok := unknown[fn]; !ok {
						return true
					}
					ord[fn.Name()]++
					key := fmt.Sprintf("%s>%s#%d", recvName(fd), fn.Name(), ord[fn.Name()])
					if fn == p.TypesInfo.Defs[fd.Name] { // direct recursion
						skipped[key] = true
					}
					if !skipped[key] {
						cands = append(cands, cand{f, call, fn, key, callerUnknown})
					}
					return true
				})
			}
		}
		if len(cands) == 0 {
			// nothing left to inline: drop helpers that are no longer referenced
			return dropUnreferenced(p, unknown, declFile, loadPkgs, pkgPath, res, inlinedInto)
		}
		sort.SliceStable(cands, func(i, j int) bool { return cands[i].inner && !cands[j].inner })
		cd := cands[0]
		fname := p.Fset.File(cd.file.Pos()).Name()
		content, err := fileContent(fname, res)
		if err != nil {
			return err
		}
		cfd := unknown[cd.callee]
		cfname := p.Fset.File(cfd.Pos()).Name()
		ccontent, err := fileContent(cfname, res)
		if err != nil {
			return err
		}
		var newContent []byte
		why := ""
		callee, err := inline.AnalyzeCallee(func(string, ...any) {}, p.Fset, p.Types, p.TypesInfo, cfd, ccontent)
		if err == nil {
			out, ierr := inline.Inline(&inline.Caller{Fset: p.Fset, Types: p.Types, Info: p.TypesInfo, File: cd.file, Call: cd.call, Content: content}, callee, &inline.Options{})
			switch {
			case ierr != nil:
				why = ierr.Error()
			case out.Literalized:
				why = "x/tools inliner would wrap the helper in a function literal"
			default:
				newContent = out.Content
				if d, derr := simplifyDerefAddr(fname, newContent); derr == nil {
					newContent = d
				}
				if d, derr := dropSelfShadow(fname, newContent); derr == nil {
					newContent = d
				}
				if d, derr := inlineSingleUseFuncVar(fname, newContent); derr == nil {
					newContent = d
				}
				if d, derr := simplifyIIFE(fname, newContent); derr == nil {
					newContent = d
				}
			}
		} else {
			why = err.Error()
		}
		if newContent == nil {
			// the statement-level inliner for the error-handling idiom (stmtinline.go)
			nInl++
			out, serr := stmtInline(p, cd.file, cd.call, cfd, content, ccontent, nInl)
			if serr != nil && strings.Contains(serr.Error(), "nested in") {
				// make the call a statement of its own first; the next iteration inlines it
				if h, herr := hoistCall(p, cd.file, cd.call, content, nInl); herr == nil {
					out, serr = h, nil
				} else {
					serr = fmt.Errorf("%v; hoisting: %v", serr, herr)
				}
			}
			if serr != nil && (strings.Contains(serr.Error(), "*ast.DeferStmt") || strings.Contains(serr.Error(), "*ast.GoStmt")) {
				// `defer H(&flag)`: wrap the call in a literal (`defer func() { H(&flag) }()`) when its operands mean the
				// same at function exit as at the defer statement; the next iteration inlines the call inside
				if h, herr := deferWrap(p, cd.file, cd.call, content); herr == nil {
					out, serr = h, nil
				} else {
					serr = fmt.Errorf("%v; wrapping the deferred call: %v", serr, herr)
				}
			}
			if serr != nil {
				why += "; statement inliner: " + serr.Error()
			} else if fixed, ferr := processInlined(fname, out); ferr != nil {
				why += "; statement inliner produced unparsable text: " + ferr.Error()
			} else {
				// accept only if the package still type-checks with it
				old, had := res.Overlay[fname]
				res.Overlay[fname] = fixed
				chk, cerr := loadPkgs(pkgPath)
				if cerr != nil || len(chk) != 1 || len(chk[0].Errors) > 0 {
					msg := "load error"
					if cerr == nil && len(chk) == 1 && len(chk[0].Errors) > 0 {
						msg = chk[0].Errors[0].Error()
					}
					why += "; statement inliner result does not type-check: " + msg
					if had {
						res.Overlay[fname] = old
					} else {
						delete(res.Overlay, fname)
					}
				} else {
					newContent = fixed
				}
			}
		}
		if newContent == nil {
			skipped[cd.key] = true
			res.Notes = append(res.Notes, fmt.Sprintf("helper %s.%s not inlined at %s: %s", relOf(pkgPath), cd.callee.Name(), cd.key, why))
			continue
		}
		res.Overlay[fname] = newContent
		inlinedInto[cd.callee.Name()]++
	}
	return fmt.Errorf("iteration limit reached")
}

func relOf(pkgPath string) string {
	return strings.TrimPrefix(strings.TrimPrefix(pkgPath, modPath), "/")
}

func fileContent(name string, res *normResult) ([]byte, error) {
	if b, ok := res.Overlay[name]; ok {
		return b, nil
	}
	return os.ReadFile(name)
}

// dropUnreferenced removes the declarations of unknown helpers that nothing refers to any more (all calls inlined).
func dropUnreferenced(p *packages.Package, unknown map[*types.Func]*ast.FuncDecl, declFile map[*ast.FuncDecl]*ast.File,
	loadPkgs func(...string) ([]*packages.Package, error), pkgPath string, res *normResult, inlinedInto map[string]int) error {
	refs := map[*types.Func]int{}
	for id, o := range p.TypesInfo.Uses {
		if fn, ok := o.(*types.Func); ok {
			if _, isU := unknown[fn.Origin()]; isU {
				// a reference from inside the helper's own body does not keep it alive
				fd := unknown[fn.Origin()]
				if id.Pos() >= fd.Pos() && id.End() <= fd.End() {
					continue
				}
				refs[fn.Origin()]++
			}
		}
	}
	// group removable decls per file, remove from the end of the file backwards
	type span struct{ from, to int }
	perFile := map[string][]span{}
	var names []string
	for fn, fd := range unknown {
		if refs[fn] > 0 || inlinedInto[fn.Name()] == 0 {
			continue
		}
		tf := p.Fset.File(fd.Pos())
		from := fd.Pos()
		if fd.Doc != nil {
			from = fd.Doc.Pos()
		}
		perFile[tf.Name()] = append(perFile[tf.Name()], span{tf.Offset(from), tf.Offset(fd.End())})
		names = append(names, fn.Name())
	}
	if len(perFile) == 0 {
		return nil
	}
	backup := map[string][]byte{}
	for name, spans := range perFile {
		content, err := fileContent(name, res)
		if err != nil {
			return err
		}
		backup[name] = content
		sort.Slice(spans, func(i, j int) bool { return spans[i].from > spans[j].from })
		b := append([]byte{}, content...)
		for _, s := range spans {
			b = append(b[:s.from], b[s.to:]...)
		}
		// removing a function can leave imports unused
		if fixed, err := imports.Process(name, b, &imports.Options{Comments: true, TabIndent: true, TabWidth: 8, FormatOnly: false}); err == nil {
			b = fixed
		}
		res.Overlay[name] = b
	}
	// verify that the package still type-checks; otherwise keep the helpers
	pkgs, err := loadPkgs(pkgPath)
	if err != nil || len(pkgs) != 1 || len(pkgs[0].Errors) > 0 {
		for name, b := range backup {
			res.Overlay[name] = b
		}
		res.Notes = append(res.Notes, fmt.Sprintf("helpers of %s kept (removal did not type-check)", relOf(pkgPath)))
		return nil
	}
	sort.Strings(names)
	res.Notes = append(res.Notes, fmt.Sprintf("%s: helper(s) %s are not in the inventory; their calls were inlined and the declarations dropped from the analysed text", relOf(pkgPath), strings.Join(names, ", ")))
	return nil
}

// saveNormalised writes the transformed files below <verif>/evidence/normalised for diagnosis.
func saveNormalised(res *normResult, repoDir, verifDir string) {
	if res == nil || len(res.Overlay) == 0 {
		return
	}
	base := filepath.Join(verifDir, "evidence", "normalised")
	os.RemoveAll(base)
	for name, b := range res.Overlay {
		rel, err := filepath.Rel(repoDir, name)
		if err != nil {
			continue
		}
		dst := filepath.Join(base, rel)
		os.MkdirAll(filepath.Dir(dst), 0o755)
		os.WriteFile(dst, b, 0o644)
	}
}

func processInlined(fname string, src []byte) ([]byte, error) {
	fixed, err := imports.Process(fname, src, &imports.Options{Comments: true, TabIndent: true, TabWidth: 8})
	if err != nil {
		return nil, err
	}
	if d, derr := simplifyDerefAddr(fname, fixed); derr == nil {
		fixed = d
	}
	if d, derr := dropSelfShadow(fname, fixed); derr == nil {
		fixed = d
	}
	if d, derr := inlineSingleUseFuncVar(fname, fixed); derr == nil {
		fixed = d
	}
	if d, derr := simplifyIIFE(fname, fixed); derr == nil {
		fixed = d
	}
	if flat, ferr := flattenBlocks(fname, fixed); ferr == nil {
		return flat, nil
	}
	return fixed, nil
}

// simplifyDerefAddr rewrites `*(&x)` (what substituting the argument `&x` for a pointer parameter leaves behind) to `x`.
func simplifyDerefAddr(fname string, src []byte) ([]byte, error) {
	fset := token.NewFileSet()
	f, err := parser.ParseFile(fset, fname, src, parser.ParseComments)
	if err != nil {
		return nil, err
	}
	var edits []textEdit
	off := func(p token.Pos) int { return fset.Position(p).Offset }
	ast.Inspect(f, func(n ast.Node) bool {
		st, ok := n.(*ast.StarExpr)
		if !ok {
			return true
		}
		if u, ok := ast.Unparen(st.X).(*ast.UnaryExpr); ok && u.Op == token.AND {
			if id, ok := ast.Unparen(u.X).(*ast.Ident); ok {
				edits = append(edits, textEdit{off(st.Pos()), off(st.End()), id.Name})
				return false
			}
		}
		return true
	})
	if len(edits) == 0 {
		return src, nil
	}
	return applyEdits(src, edits), nil
}

// dropSelfShadow removes `var x T = x` (the copy the x/tools inliner makes of an argument that has the parameter's
// name) when nothing from that declaration to the end of the enclosing function writes to a variable called x or
// takes its address: the copy and the original then always hold the same value, and dropping the copy keeps the
// identity of the variable visible to the rules.
func dropSelfShadow(fname string, src []byte) ([]byte, error) {
	fset := token.NewFileSet()
	f, err := parser.ParseFile(fset, fname, src, parser.ParseComments)
	if err != nil {
		return nil, err
	}
	off := func(p token.Pos) int { return fset.Position(p).Offset }
	var edits []textEdit
	for _, d := range f.Decls {
		fd, ok := d.(*ast.FuncDecl)
		if !ok || fd.Body == nil {
			continue
		}
		ast.Inspect(fd.Body, func(n ast.Node) bool {
			ds, ok := n.(*ast.DeclStmt)
			if !ok {
				return true
			}
			gd, ok := ds.Decl.(*ast.GenDecl)
			if !ok || gd.Tok != token.VAR || len(gd.Specs) != 1 {
				return true
			}
			vs, ok := gd.Specs[0].(*ast.ValueSpec)
			if !ok || len(vs.Names) != 1 || len(vs.Values) != 1 {
				return true
			}
			id, ok := ast.Unparen(vs.Values[0]).(*ast.Ident)
			if !ok || id.Name != vs.Names[0].Name || id.Name == "_" {
				return true
			}
			name := id.Name
			written := false
			ast.Inspect(fd.Body, func(m ast.Node) bool {
				if m == nil || written {
					return false
				}
				if m.End() <= ds.End() {
					return true // may contain later nodes only if it spans the declaration; leaves before it are skipped below
				}
				isName := func(e ast.Expr) bool {
					x, ok := ast.Unparen(e).(*ast.Ident)
					return ok && x.Name == name && x.Pos() > ds.End()
				}
				switch x := m.(type) {
				case *ast.AssignStmt:
					for _, l := range x.Lhs {
						if isName(l) {
							written = true
						}
					}
				case *ast.IncDecStmt:
					if isName(x.X) {
						written = true
					}
				case *ast.UnaryExpr:
					if x.Op == token.AND && isName(x.X) {
						written = true
					}
				case *ast.RangeStmt:
					if (x.Key != nil && isName(x.Key)) || (x.Value != nil && isName(x.Value)) {
						written = true
					}
				}
				return true
			})
			if !written {
				edits = append(edits, textEdit{off(ds.Pos()), off(ds.End()), ""})
			}
			return true
		})
	}
	if len(edits) == 0 {
		return src, nil
	}
	return applyEdits(src, edits), nil
}

// simplifyIIFE splices `return (func() T { BODY })()` into BODY: the returns of the literal become returns of the
// enclosing function (same result types, since the call was the whole return operand). Only literals without
// parameters, without defer/recover and whose body ends in a return are spliced.
func simplifyIIFE(fname string, src []byte) ([]byte, error) {
	fset := token.NewFileSet()
	f, err := parser.ParseFile(fset, fname, src, parser.ParseComments)
	if err != nil {
		return nil, err
	}
	off := func(p token.Pos) int { return fset.Position(p).Offset }
	var edits []textEdit
	ast.Inspect(f, func(n ast.Node) bool {
		ret, ok := n.(*ast.ReturnStmt)
		if !ok || len(ret.Results) != 1 {
			return true
		}
		call, ok := ast.Unparen(ret.Results[0]).(*ast.CallExpr)
		if !ok || len(call.Args) != 0 {
			return true
		}
		lit, ok := ast.Unparen(call.Fun).(*ast.FuncLit)
		if !ok || lit.Type.Params.NumFields() != 0 || len(lit.Body.List) == 0 {
			return true
		}
		if _, endsInReturn := lit.Body.List[len(lit.Body.List)-1].(*ast.ReturnStmt); !endsInReturn {
			return true
		}
		clean := true
		ast.Inspect(lit.Body, func(m ast.Node) bool {
			switch x := m.(type) {
			case *ast.FuncLit:
				return false // returns in there are its own
			case *ast.DeferStmt:
				clean = false
			case *ast.CallExpr:
				if id, ok := x.Fun.(*ast.Ident); ok && id.Name == "recover" {
					clean = false
				}
			case *ast.ReturnStmt:
				if len(x.Results) == 0 {
					clean = false // named results of the literal
				}
			}
			return clean
		})
		if !clean {
			return true
		}
		body := string(src[off(lit.Body.Lbrace)+1 : off(lit.Body.Rbrace)])
		edits = append(edits, textEdit{off(ret.Pos()), off(ret.End()), "{" + body + "}"})
		return false
	})
	if len(edits) == 0 {
		return src, nil
	}
	return applyEdits(src, edits), nil
}

// inlineSingleUseFuncVar removes `var fn func(...) ... = E` (the binding the x/tools inliner makes for a function-valued
// argument) when fn is used exactly once afterwards, as the operand of a call, and E is a function literal or a method
// value / function name built from identifiers that are never assigned in the enclosing function: `fn(args)` becomes
// `(E)(args)`.
func inlineSingleUseFuncVar(fname string, src []byte) ([]byte, error) {
	fset := token.NewFileSet()
	f, err := parser.ParseFile(fset, fname, src, parser.ParseComments)
	if err != nil {
		return nil, err
	}
	off := func(p token.Pos) int { return fset.Position(p).Offset }
	var edits []textEdit
	for _, d := range f.Decls {
		fd, ok := d.(*ast.FuncDecl)
		if !ok || fd.Body == nil {
			continue
		}
		assignedNames := map[string]bool{}
		ast.Inspect(fd.Body, func(n ast.Node) bool {
			switch x := n.(type) {
			case *ast.AssignStmt:
				for _, l := range x.Lhs {
					if id, ok := ast.Unparen(l).(*ast.Ident); ok {
						assignedNames[id.Name] = true
					}
				}
			case *ast.IncDecStmt:
				if id, ok := ast.Unparen(x.X).(*ast.Ident); ok {
					assignedNames[id.Name] = true
				}
			case *ast.UnaryExpr:
				if x.Op == token.AND {
					if id, ok := ast.Unparen(x.X).(*ast.Ident); ok {
						assignedNames[id.Name] = true
					}
				}
			}
			return true
		})
		ast.Inspect(fd.Body, func(n ast.Node) bool {
			ds, ok := n.(*ast.DeclStmt)
			if !ok {
				return true
			}
			gd, ok := ds.Decl.(*ast.GenDecl)
			if !ok || gd.Tok != token.VAR || len(gd.Specs) != 1 {
				return true
			}
			vs, ok := gd.Specs[0].(*ast.ValueSpec)
			if !ok || len(vs.Names) != 1 || len(vs.Values) != 1 {
				return true
			}
			if _, isFunc := vs.Type.(*ast.FuncType); !isFunc {
				return true
			}
			name := vs.Names[0].Name
			if name == "_" || assignedNames[name] {
				return true
			}
			e := ast.Unparen(vs.Values[0])
			stable := false
			switch x := e.(type) {
			case *ast.FuncLit:
				stable = true
			case *ast.Ident:
				stable = !assignedNames[x.Name]
			case *ast.SelectorExpr:
				if id, ok := ast.Unparen(x.X).(*ast.Ident); ok {
					stable = !assignedNames[id.Name]
				}
			}
			if !stable {
				return true
			}
			var useCall *ast.CallExpr
			uses := 0
			callFun := map[*ast.Ident]*ast.CallExpr{}
			ast.Inspect(fd.Body, func(m ast.Node) bool {
				if call, ok := m.(*ast.CallExpr); ok {
					if id, ok := call.Fun.(*ast.Ident); ok {
						callFun[id] = call
					}
				}
				if id, ok := m.(*ast.Ident); ok && id.Name == name && id.Pos() > ds.End() {
					uses++
					useCall = callFun[id]
				}
				return true
			})
			if uses != 1 || useCall == nil {
				return true
			}
			// a following `_ = fn` keep-alive would be a second use; nothing else to clean up
			etext := string(src[off(vs.Values[0].Pos()):off(vs.Values[0].End())])
			edits = append(edits, textEdit{off(ds.Pos()), off(ds.End()), ""})
			edits = append(edits, textEdit{off(useCall.Fun.Pos()), off(useCall.Fun.End()), "(" + etext + ")"})
			return true
		})
	}
	if len(edits) == 0 {
		return src, nil
	}
	return applyEdits(src, edits), nil
}
