package main

// Normalisation pass: the rules were written against the function inventory of the tree they were confirmed on
// (inventory.txt, frozen). Ordinary maintenance introduces new helper functions - a block extracted into a helper, a
// repeated sequence wrapped, a lookup chain given a name. Instead of teaching every rule to look through every possible
// helper, calls of functions that are NOT in the inventory are inlined back into their callers before the rules run,
// with the semantics-preserving inliner of golang.org/x/tools (copied under xti/, see xti/README.md). The analysed
// program is then behaviourally the program in /repo, in the shape the rules know. A helper all of whose calls could
// be inlined is dropped from the analysed text. Calls the inliner cannot reduce to statements (it would wrap them in a
// function literal) are left alone; rules that meet them fall back to their own helper-following.
//
// Nothing is written to /repo: the transformed files live in a go/packages overlay (and, for diagnosis, as copies
// under <verif>/evidence/normalised/).

import (
	_ "embed"
	"fmt"
	"go/ast"
	"go/format"
	"go/parser"
	"go/token"
	"go/types"
	"os"
	"path/filepath"
	"sort"
	"strings"

	"golang.org/x/tools/go/packages"
	"golang.org/x/tools/imports"

	"stfsverif/checker/xti/refactor/inline"
)

//go:embed inventory.txt
var inventoryText string

//go:embed fields.txt
var fieldInventoryText string

// fieldInventory: the unexported struct fields of the confirmed tree ("pkg Type.field" -> type as written).
var fieldInventory = func() map[string]string {
	m := map[string]string{}
	for _, l := range strings.Split(fieldInventoryText, "\n") {
		l = strings.TrimRight(l, " \r")
		if l == "" || strings.HasPrefix(l, "#") {
			continue
		}
		key, typ, _ := strings.Cut(l, "\t")
		m[strings.TrimSpace(key)] = typ
	}
	return m
}()

// structFields lists the unexported named fields of the struct types declared in file f: key "rel Type.field".
func structFields(rel string, f *ast.File, visit func(key, typ string, id *ast.Ident, ts *ast.TypeSpec)) {
	for _, d := range f.Decls {
		gd, ok := d.(*ast.GenDecl)
		if !ok || gd.Tok != token.TYPE {
			continue
		}
		for _, sp := range gd.Specs {
			ts, ok := sp.(*ast.TypeSpec)
			if !ok {
				continue
			}
			st, ok := ts.Type.(*ast.StructType)
			if !ok || st.Fields == nil {
				continue
			}
			for _, fl := range st.Fields.List {
				for _, id := range fl.Names {
					if !id.IsExported() && id.Name != "_" {
						visit(rel+" "+ts.Name.Name+"."+id.Name, types.ExprString(fl.Type), id, ts)
					}
				}
			}
		}
	}
}

// structTypes lists the struct types declared in file f: key "rel Type".
func structTypes(rel string, f *ast.File, visit func(key string, ts *ast.TypeSpec)) {
	for _, d := range f.Decls {
		gd, ok := d.(*ast.GenDecl)
		if !ok || gd.Tok != token.TYPE {
			continue
		}
		for _, sp := range gd.Specs {
			if ts, ok := sp.(*ast.TypeSpec); ok {
				if _, ok := ts.Type.(*ast.StructType); ok {
					visit(rel+" "+ts.Name.Name, ts)
				}
			}
		}
	}
}

// dissolveParamObjects undoes "introduce parameter object" for unexported functions: when a function has a parameter
// whose type is a struct declared in this package that the inventory does not know, the function only reads fields of
// that parameter, and every call passes a composite literal of the type, the parameter is replaced by one parameter
// per field (named like the field) and each call by the literal's elements in field order (the zero value where the
// literal leaves a field out). The rules then see the positional form they were confirmed on.
func dissolveParamObjects(p *packages.Package, res *normResult) (bool, error) {
	rel := relOf(p.PkgPath)
	if rel == "" {
		rel = "."
	}
	info := p.TypesInfo
	// unknown struct types of this package
	unknownT := map[*types.TypeName]*ast.StructType{}
	for _, f := range p.Syntax {
		structTypes(rel, f, func(key string, ts *ast.TypeSpec) {
			if _, ok := fieldInventory[key]; ok {
				return
			}
			if tn, ok := info.Defs[ts.Name].(*types.TypeName); ok {
				unknownT[tn] = ts.Type.(*ast.StructType)
			}
		})
	}
	if len(unknownT) == 0 {
		return false, nil
	}
	type edit struct {
		file     string
		from, to int
		text     string
	}
	src := func(n ast.Node) (string, error) {
		tf := p.Fset.File(n.Pos())
		b, err := fileContent(tf.Name(), res)
		if err != nil {
			return "", err
		}
		return string(b[tf.Offset(n.Pos()):tf.Offset(n.End())]), nil
	}
	for _, f := range p.Syntax {
		for _, d := range f.Decls {
			fd, ok := d.(*ast.FuncDecl)
			if !ok || fd.Body == nil || fd.Name.IsExported() || fd.Type.Params == nil {
				continue
			}
			fobj, _ := info.Defs[fd.Name].(*types.Func)
			if fobj == nil {
				continue
			}
			for _, fld := range fd.Type.Params.List {
				if len(fld.Names) != 1 {
					continue
				}
				pv, _ := info.Defs[fld.Names[0]].(*types.Var)
				if pv == nil {
					continue
				}
				nt, ok := types.Unalias(pv.Type()).(*types.Named)
				if !ok {
					continue
				}
				stAst, ok := unknownT[nt.Obj()]
				if !ok {
					continue
				}
				st := nt.Underlying().(*types.Struct)
				// field list in order, with the type as written
				type fieldInfo struct {
					name, typ string
					v         *types.Var
				}
				var fields []fieldInfo
				okFields := true
				for _, sf := range stAst.Fields.List {
					if len(sf.Names) == 0 {
						okFields = false // embedded
						break
					}
					ts, err := src(sf.Type)
					if err != nil {
						return false, err
					}
					for _, nm := range sf.Names {
						fv, _ := info.Defs[nm].(*types.Var)
						fields = append(fields, fieldInfo{nm.Name, ts, fv})
					}
				}
				if !okFields || len(fields) == 0 || len(fields) != st.NumFields() {
					continue
				}
				// the body only reads fields of the parameter; field names are free inside the function
				used := map[string]bool{}
				ast.Inspect(fd, func(n ast.Node) bool {
					if id, ok := n.(*ast.Ident); ok {
						used[id.Name] = true
					}
					return true
				})
				clash := false
				for _, fi := range fields {
					// a field name may appear as the selector of the parameter itself, nowhere else as a plain identifier
					cnt := 0
					ast.Inspect(fd, func(n ast.Node) bool {
						if se, ok := n.(*ast.SelectorExpr); ok {
							ast.Inspect(se.X, func(m ast.Node) bool {
								if id, ok := m.(*ast.Ident); ok && id.Name == fi.name {
									cnt++
								}
								return true
							})
							return false
						}
						if id, ok := n.(*ast.Ident); ok && id.Name == fi.name {
							cnt++
						}
						return true
					})
					if cnt > 0 {
						clash = true
					}
				}
				if clash {
					continue
				}
				var edits []edit
				simple := true
				ast.Inspect(fd.Body, func(n ast.Node) bool {
					switch x := n.(type) {
					case *ast.SelectorExpr:
						if id, ok := ast.Unparen(x.X).(*ast.Ident); ok && info.Uses[id] == types.Object(pv) {
							tf := p.Fset.File(x.Pos())
							edits = append(edits, edit{tf.Name(), tf.Offset(x.Pos()), tf.Offset(x.End()), x.Sel.Name})
							return false
						}
					case *ast.Ident:
						if info.Uses[x] == types.Object(pv) {
							simple = false // the whole object is used
						}
					case *ast.AssignStmt:
						for _, l := range x.Lhs {
							if se, ok := ast.Unparen(l).(*ast.SelectorExpr); ok {
								if id, ok := ast.Unparen(se.X).(*ast.Ident); ok && info.Uses[id] == types.Object(pv) {
									simple = false
								}
							}
						}
					case *ast.UnaryExpr:
						if x.Op == token.AND {
							if se, ok := ast.Unparen(x.X).(*ast.SelectorExpr); ok {
								if id, ok := ast.Unparen(se.X).(*ast.Ident); ok && info.Uses[id] == types.Object(pv) {
									simple = false
								}
							}
						}
					}
					return true
				})
				if !simple {
					continue
				}
				// the parameter's position among the call arguments
				argIdx := 0
				found := false
				for _, f2 := range fd.Type.Params.List {
					if f2 == fld {
						found = true
						break
					}
					argIdx += len(f2.Names)
				}
				if !found {
					continue
				}
				// call sites
				callsOK := true
				for id, o := range info.Uses {
					if fn, ok := o.(*types.Func); !ok || fn.Origin() != fobj {
						continue
					}
					// find the call this identifier is the callee of
					var call *ast.CallExpr
					for _, f3 := range p.Syntax {
						if f3.Pos() <= id.Pos() && id.End() <= f3.End() {
							ast.Inspect(f3, func(n ast.Node) bool {
								if ce, ok := n.(*ast.CallExpr); ok {
									fun := ast.Unparen(ce.Fun)
									if se, ok := fun.(*ast.SelectorExpr); ok && se.Sel == id {
										call = ce
									}
									if fid, ok := fun.(*ast.Ident); ok && fid == id {
										call = ce
									}
								}
								return true
							})
						}
					}
					if call == nil || argIdx >= len(call.Args) {
						callsOK = false
						break
					}
					lit, ok := ast.Unparen(call.Args[argIdx]).(*ast.CompositeLit)
					if !ok {
						callsOK = false
						break
					}
					vals := make([]string, len(fields))
					for i, fi := range fields {
						vals[i] = "*new(" + fi.typ + ")"
						switch b := fi.v.Type().Underlying().(type) {
						case *types.Basic:
							switch {
							case b.Info()&types.IsBoolean != 0:
								vals[i] = "false"
							case b.Info()&types.IsString != 0:
								vals[i] = `""`
							case b.Info()&types.IsNumeric != 0:
								vals[i] = "0"
							}
						case *types.Pointer, *types.Signature, *types.Interface, *types.Map, *types.Slice, *types.Chan:
							vals[i] = "nil"
						}
					}
					for i, el := range lit.Elts {
						if kv, ok := el.(*ast.KeyValueExpr); ok {
							k, ok := kv.Key.(*ast.Ident)
							if !ok {
								callsOK = false
								break
							}
							for j, fi := range fields {
								if fi.name == k.Name {
									t, err := src(kv.Value)
									if err != nil {
										return false, err
									}
									vals[j] = t
								}
							}
						} else if i < len(fields) {
							t, err := src(el)
							if err != nil {
								return false, err
							}
							vals[i] = t
						}
					}
					if !callsOK {
						break
					}
					tf := p.Fset.File(call.Args[argIdx].Pos())
					edits = append(edits, edit{tf.Name(), tf.Offset(call.Args[argIdx].Pos()), tf.Offset(call.Args[argIdx].End()), strings.Join(vals, ", ")})
				}
				if !callsOK {
					continue
				}
				// the signature
				var ps []string
				for _, fi := range fields {
					ps = append(ps, fi.name+" "+fi.typ)
				}
				tf := p.Fset.File(fld.Pos())
				edits = append(edits, edit{tf.Name(), tf.Offset(fld.Pos()), tf.Offset(fld.End()), strings.Join(ps, ", ")})
				// apply
				perFile := map[string][]edit{}
				for _, e := range edits {
					perFile[e.file] = append(perFile[e.file], e)
				}
				backup := map[string][]byte{}
				for name, es := range perFile {
					content, err := fileContent(name, res)
					if err != nil {
						return false, err
					}
					backup[name] = content
					sort.Slice(es, func(i, j int) bool { return es[i].from > es[j].from })
					b := append([]byte{}, content...)
					for _, e := range es {
						b = append(b[:e.from], append([]byte(e.text), b[e.to:]...)...)
					}
					if fixed, err := format.Source(b); err == nil {
						b = fixed
					}
					res.Overlay[name] = b
				}
				_ = backup
				res.Notes = append(res.Notes, fmt.Sprintf("%s: parameter %s of %s is an object of the new type %s; dissolved into one parameter per field at the declaration and its call sites", rel, fld.Names[0].Name, recvName(fd), nt.Obj().Name()))
				return true, nil
			}
		}
	}
	return false, nil
}

// renameFieldsBack is renameBack for unexported struct fields: a struct that lacks a field of the inventory and has
// exactly one unknown unexported field of the same type (and no other missing field of that type) has had that field
// renamed; the analysed text gets the old name back at the declaration and at every use.
func renameFieldsBack(p *packages.Package, res *normResult) (bool, error) {
	rel := relOf(p.PkgPath)
	if rel == "" {
		rel = "."
	}
	type fld struct {
		key, typ string
		id       *ast.Ident
	}
	declared := map[string]bool{}
	unknown := map[string][]fld{} // per struct type
	for _, f := range p.Syntax {
		structFields(rel, f, func(key, typ string, id *ast.Ident, ts *ast.TypeSpec) {
			declared[key] = true
			if _, ok := fieldInventory[key]; !ok {
				unknown[ts.Name.Name] = append(unknown[ts.Name.Name], fld{key, typ, id})
			}
		})
	}
	if len(unknown) == 0 {
		return false, nil
	}
	missing := map[string][]fld{}
	for key, typ := range fieldInventory {
		pk, name, _ := strings.Cut(key, " ")
		if pk != rel || declared[key] || !strings.Contains(name, ".") {
			continue
		}
		tn, _, _ := strings.Cut(name, ".")
		missing[tn] = append(missing[tn], fld{key, typ, nil})
	}
	type edit struct {
		file     string
		off, len int
		text     string
	}
	var edits []edit
	var notes []string
	for tn, us := range unknown {
		for _, u := range us {
			var ms []fld
			for _, m := range missing[tn] {
				if m.typ == u.typ {
					ms = append(ms, m)
				}
			}
			same := 0
			for _, u2 := range us {
				if u2.typ == u.typ {
					same++
				}
			}
			if len(ms) != 1 || same != 1 {
				continue
			}
			obj := p.TypesInfo.Defs[u.id]
			if obj == nil {
				continue
			}
			oldName := ms[0].key[strings.LastIndex(ms[0].key, ".")+1:]
			add := func(id *ast.Ident) {
				tf := p.Fset.File(id.Pos())
				edits = append(edits, edit{tf.Name(), tf.Offset(id.Pos()), len(id.Name), oldName})
			}
			add(u.id)
			for id, o := range p.TypesInfo.Uses {
				if o == obj {
					add(id)
				}
			}
			notes = append(notes, fmt.Sprintf("%s: field %s.%s is %s of the inventory under a new name (same type, the only candidate); analysed under its old name", rel, tn, u.id.Name, oldName))
		}
	}
	if len(edits) == 0 {
		return false, nil
	}
	perFile := map[string][]edit{}
	for _, e := range edits {
		perFile[e.file] = append(perFile[e.file], e)
	}
	for name, es := range perFile {
		content, err := fileContent(name, res)
		if err != nil {
			return false, err
		}
		sort.Slice(es, func(i, j int) bool { return es[i].off > es[j].off })
		b := append([]byte{}, content...)
		for _, e := range es {
			b = append(b[:e.off], append([]byte(e.text), b[e.off+e.len:]...)...)
		}
		res.Overlay[name] = b
	}
	sort.Strings(notes)
	res.Notes = append(res.Notes, notes...)
	return true, nil
}

// inventorySig: the parameter and result types (names dropped) the function had in the confirmed tree, for telling a
// renamed function from a new one (renameBack).
var inventorySig = map[string]string{}

// inventoryNames: the names of the parameters and results in the confirmed tree, comma-separated in declaration order
// (renameParamsBack).
var inventoryNames = map[string]string{}

// paramNames: the names of fd's parameters and results in declaration order ("_" for unnamed ones).
func paramNames(fd *ast.FuncDecl) []*ast.Ident {
	var out []*ast.Ident
	for _, fl := range []*ast.FieldList{fd.Type.Params, fd.Type.Results} {
		if fl == nil {
			continue
		}
		for _, f := range fl.List {
			if len(f.Names) == 0 {
				out = append(out, nil)
			}
			out = append(out, f.Names...)
		}
	}
	return out
}

func paramNamesKey(fd *ast.FuncDecl) string {
	var ns []string
	for _, id := range paramNames(fd) {
		if id == nil {
			ns = append(ns, "_")
		} else {
			ns = append(ns, id.Name)
		}
	}
	return strings.Join(ns, ",")
}

// renameParamsBack: several rules find "the offset parameter" or "the overwrite parameter" of a function by its name
// and read units off names (record, block). A function of the inventory whose parameter types are unchanged but whose
// parameter names differ has had parameters renamed; the analysed text gets the old names back (only where the old
// name is not used for anything else inside the function).
func renameParamsBack(p *packages.Package, res *normResult) (bool, error) {
	type edit struct {
		file     string
		off, len int
		text     string
	}
	var edits []edit
	var notes []string
	for _, f := range p.Syntax {
		for _, d := range f.Decls {
			fd, ok := d.(*ast.FuncDecl)
			if !ok || fd.Body == nil {
				continue
			}
			k := inventoryKey(p.PkgPath, fd)
			if !inventory[k] || inventorySig[k] != sigKey(fd) || inventoryNames[k] == paramNamesKey(fd) {
				continue
			}
			olds := strings.Split(inventoryNames[k], ",")
			ids := paramNames(fd)
			if len(olds) != len(ids) {
				continue
			}
			used := map[string]bool{}
			ast.Inspect(fd, func(n ast.Node) bool {
				if id, ok := n.(*ast.Ident); ok {
					used[id.Name] = true
				}
				return true
			})
			for i, id := range ids {
				if id == nil || id.Name == "_" || olds[i] == "_" || olds[i] == id.Name || used[olds[i]] {
					continue
				}
				obj := p.TypesInfo.Defs[id]
				if obj == nil {
					continue
				}
				add := func(x *ast.Ident) {
					tf := p.Fset.File(x.Pos())
					edits = append(edits, edit{tf.Name(), tf.Offset(x.Pos()), len(x.Name), olds[i]})
				}
				add(id)
				ast.Inspect(fd.Body, func(n ast.Node) bool {
					if x, ok := n.(*ast.Ident); ok && p.TypesInfo.Uses[x] == obj {
						add(x)
					}
					return true
				})
				notes = append(notes, fmt.Sprintf("%s: parameter %s of %s is %s of the inventory under a new name; analysed under its old name", relOf(p.PkgPath), id.Name, recvName(fd), olds[i]))
			}
		}
	}
	if len(edits) == 0 {
		return false, nil
	}
	perFile := map[string][]edit{}
	for _, e := range edits {
		perFile[e.file] = append(perFile[e.file], e)
	}
	for name, es := range perFile {
		content, err := fileContent(name, res)
		if err != nil {
			return false, err
		}
		sort.Slice(es, func(i, j int) bool { return es[i].off > es[j].off })
		b := append([]byte{}, content...)
		for _, e := range es {
			b = append(b[:e.off], append([]byte(e.text), b[e.off+e.len:]...)...)
		}
		res.Overlay[name] = b
	}
	sort.Strings(notes)
	res.Notes = append(res.Notes, notes...)
	return true, nil
}

var inventory = func() map[string]bool {
	m := map[string]bool{}
	for _, l := range strings.Split(inventoryText, "\n") {
		l = strings.TrimRight(l, " \r")
		if l == "" || strings.HasPrefix(l, "#") {
			continue
		}
		key, sig, _ := strings.Cut(l, "\t")
		key = strings.TrimSpace(key)
		m[key] = true
		if sig != "" {
			sig, names, _ := strings.Cut(sig, "\t")
			inventorySig[key] = sig
			inventoryNames[key] = names
		}
	}
	return m
}()

// sigKey: the parameter and result types of a declaration as written, without names.
func sigKey(fd *ast.FuncDecl) string {
	list := func(fl *ast.FieldList) string {
		if fl == nil {
			return ""
		}
		var ts []string
		for _, f := range fl.List {
			n := len(f.Names)
			if n == 0 {
				n = 1
			}
			for i := 0; i < n; i++ {
				ts = append(ts, types.ExprString(f.Type))
			}
		}
		return strings.Join(ts, ", ")
	}
	return "(" + list(fd.Type.Params) + ") (" + list(fd.Type.Results) + ")"
}

// renameBack undoes the renaming of an unexported function the rules are anchored on: when the package lacks a function
// of the inventory and declares exactly one unknown unexported function with the same receiver and the same parameter
// and result types - and that pairing is unambiguous in both directions - the unknown function is the old one under a
// new name. Its declaration and every reference inside the package get the old name back in the analysed text (the
// alternative, inlining it into its callers as a "new helper", would leave every rule anchored on it without an anchor).
func renameBack(p *packages.Package, res *normResult) (bool, error) {
	rel := relOf(p.PkgPath)
	if rel == "" {
		rel = "."
	}
	declared := map[string]bool{}
	var unknown []*ast.FuncDecl
	for _, f := range p.Syntax {
		for _, d := range f.Decls {
			if fd, ok := d.(*ast.FuncDecl); ok {
				k := inventoryKey(p.PkgPath, fd)
				declared[k] = true
				if !inventory[k] && fd.Body != nil && !fd.Name.IsExported() {
					unknown = append(unknown, fd)
				}
			}
		}
	}
	if len(unknown) == 0 {
		return false, nil
	}
	recvOf := func(name string) string {
		if i := strings.LastIndex(name, "."); i >= 0 {
			return name[:i]
		}
		return ""
	}
	var missing []string
	for k := range inventory {
		pk, name, _ := strings.Cut(k, " ")
		if pk != rel || declared[k] || inventorySig[k] == "" {
			continue
		}
		base := name[strings.LastIndex(name, ".")+1:]
		if ast.IsExported(base) || base == "init" || base == "main" {
			continue
		}
		missing = append(missing, k)
	}
	sort.Strings(missing)
	match := func(k string, fd *ast.FuncDecl) bool {
		_, name, _ := strings.Cut(k, " ")
		return recvOf(name) == recvOf(recvName(fd)) && inventorySig[k] == sigKey(fd)
	}
	type edit struct {
		file     string
		off, len int
		text     string
	}
	var edits []edit
	var notes []string
	for _, k := range missing {
		var cands []*ast.FuncDecl
		for _, fd := range unknown {
			if match(k, fd) {
				cands = append(cands, fd)
			}
		}
		if len(cands) != 1 {
			continue
		}
		others := 0
		for _, k2 := range missing {
			if k2 != k && match(k2, cands[0]) {
				others++
			}
		}
		if others > 0 {
			continue
		}
		fd := cands[0]
		obj := p.TypesInfo.Defs[fd.Name]
		if obj == nil {
			continue
		}
		_, name, _ := strings.Cut(k, " ")
		oldName := name[strings.LastIndex(name, ".")+1:]
		add := func(id *ast.Ident) {
			tf := p.Fset.File(id.Pos())
			edits = append(edits, edit{tf.Name(), tf.Offset(id.Pos()), len(id.Name), oldName})
		}
		add(fd.Name)
		for id, o := range p.TypesInfo.Uses {
			if fn, ok := o.(*types.Func); ok && types.Object(fn.Origin()) == obj {
				add(id)
			}
		}
		notes = append(notes, fmt.Sprintf("%s: %s is %s of the inventory under a new name (same receiver, parameter and result types; the only candidate); analysed under its old name", rel, recvName(fd), name))
	}
	if len(edits) == 0 {
		return false, nil
	}
	perFile := map[string][]edit{}
	for _, e := range edits {
		perFile[e.file] = append(perFile[e.file], e)
	}
	for name, es := range perFile {
		content, err := fileContent(name, res)
		if err != nil {
			return false, err
		}
		sort.Slice(es, func(i, j int) bool { return es[i].off > es[j].off })
		b := append([]byte{}, content...)
		for _, e := range es {
			b = append(b[:e.off], append([]byte(e.text), b[e.off+e.len:]...)...)
		}
		res.Overlay[name] = b
	}
	sort.Strings(notes)
	res.Notes = append(res.Notes, notes...)
	return true, nil
}

func inventoryKey(pkgPath string, fd *ast.FuncDecl) string {
	rel := strings.TrimPrefix(strings.TrimPrefix(pkgPath, modPath), "/")
	if rel == "" {
		rel = "."
	}
	return rel + " " + recvName(fd)
}

type normResult struct {
	Overlay map[string][]byte
	Notes   []string // one line per inlined helper / skipped call
}

var normCache = map[string]*normResult{}

var fieldsDone = map[string]bool{}

var paramsDone = map[string]bool{}

var dissolveRounds = map[string]int{}

// normalise computes the overlay for the tree at dir (cached per directory and process).
func normalise(dir string, env []string) (*normResult, error) {
	if r, ok := normCache[dir]; ok {
		return r, nil
	}
	res := &normResult{Overlay: map[string][]byte{}}
	normCache[dir] = res
	mode := packages.NeedName | packages.NeedFiles | packages.NeedCompiledGoFiles | packages.NeedImports |
		packages.NeedTypes | packages.NeedSyntax | packages.NeedTypesInfo | packages.NeedTypesSizes | packages.NeedModule
	loadPkgs := func(patterns ...string) ([]*packages.Package, error) {
		cfg := &packages.Config{Mode: mode, Dir: dir, Env: env, Fset: token.NewFileSet(), Overlay: res.Overlay}
		return packages.Load(cfg, patterns...)
	}
	// cheap pre-scan (file lists + parsing only): which packages declare functions unknown to the inventory?
	lcfg := &packages.Config{Mode: packages.NeedName | packages.NeedFiles | packages.NeedCompiledGoFiles | packages.NeedModule, Dir: dir, Env: env}
	pkgs, err := packages.Load(lcfg, "./...")
	if err != nil {
		return nil, err
	}
	var work []string
	pfset := token.NewFileSet()
	for _, p := range pkgs {
		if p.Module == nil || p.Module.Path != modPath || strings.Contains(p.PkgPath, "/internal/db/") {
			continue
		}
		for _, name := range p.CompiledGoFiles {
			if !strings.HasSuffix(name, ".go") {
				continue
			}
			f, perr := parser.ParseFile(pfset, name, nil, parser.SkipObjectResolution)
			if perr != nil {
				continue // the typed load reports it
			}
			structFields(relOf(p.PkgPath), f, func(key, typ string, id *ast.Ident, ts *ast.TypeSpec) {
				if _, ok := fieldInventory[key]; !ok {
					work = append(work, p.PkgPath)
				}
			})
			structTypes(relOf(p.PkgPath), f, func(key string, ts *ast.TypeSpec) {
				if _, ok := fieldInventory[key]; !ok {
					work = append(work, p.PkgPath)
				}
			})
			for _, d := range f.Decls {
				if fd, ok := d.(*ast.FuncDecl); ok {
					if k := inventoryKey(p.PkgPath, fd); inventory[k] && inventorySig[k] == sigKey(fd) && inventoryNames[k] != paramNamesKey(fd) {
						work = append(work, p.PkgPath)
					}
				}
				if fd, ok := d.(*ast.FuncDecl); ok && !inventory[inventoryKey(p.PkgPath, fd)] {
					work = append(work, p.PkgPath)
				}
			}
		}
	}
	sort.Strings(work)
	seenPkg := map[string]bool{}
	for _, pp := range work {
		if seenPkg[pp] {
			continue
		}
		seenPkg[pp] = true
		if err := normalisePackage(pp, loadPkgs, res); err != nil {
			res.Notes = append(res.Notes, fmt.Sprintf("normalisation of %s stopped: %v", pp, err))
		}
	}
	return res, nil
}

func normalisePackage(pkgPath string, loadPkgs func(...string) ([]*packages.Package, error), res *normResult) error {
	skipped := map[string]bool{}
	inlinedInto := map[string]int{}
	nInl := 0
	for iter := 0; iter < 200; iter++ {
		pkgs, err := loadPkgs(pkgPath)
		if err != nil {
			return err
		}
		if len(pkgs) != 1 {
			return fmt.Errorf("%d packages for %s", len(pkgs), pkgPath)
		}
		p := pkgs[0]
		if len(p.Errors) > 0 {
			return fmt.Errorf("type errors after inlining: %v", p.Errors[0])
		}
		if iter == 0 {
			if renamed, err := renameBack(p, res); err != nil {
				return err
			} else if renamed {
				continue
			}
		}
		if iter <= 2 && !paramsDone[pkgPath] {
			paramsDone[pkgPath] = true
			if renamed, err := renameParamsBack(p, res); err != nil {
				return err
			} else if renamed {
				continue
			}
		}
		if iter <= 6 && dissolveRounds[pkgPath] < 3 {
			dissolveRounds[pkgPath]++
			if changed, err := dissolveParamObjects(p, res); err != nil {
				return err
			} else if changed {
				continue
			}
		}
		if iter <= 3 && !fieldsDone[pkgPath] {
			fieldsDone[pkgPath] = true
			if renamed, err := renameFieldsBack(p, res); err != nil {
				return err
			} else if renamed {
				continue
			}
		}
		// unknown helpers declared in this package
		unknown := map[*types.Func]*ast.FuncDecl{}
		declFile := map[*ast.FuncDecl]*ast.File{}
		for _, f := range p.Syntax {
			for _, d := range f.Decls {
				if fd, ok := d.(*ast.FuncDecl); ok && !inventory[inventoryKey(p.PkgPath, fd)] && fd.Body != nil {
					if fn, ok := p.TypesInfo.Defs[fd.Name].(*types.Func); ok {
						unknown[fn] = fd
						declFile[fd] = f
					}
				}
			}
		}
		if len(unknown) == 0 {
			return nil
		}
		// pick the first inlinable call: a static call of an unknown helper from a function of this package.
		// Calls inside unknown helpers are handled first (innermost helpers are flattened before their callers).
		type cand struct {
			file   *ast.File
			call   *ast.CallExpr
			callee *types.Func
			key    string
			inner  bool
		}
		var cands []cand
		for _, f := range p.Syntax {
			for _, d := range f.Decls {
				fd, ok := d.(*ast.FuncDecl)
				if !ok || fd.Body == nil {
					continue
				}
				_, callerUnknown := unknown[p.TypesInfo.Defs[fd.Name].(*types.Func)]
				ord := map[string]int{}
				ast.Inspect(fd.Body, func(n ast.Node) bool {
					call, ok := n.(*ast.CallExpr)
					if !ok {
						return true
					}
					fn, _ := calleeObj(p.TypesInfo, call).(*types.Func)
					if fn == nil {
						return true
					}
					fn = fn.Origin()
					if _, ok := unknown[fn]; !ok {
						return true
					}
					ord[fn.Name()]++
					key := fmt.Sprintf("%s>%s#%d", recvName(fd), fn.Name(), ord[fn.Name()])
					if fn == p.TypesInfo.Defs[fd.Name] { // direct recursion
						skipped[key] = true
					}
					// a helper that calls itself is never unfolded: each unfolding brings another call of it along
					if cfd := unknown[fn]; cfd != nil && cfd.Body != nil {
						rec := false
						ast.Inspect(cfd.Body, func(m ast.Node) bool {
							if c2, ok := m.(*ast.CallExpr); ok {
								if f2, _ := calleeObj(p.TypesInfo, c2).(*types.Func); f2 != nil && f2.Origin() == fn {
									rec = true
								}
							}
							return !rec
						})
						if rec {
							skipped[key] = true
						}
					}
					if !skipped[key] {
						cands = append(cands, cand{f, call, fn, key, callerUnknown})
					}
					return true
				})
			}
		}
		if len(cands) == 0 {
			// nothing left to inline: drop helpers that are no longer referenced
			return dropUnreferenced(p, unknown, declFile, loadPkgs, pkgPath, res, inlinedInto)
		}
		sort.SliceStable(cands, func(i, j int) bool { return cands[i].inner && !cands[j].inner })
		cd := cands[0]
		fname := p.Fset.File(cd.file.Pos()).Name()
		content, err := fileContent(fname, res)
		if err != nil {
			return err
		}
		cfd := unknown[cd.callee]
		cfname := p.Fset.File(cfd.Pos()).Name()
		ccontent, err := fileContent(cfname, res)
		if err != nil {
			return err
		}
		var newContent []byte
		why := ""
		callee, err := inline.AnalyzeCallee(func(string, ...any) {}, p.Fset, p.Types, p.TypesInfo, cfd, ccontent)
		if err == nil {
			out, ierr := inline.Inline(&inline.Caller{Fset: p.Fset, Types: p.Types, Info: p.TypesInfo, File: cd.file, Call: cd.call, Content: content}, callee, &inline.Options{})
			switch {
			case ierr != nil:
				why = ierr.Error()
			case out.Literalized:
				why = "x/tools inliner would wrap the helper in a function literal"
			default:
				newContent = out.Content
				if d, derr := simplifyDerefAddr(fname, newContent); derr == nil {
					newContent = d
				}
				if d, derr := dropSelfShadow(fname, newContent); derr == nil {
					newContent = d
				}
				if d, derr := inlineSingleUseFuncVar(fname, newContent); derr == nil {
					newContent = d
				}
				if d, derr := simplifyIIFE(fname, newContent); derr == nil {
					newContent = d
				}
			}
		} else {
			why = err.Error()
		}
		if newContent == nil {
			// the statement-level inliner for the error-handling idiom (stmtinline.go)
			nInl++
			out, serr := stmtInline(p, cd.file, cd.call, cfd, content, ccontent, nInl)
			if serr != nil && strings.Contains(serr.Error(), "nested in") {
				// make the call a statement of its own first; the next iteration inlines it
				if h, herr := hoistCall(p, cd.file, cd.call, content, nInl); herr == nil {
					out, serr = h, nil
				} else {
					serr = fmt.Errorf("%v; hoisting: %v", serr, herr)
				}
			}
			if serr != nil && (strings.Contains(serr.Error(), "*ast.DeferStmt") || strings.Contains(serr.Error(), "*ast.GoStmt")) {
				// `defer H(&flag)`: wrap the call in a literal (`defer func() { H(&flag) }()`) when its operands mean the
				// same at function exit as at the defer statement; the next iteration inlines the call inside
				if h, herr := deferWrap(p, cd.file, cd.call, content); herr == nil {
					out, serr = h, nil
				} else {
					serr = fmt.Errorf("%v; wrapping the deferred call: %v", serr, herr)
				}
			}
			if serr != nil {
				why += "; statement inliner: " + serr.Error()
			} else if fixed, ferr := processInlined(fname, out); ferr != nil {
				why += "; statement inliner produced unparsable text: " + ferr.Error()
			} else {
				// accept only if the package still type-checks with it
				old, had := res.Overlay[fname]
				res.Overlay[fname] = fixed
				chk, cerr := loadPkgs(pkgPath)
				if cerr != nil || len(chk) != 1 || len(chk[0].Errors) > 0 {
					msg := "load error"
					if cerr == nil && len(chk) == 1 && len(chk[0].Errors) > 0 {
						msg = chk[0].Errors[0].Error()
					}
					why += "; statement inliner result does not type-check: " + msg
					if had {
						res.Overlay[fname] = old
					} else {
						delete(res.Overlay, fname)
					}
				} else {
					newContent = fixed
				}
			}
		}
		if newContent == nil {
			skipped[cd.key] = true
			res.Notes = append(res.Notes, fmt.Sprintf("helper %s.%s not inlined at %s: %s", relOf(pkgPath), cd.callee.Name(), cd.key, why))
			continue
		}
		res.Overlay[fname] = newContent
		inlinedInto[cd.callee.Name()]++
	}
	return fmt.Errorf("iteration limit reached")
}

func relOf(pkgPath string) string {
	return strings.TrimPrefix(strings.TrimPrefix(pkgPath, modPath), "/")
}

func fileContent(name string, res *normResult) ([]byte, error) {
	if b, ok := res.Overlay[name]; ok {
		return b, nil
	}
	return os.ReadFile(name)
}

// dropUnreferenced removes the declarations of unknown helpers that nothing refers to any more (all calls inlined).
func dropUnreferenced(p *packages.Package, unknown map[*types.Func]*ast.FuncDecl, declFile map[*ast.FuncDecl]*ast.File,
	loadPkgs func(...string) ([]*packages.Package, error), pkgPath string, res *normResult, inlinedInto map[string]int) error {
	refs := map[*types.Func]int{}
	for id, o := range p.TypesInfo.Uses {
		if fn, ok := o.(*types.Func); ok {
			if _, isU := unknown[fn.Origin()]; isU {
				// a reference from inside the helper's own body does not keep it alive
				fd := unknown[fn.Origin()]
				if id.Pos() >= fd.Pos() && id.End() <= fd.End() {
					continue
				}
				refs[fn.Origin()]++
			}
		}
	}
	// group removable decls per file, remove from the end of the file backwards
	type span struct{ from, to int }
	perFile := map[string][]span{}
	var names []string
	for fn, fd := range unknown {
		if refs[fn] > 0 || inlinedInto[fn.Name()] == 0 {
			continue
		}
		tf := p.Fset.File(fd.Pos())
		from := fd.Pos()
		if fd.Doc != nil {
			from = fd.Doc.Pos()
		}
		perFile[tf.Name()] = append(perFile[tf.Name()], span{tf.Offset(from), tf.Offset(fd.End())})
		names = append(names, fn.Name())
	}
	if len(perFile) == 0 {
		return nil
	}
	backup := map[string][]byte{}
	for name, spans := range perFile {
		content, err := fileContent(name, res)
		if err != nil {
			return err
		}
		backup[name] = content
		sort.Slice(spans, func(i, j int) bool { return spans[i].from > spans[j].from })
		b := append([]byte{}, content...)
		for _, s := range spans {
			b = append(b[:s.from], b[s.to:]...)
		}
		// removing a function can leave imports unused
		if fixed, err := imports.Process(name, b, &imports.Options{Comments: true, TabIndent: true, TabWidth: 8, FormatOnly: false}); err == nil {
			b = fixed
		}
		res.Overlay[name] = b
	}
	// verify that the package still type-checks; otherwise keep the helpers
	pkgs, err := loadPkgs(pkgPath)
	if err != nil || len(pkgs) != 1 || len(pkgs[0].Errors) > 0 {
		for name, b := range backup {
			res.Overlay[name] = b
		}
		res.Notes = append(res.Notes, fmt.Sprintf("helpers of %s kept (removal did not type-check)", relOf(pkgPath)))
		return nil
	}
	sort.Strings(names)
	res.Notes = append(res.Notes, fmt.Sprintf("%s: helper(s) %s are not in the inventory; their calls were inlined and the declarations dropped from the analysed text", relOf(pkgPath), strings.Join(names, ", ")))
	return nil
}

// saveNormalised writes the transformed files below <verif>/evidence/normalised for diagnosis.
func saveNormalised(res *normResult, repoDir, verifDir string) {
	if res == nil || len(res.Overlay) == 0 {
		return
	}
	base := filepath.Join(verifDir, "evidence", "normalised")
	os.RemoveAll(base)
	for name, b := range res.Overlay {
		rel, err := filepath.Rel(repoDir, name)
		if err != nil {
			continue
		}
		dst := filepath.Join(base, rel)
		os.MkdirAll(filepath.Dir(dst), 0o755)
		os.WriteFile(dst, b, 0o644)
	}
}

func processInlined(fname string, src []byte) ([]byte, error) {
	fixed, err := imports.Process(fname, src, &imports.Options{Comments: true, TabIndent: true, TabWidth: 8})
	if err != nil {
		return nil, err
	}
	if d, derr := simplifyDerefAddr(fname, fixed); derr == nil {
		fixed = d
	}
	if d, derr := dropSelfShadow(fname, fixed); derr == nil {
		fixed = d
	}
	if d, derr := inlineSingleUseFuncVar(fname, fixed); derr == nil {
		fixed = d
	}
	if d, derr := simplifyIIFE(fname, fixed); derr == nil {
		fixed = d
	}
	if flat, ferr := flattenBlocks(fname, fixed); ferr == nil {
		return flat, nil
	}
	return fixed, nil
}

// simplifyDerefAddr rewrites `*(&x)` (what substituting the argument `&x` for a pointer parameter leaves behind) to `x`.
func simplifyDerefAddr(fname string, src []byte) ([]byte, error) {
	fset := token.NewFileSet()
	f, err := parser.ParseFile(fset, fname, src, parser.ParseComments)
	if err != nil {
		return nil, err
	}
	var edits []textEdit
	off := func(p token.Pos) int { return fset.Position(p).Offset }
	ast.Inspect(f, func(n ast.Node) bool {
		st, ok := n.(*ast.StarExpr)
		if !ok {
			return true
		}
		if u, ok := ast.Unparen(st.X).(*ast.UnaryExpr); ok && u.Op == token.AND {
			if id, ok := ast.Unparen(u.X).(*ast.Ident); ok {
				edits = append(edits, textEdit{off(st.Pos()), off(st.End()), id.Name})
				return false
			}
		}
		return true
	})
	if len(edits) == 0 {
		return src, nil
	}
	return applyEdits(src, edits), nil
}

// dropSelfShadow removes `var x T = x` (the copy the x/tools inliner makes of an argument that has the parameter's
// name) when nothing from that declaration to the end of the enclosing function writes to a variable called x or
// takes its address: the copy and the original then always hold the same value, and dropping the copy keeps the
// identity of the variable visible to the rules.
func dropSelfShadow(fname string, src []byte) ([]byte, error) {
	fset := token.NewFileSet()
	f, err := parser.ParseFile(fset, fname, src, parser.ParseComments)
	if err != nil {
		return nil, err
	}
	off := func(p token.Pos) int { return fset.Position(p).Offset }
	var edits []textEdit
	for _, d := range f.Decls {
		fd, ok := d.(*ast.FuncDecl)
		if !ok || fd.Body == nil {
			continue
		}
		ast.Inspect(fd.Body, func(n ast.Node) bool {
			ds, ok := n.(*ast.DeclStmt)
			if !ok {
				return true
			}
			gd, ok := ds.Decl.(*ast.GenDecl)
			if !ok || gd.Tok != token.VAR || len(gd.Specs) != 1 {
				return true
			}
			vs, ok := gd.Specs[0].(*ast.ValueSpec)
			if !ok || len(vs.Names) != 1 || len(vs.Values) != 1 {
				return true
			}
			id, ok := ast.Unparen(vs.Values[0]).(*ast.Ident)
			if !ok || id.Name != vs.Names[0].Name || id.Name == "_" {
				return true
			}
			name := id.Name
			written := false
			ast.Inspect(fd.Body, func(m ast.Node) bool {
				if m == nil || written {
					return false
				}
				if m.End() <= ds.End() {
					return true // may contain later nodes only if it spans the declaration; leaves before it are skipped below
				}
				isName := func(e ast.Expr) bool {
					x, ok := ast.Unparen(e).(*ast.Ident)
					return ok && x.Name == name && x.Pos() > ds.End()
				}
				switch x := m.(type) {
				case *ast.AssignStmt:
					for _, l := range x.Lhs {
						if isName(l) {
							written = true
						}
					}
				case *ast.IncDecStmt:
					if isName(x.X) {
						written = true
					}
				case *ast.UnaryExpr:
					if x.Op == token.AND && isName(x.X) {
						written = true
					}
				case *ast.RangeStmt:
					if (x.Key != nil && isName(x.Key)) || (x.Value != nil && isName(x.Value)) {
						written = true
					}
				}
				return true
			})
			if !written {
				edits = append(edits, textEdit{off(ds.Pos()), off(ds.End()), ""})
			}
			return true
		})
	}
	if len(edits) == 0 {
		return src, nil
	}
	return applyEdits(src, edits), nil
}

// simplifyIIFE splices `return (func() T { BODY })()` into BODY: the returns of the literal become returns of the
// enclosing function (same result types, since the call was the whole return operand). Only literals without
// parameters, without defer/recover and whose body ends in a return are spliced.
func simplifyIIFE(fname string, src []byte) ([]byte, error) {
	fset := token.NewFileSet()
	f, err := parser.ParseFile(fset, fname, src, parser.ParseComments)
	if err != nil {
		return nil, err
	}
	off := func(p token.Pos) int { return fset.Position(p).Offset }
	var edits []textEdit
	ast.Inspect(f, func(n ast.Node) bool {
		ret, ok := n.(*ast.ReturnStmt)
		if !ok || len(ret.Results) != 1 {
			return true
		}
		call, ok := ast.Unparen(ret.Results[0]).(*ast.CallExpr)
		if !ok || len(call.Args) != 0 {
			return true
		}
		lit, ok := ast.Unparen(call.Fun).(*ast.FuncLit)
		if !ok || lit.Type.Params.NumFields() != 0 || len(lit.Body.List) == 0 {
			return true
		}
		if _, endsInReturn := lit.Body.List[len(lit.Body.List)-1].(*ast.ReturnStmt); !endsInReturn {
			return true
		}
		clean := true
		ast.Inspect(lit.Body, func(m ast.Node) bool {
			switch x := m.(type) {
			case *ast.FuncLit:
				return false // returns in there are its own
			case *ast.DeferStmt:
				clean = false
			case *ast.CallExpr:
				if id, ok := x.Fun.(*ast.Ident); ok && id.Name == "recover" {
					clean = false
				}
			case *ast.ReturnStmt:
				if len(x.Results) == 0 {
					clean = false // named results of the literal
				}
			}
			return clean
		})
		if !clean {
			return true
		}
		body := string(src[off(lit.Body.Lbrace)+1 : off(lit.Body.Rbrace)])
		edits = append(edits, textEdit{off(ret.Pos()), off(ret.End()), "{" + body + "}"})
		return false
	})
	if len(edits) == 0 {
		return src, nil
	}
	return applyEdits(src, edits), nil
}

// inlineSingleUseFuncVar removes `var fn func(...) ... = E` (the binding the x/tools inliner makes for a function-valued
// argument) when fn is used exactly once afterwards, as the operand of a call, and E is a function literal or a method
// value / function name built from identifiers that are never assigned in the enclosing function: `fn(args)` becomes
// `(E)(args)`.
func inlineSingleUseFuncVar(fname string, src []byte) ([]byte, error) {
	fset := token.NewFileSet()
	f, err := parser.ParseFile(fset, fname, src, parser.ParseComments)
	if err != nil {
		return nil, err
	}
	off := func(p token.Pos) int { return fset.Position(p).Offset }
	var edits []textEdit
	for _, d := range f.Decls {
		fd, ok := d.(*ast.FuncDecl)
		if !ok || fd.Body == nil {
			continue
		}
		assignedNames := map[string]bool{}
		ast.Inspect(fd.Body, func(n ast.Node) bool {
			switch x := n.(type) {
			case *ast.AssignStmt:
				for _, l := range x.Lhs {
					if id, ok := ast.Unparen(l).(*ast.Ident); ok {
						assignedNames[id.Name] = true
					}
				}
			case *ast.IncDecStmt:
				if id, ok := ast.Unparen(x.X).(*ast.Ident); ok {
					assignedNames[id.Name] = true
				}
			case *ast.UnaryExpr:
				if x.Op == token.AND {
					if id, ok := ast.Unparen(x.X).(*ast.Ident); ok {
						assignedNames[id.Name] = true
					}
				}
			}
			return true
		})
		ast.Inspect(fd.Body, func(n ast.Node) bool {
			ds, ok := n.(*ast.DeclStmt)
			if !ok {
				return true
			}
			gd, ok := ds.Decl.(*ast.GenDecl)
			if !ok || gd.Tok != token.VAR || len(gd.Specs) != 1 {
				return true
			}
			vs, ok := gd.Specs[0].(*ast.ValueSpec)
			if !ok || len(vs.Names) != 1 || len(vs.Values) != 1 {
				return true
			}
			if _, isFunc := vs.Type.(*ast.FuncType); !isFunc {
				return true
			}
			name := vs.Names[0].Name
			if name == "_" || assignedNames[name] {
				return true
			}
			e := ast.Unparen(vs.Values[0])
			stable := false
			switch x := e.(type) {
			case *ast.FuncLit:
				stable = true
			case *ast.Ident:
				stable = !assignedNames[x.Name]
			case *ast.SelectorExpr:
				if id, ok := ast.Unparen(x.X).(*ast.Ident); ok {
					stable = !assignedNames[id.Name]
				}
			}
			if !stable {
				return true
			}
			var useCall *ast.CallExpr
			uses := 0
			callFun := map[*ast.Ident]*ast.CallExpr{}
			ast.Inspect(fd.Body, func(m ast.Node) bool {
				if call, ok := m.(*ast.CallExpr); ok {
					if id, ok := call.Fun.(*ast.Ident); ok {
						callFun[id] = call
					}
				}
				if id, ok := m.(*ast.Ident); ok && id.Name == name && id.Pos() > ds.End() {
					uses++
					useCall = callFun[id]
				}
				return true
			})
			if uses != 1 || useCall == nil {
				return true
			}
			// a following `_ = fn` keep-alive would be a second use; nothing else to clean up
			etext := string(src[off(vs.Values[0].Pos()):off(vs.Values[0].End())])
			edits = append(edits, textEdit{off(ds.Pos()), off(ds.End()), ""})
			edits = append(edits, textEdit{off(useCall.Fun.Pos()), off(useCall.Fun.End()), "(" + etext + ")"})
			return true
		})
	}
	if len(edits) == 0 {
		return src, nil
	}
	return applyEdits(src, edits), nil
}
