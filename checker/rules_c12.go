package main

import (
	"fmt"
	"go/ast"
	"go/token"
	"go/types"
	"regexp"
	"strconv"
	"strings"
)

func init() {
	register(&Property{
		ID:          "C12",
		Explanation: "Pattern safety and ancestry guard of recursive remove/rename, decided from the source: (like-safety) every SQL predicate `like ?` issued by pkg/persisters whose bound argument derives from a caller-supplied name has every row leaving the function filtered in Go by strings.HasPrefix(row name, the literal prefix) (an ESCAPE clause alone is not enough: LIKE ignores ASCII case) - must-dataflow from the query to the append that builds the result; (ancestry-guard) in STFS.Rename every path to the move is across an error-returning branch whose condition relates oldname and newname by a prefix/relative-path test, not mere equality; (subtree-coverage) in Operations.Delete/Move the descendant lookup is called with the operation's own name when the entry is a directory and all rows returned join the slice the write loop ranges over.",
		NotDecided:  "What SQLite's LIKE matches for a given tree, the textual prefix trimming of Move for odd names, symlink rows.",
		Assumptions: []string{"strings.HasPrefix is the literal-prefix test; names in the index use '/' separators"},
		Rules:       []func(*Ctx){ruleC12LikeSafety, ruleC12AncestryGuard, ruleC12SubtreeCoverage},
	})
}

var likeRe = regexp.MustCompile(`(?i)\blike\s+\?`)

// sqlTextOf collects the string-literal fragments that make up expression e (concatenations, Sprintf formats,
// local variables defined from such expressions).
func sqlTextOf(f *FuncInfo, e ast.Expr, depth int) string {
	info := f.Pkg.TypesInfo
	var sb strings.Builder
	ast.Inspect(e, func(n ast.Node) bool {
		switch x := n.(type) {
		case *ast.BasicLit:
			if x.Kind == token.STRING {
				if s, err := strconv.Unquote(x.Value); err == nil {
					sb.WriteString(s)
					sb.WriteString(" ")
				}
			}
		case *ast.Ident:
			if v, ok := info.Uses[x].(*types.Var); ok && !v.IsField() && depth < 2 {
				if st, _, _ := defOf(f, v); st != nil {
					for _, r := range st.Rhs {
						sb.WriteString(sqlTextOf(f, r, depth+1))
					}
				}
			}
		}
		return true
	})
	return sb.String()
}

type likeQuery struct {
	f    *FuncInfo // function (or literal) containing the query call
	call *ast.CallExpr
	text string
	arg  ast.Expr // the bound argument of the like predicate (best effort: argument containing "%")
}

func likeQueries(c *Ctx) []likeQuery {
	var out []likeQuery
	for _, f := range c.Funcs {
		if f.RelPkg() != "pkg/persisters" {
			continue
		}
		for _, cs := range f.calls {
			fn, ok := cs.Callee.(*types.Func)
			if !ok || fn.Pkg() == nil {
				continue
			}
			isWhere := fn.Name() == "Where" && strings.HasSuffix(fn.Pkg().Path(), "queries/qm")
			isRaw := fn.Name() == "Raw" && fn.Pkg().Path() == queriesPath
			if !isWhere && !isRaw || len(cs.Call.Args) == 0 {
				continue
			}
			text := sqlTextOf(f, cs.Call.Args[0], 0)
			if !likeRe.MatchString(text) {
				continue
			}
			var arg ast.Expr
			for _, a := range cs.Call.Args[1:] {
				if strings.Contains(sqlTextOf(f, a, 0), "%") {
					arg = a
				}
			}
			out = append(out, likeQuery{f, cs.Call, text, arg})
		}
	}
	return out
}

func ruleC12LikeSafety(c *Ctx) {
	const rule = "C12.like-safety"
	c.floor(rule, 2, "`like ?` predicates in pkg/persisters")
	qs := likeQueries(c)
	// de-duplicate queries issued twice from one function (limit / no-limit variants share one text)
	seen := map[string]bool{}
	n := 0
	for _, q := range qs {
		root := q.f
		for root.Outer != nil {
			root = root.Outer
		}
		key := root.Name + "|" + q.text
		if seen[key] {
			continue
		}
		seen[key] = true
		n++
		construct := fmt.Sprintf("like#%d", n)
		info := root.Pkg.TypesInfo
		// an ESCAPE clause neutralises '_' and '%' but SQLite's LIKE still ignores ASCII case, so the literal-prefix
		// re-check in Go is required either way
		// Go-side filter: every append that builds the returned slice is guarded by strings.HasPrefix(<row>.Name, ...)
		var retSlice types.Object
		for _, ret := range returnsIn(root) {
			if len(ret.Results) >= 1 && returnsNil(info, ret) {
				if o := objOfIdent(info, ret.Results[0]); o != nil {
					retSlice = o
				}
			}
		}
		if retSlice == nil {
			c.undecided(rule, root, construct, q.call.Pos(), "cannot identify the slice this function returns")
			continue
		}
		fl := c.flow(root)
		appends := 0
		unguarded := ""
		walkOwn(root.Body(), func(nd ast.Node) {
			as, ok := nd.(*ast.AssignStmt)
			if !ok || len(as.Lhs) != 1 || len(as.Rhs) != 1 || objOfIdent(info, as.Lhs[0]) != retSlice {
				return
			}
			call, ok := ast.Unparen(as.Rhs[0]).(*ast.CallExpr)
			if !ok {
				return
			}
			if b, ok := calleeObj(info, call).(*types.Builtin); !ok || b.Name() != "append" {
				return
			}
			appends++
			okk, reach := fl.guardedBy(as, func(ft Fact) bool {
				if !ft.Pos {
					return false
				}
				hp, ok := ast.Unparen(ft.E).(*ast.CallExpr)
				if !ok || !isPkgFunc(calleeObj(info, hp), "strings", "HasPrefix") || len(hp.Args) != 2 {
					return false
				}
				se, ok := ast.Unparen(hp.Args[0]).(*ast.SelectorExpr)
				return ok && se.Sel.Name == "Name"
			}, func(m ast.Node) bool {
				// `if !strings.HasPrefix(..) { continue }` form: the negative branch leaves the loop body
				return false
			})
			if reach && !okk {
				unguarded = c.pos(as.Pos())
			}
		})
		if appends == 0 {
			c.bad(rule, root, construct, q.call.Pos(), "rows selected with an unescaped `like ?` pattern built from a caller-supplied name are returned unfiltered: '_' and '%%' in a directory name act as wildcards (and LIKE is case-insensitive), so sibling subtrees are affected")
			continue
		}
		c.verdictIf(unguarded == "", rule, root, construct, q.call.Pos(),
			"unescaped LIKE, but every row is re-checked with strings.HasPrefix on the literal prefix before it is returned",
			"rows selected with an unescaped `like ?` pattern built from a caller-supplied name reach the result without a literal-prefix check (append at "+unguarded+"): '_' and '%' in a directory name act as wildcards (and LIKE is case-insensitive), so RemoveAll/Rename/listing touch sibling subtrees")
	}
}

func ruleC12AncestryGuard(c *Ctx) {
	const rule = "C12.ancestry-guard"
	c.floor(rule, 1, "the move call in STFS.Rename")
	f := c.fn("pkg/fs", "(*STFS).Rename")
	move := c.fn("pkg/operations", "(*Operations).Move")
	if f == nil || move == nil {
		return
	}
	info := f.Pkg.TypesInfo
	oldV, newV := paramVar(f, "oldname"), paramVar(f, "newname")
	if oldV == nil || newV == nil {
		c.unresolved("parameters oldname/newname of STFS.Rename")
		return
	}
	fl := c.flow(f)
	n := 0
	for _, cs := range f.calls {
		if cs.Target != move {
			continue
		}
		n++
		okk, _ := fl.guardedBy(cs.Call, func(ft Fact) bool {
			// the move is on the negative side of a prefix / relative-path test relating both names
			call, ok := ast.Unparen(ft.E).(*ast.CallExpr)
			if !ok {
				// or `rel, err := filepath.Rel(old, new)` followed by a test on rel: accept a condition that
				// mentions a variable defined from filepath.Rel of both names
				uses := false
				ast.Inspect(ft.E, func(m ast.Node) bool {
					if id, ok := m.(*ast.Ident); ok {
						if _, dcall, _ := defOf(f, info.Uses[id]); dcall != nil && isPkgFunc(calleeObj(info, dcall), "path/filepath", "Rel") &&
							usesObj(info, dcall, oldV) && usesObj(info, dcall, newV) {
							uses = true
						}
					}
					return true
				})
				return uses
			}
			o := calleeObj(info, call)
			if !(isPkgFunc(o, "strings", "HasPrefix") || isPkgFunc(o, "strings", "Contains")) {
				return false
			}
			return !ft.Pos && len(call.Args) == 2 && usesObj(info, call.Args[0], newV) && usesObj(info, call.Args[1], oldV)
		}, nil)
		c.verdictIf(okk, rule, f, fmt.Sprintf("Move#%d", n), cs.Call.Pos(),
			"the move happens only when the destination is not inside the source's subtree", "Rename reaches Move without any test relating newname to oldname's subtree: a directory can be renamed into itself, detaching the subtree from the root")
	}
	if n == 0 {
		c.unresolved("STFS.Rename no longer calls Operations.Move")
	}
	// the index store treats "a", "/a" and "./a" as one entry: a textual prefix test must compare both names in a
	// form from which the leading separator has been removed (or it misses Rename("a", "/a/b"))
	k := 0
	walkOwn(f.Body(), func(nd ast.Node) {
		is, ok := nd.(*ast.IfStmt)
		if !ok {
			return
		}
		call, ok := ast.Unparen(is.Cond).(*ast.CallExpr)
		if !ok || !isPkgFunc(calleeObj(info, call), "strings", "HasPrefix") || len(call.Args) != 2 || !usesObj(info, call.Args[0], newV) || !usesObj(info, call.Args[1], oldV) {
			return
		}
		k++
		stripsLeadingSep := func(e ast.Expr, v *types.Var) bool {
			found := false
			ast.Inspect(e, func(m ast.Node) bool {
				c2, ok := m.(*ast.CallExpr)
				if !ok || len(c2.Args) != 2 {
					return true
				}
				o := calleeObj(info, c2)
				if !(isPkgFunc(o, "strings", "TrimPrefix") || isPkgFunc(o, "strings", "TrimLeft")) || !usesObj(info, c2.Args[0], v) {
					return true
				}
				if tv, ok := info.Types[c2.Args[1]]; ok && tv.Value != nil && (tv.Value.String() == `"/"` || tv.Value.String() == `"\\"`) {
					found = true
				}
				return true
			})
			return found
		}
		good := stripsLeadingSep(call.Args[0], newV) && stripsLeadingSep(call.Args[1], oldV)
		c.verdictIf(good, rule, f, fmt.Sprintf("subtree test#%d spelling-insensitive", k), is.Pos(), "both names are compared without their leading separator",
			"the subtree test compares the two names textually as given: a relative spelling of the source (\"a\") is not a prefix of an absolute destination (\"/a/b\") although both address the same entry, so the directory is moved into its own subtree and detached from the root")
	})
}

func ruleC12SubtreeCoverage(c *Ctx) {
	const rule = "C12.subtree-coverage"
	c.floor(rule, 4, "Delete and Move: descendant lookup and its use")
	children := c.ifaceMethod("pkg/config", "MetadataPersister", "GetHeaderChildren")
	getHeader := c.ifaceMethod("pkg/config", "MetadataPersister", "GetHeader")
	if children == nil || getHeader == nil {
		return
	}
	for _, name := range []string{"(*Operations).Delete", "(*Operations).Move"} {
		f := c.fn("pkg/operations", name)
		if f == nil {
			continue
		}
		info := f.Pkg.TypesInfo
		var chCall, ghCall *ast.CallExpr
		for _, cs := range f.calls {
			if cs.Callee == types.Object(children) {
				chCall = cs.Call
			}
			if cs.Callee == types.Object(getHeader) && ghCall == nil {
				ghCall = cs.Call
			}
		}
		if chCall == nil || ghCall == nil {
			c.bad(rule, f, "descendant lookup", f.Decl.Pos(), "the operation no longer looks up the descendants of a directory: entries beneath it would be left behind")
			continue
		}
		same := len(chCall.Args) == 2 && len(ghCall.Args) == 2 && objOfIdent(info, chCall.Args[1]) != nil && objOfIdent(info, chCall.Args[1]) == objOfIdent(info, ghCall.Args[1])
		c.verdictIf(same, rule, f, "descendant lookup name", chCall.Pos(), "descendants are looked up under the same name as the entry itself", "descendants are looked up under a different name than the entry")
		// result variable is appended in full to the slice the write loop ranges over
		var resVar types.Object
		walkOwn(f.Body(), func(nd ast.Node) {
			as, ok := nd.(*ast.AssignStmt)
			if ok && len(as.Rhs) == 1 && ast.Unparen(as.Rhs[0]) == ast.Expr(chCall) {
				resVar = objOfIdent(info, as.Lhs[0])
			}
		})
		var loopSlice types.Object
		walkOwn(f.Body(), func(nd ast.Node) {
			rs, ok := nd.(*ast.RangeStmt)
			if !ok {
				return
			}
			has := false
			ast.Inspect(rs.Body, func(m ast.Node) bool {
				if call, ok := m.(*ast.CallExpr); ok && isMethod(calleeObj(info, call), "archive/tar", "Writer", "WriteHeader") {
					has = true
				}
				return true
			})
			if has {
				loopSlice = objOfIdent(info, rs.X)
			}
		})
		appended := false
		walkOwn(f.Body(), func(nd ast.Node) {
			as, ok := nd.(*ast.AssignStmt)
			if !ok || len(as.Lhs) != 1 || len(as.Rhs) != 1 || objOfIdent(info, as.Lhs[0]) != loopSlice {
				return
			}
			call, ok := ast.Unparen(as.Rhs[0]).(*ast.CallExpr)
			if !ok || !call.Ellipsis.IsValid() || len(call.Args) != 2 {
				return
			}
			if objOfIdent(info, call.Args[0]) == loopSlice && objOfIdent(info, call.Args[1]) == resVar {
				appended = true
			}
		})
		c.verdictIf(appended && resVar != nil && loopSlice != nil, rule, f, "all descendants written", chCall.Pos(),
			"every descendant returned joins the slice the write loop ranges over", "the descendants returned by the lookup are not all handed to the write loop")
	}
}
