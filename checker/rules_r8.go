package main

// Rules added after the eighth round of independently seeded changes (see DESIGN.md §7.10).

import (
	"fmt"
	"go/ast"
	"go/token"
	"go/types"
	"regexp"
	"strings"
)

func init() {
	extend("C02", ruleSQLLengthsMeasuredInSQL("C02.sql-lengths-measured-in-sql"))
	extend("C13", ruleSQLLengthsMeasuredInSQL("C13.sql-lengths-measured-in-sql"), ruleRootListingSpecialCased("C13.root-listing-special-cased"))
	extend("C04", ruleReplacesContentUnconditional("C04.replaces-content-unconditional"))
	extend("C06", ruleFreshReaderPerRetry("C06.fresh-reader-per-retry"))
	extend("C07", ruleRootPickedByCreationOrder("C07.root-picked-by-creation-order"))
	extend("C16", ruleRootPickedByCreationOrder("C16.root-picked-by-creation-order"))
	extend("C12", ruleLikeEscapeComplete("C12.like-escape-complete"))
	extend("C14", rulePositionedWriteOrder("C14.positioned-write-order"))
	extend("C17", ruleNoListingCacheInHandle("C17.no-listing-cache-in-handle"))
	extend("C13", ruleNoListingCacheInHandle("C13.no-listing-cache-in-handle"))
	extend("C18", ruleNoPromotedWriterShortcuts("C18.no-promoted-writer-shortcuts"))
	extend("C09", ruleNoPromotedWriterShortcuts("C09.no-promoted-writer-shortcuts"))
}

// ruleSQLLengthsMeasuredInSQL: SQLite's substr/length count characters, Go's len counts bytes. A string position or
// length that a statement uses is measured by the statement itself (`length(?)` over the bound string); binding
// `len(s)` of a Go string cuts non-ASCII names at the wrong place.
func ruleSQLLengthsMeasuredInSQL(rule string) func(*Ctx) {
	return func(c *Ctx) {
		c.floor(rule, 10, "values bound to raw statements in pkg/persisters")
		n := 0
		for _, f := range c.Funcs {
			if f.RelPkg() != "pkg/persisters" {
				continue
			}
			info := f.Pkg.TypesInfo
			for _, cs := range f.calls {
				fn, ok := cs.Callee.(*types.Func)
				if !ok || fn.Name() != "Raw" || fn.Pkg() == nil || fn.Pkg().Path() != queriesPath {
					continue
				}
				for i, a := range cs.Call.Args[1:] {
					n++
					byteLen := false
					inspectThrough(f, a, func(m ast.Node) bool {
						call, ok := m.(*ast.CallExpr)
						if !ok || len(call.Args) != 1 {
							return true
						}
						id, ok := ast.Unparen(call.Fun).(*ast.Ident)
						if !ok {
							return true
						}
						if b, ok := info.Uses[id].(*types.Builtin); ok && b.Name() == "len" {
							if tv, ok := info.Types[call.Args[0]]; ok && tv.Type != nil && isStringType(tv.Type) {
								byteLen = true
							}
						}
						return !byteLen
					})
					c.verdictIf(!byteLen, rule, f, fmt.Sprintf("Raw#%d arg%d", ordinalOfPos(f, cs.Call), i+1), a.Pos(), "no Go byte length is bound to the statement",
						"the statement is given the BYTE length of a Go string ("+exprString(a)+") where SQLite's substr/length work in characters: for a directory whose path contains non-ASCII characters the cut lands too far right, swallows the slash between a child and a grandchild, and grandchildren are listed as children")
				}
			}
		}
	}
}

// ordinalOfPos: the 1-based ordinal of call among the calls of f, in source order.
func ordinalOfPos(f *FuncInfo, call *ast.CallExpr) int {
	k := 0
	for _, cs := range f.calls {
		if cs.Call.Pos() <= call.Pos() {
			k++
		}
	}
	return k
}

// ruleRootListingSpecialCased: rebuilt indexes store the root as "" and every name relative to it, so "the prefix of
// the listed directory plus a slash" matches nothing for the root: the one-level listing keeps its root case (an empty
// prefix under pathext.IsRoot).
func ruleRootListingSpecialCased(rule string) func(*Ctx) {
	return func(c *Ctx) {
		c.floor(rule, 1, "the root case of GetHeaderDirectChildren")
		f := c.fn("pkg/persisters", "(*MetadataPersister).GetHeaderDirectChildren")
		isRoot := c.fn("internal/pathext", "IsRoot")
		if f == nil || isRoot == nil {
			return
		}
		info := f.Pkg.TypesInfo
		found := false
		at := f.Pos()
		walkOwn(f.Body(), func(nd ast.Node) {
			as, ok := nd.(*ast.AssignStmt)
			if !ok || len(as.Lhs) != 1 || len(as.Rhs) != 1 {
				return
			}
			if s, ok := constString(info, as.Rhs[0]); !ok || s != "" {
				return
			}
			for _, cl := range enclosingCondsFlow(info, f.Body(), as) {
				if call, ok := ast.Unparen(cl.e).(*ast.CallExpr); ok && cl.pos && calleeObj(info, call) == types.Object(isRoot.Obj) {
					found = true
					at = as.Pos()
				}
			}
		})
		c.verdictIf(found, rule, f, "root prefix", at, "the root is listed with an empty prefix",
			"the one-level listing has no case for the root any more: in an index rebuilt from the tape the root is \"\" and names are relative, so the prefix \"/\" matches no row and listing the root returns nothing although Stat and Open still work")
	}
}

// ruleReplacesContentUnconditional: an update that replaces content says so whatever the new content is. The record of
// a file that has been replaced by an EMPTY one carries no stream, but it still replaces what was there; flagging it as
// metadata-only leaves the index pointing at the old content with size 0.
func ruleReplacesContentUnconditional(rule string) func(*Ctx) {
	return func(c *Ctx) {
		c.floor(rule, 1, "stores of STFS.ReplacesContent=true in Operations.Update")
		f := c.fn("pkg/operations", "(*Operations).Update")
		key := c.constObj("internal/records", "STFSRecordReplacesContent")
		val := c.constObj("internal/records", "STFSRecordReplacesContentTrue")
		if f == nil || key == nil || val == nil {
			return
		}
		info := f.Pkg.TypesInfo
		replace := paramVar(f, "replace")
		n := 0
		walkOwn(f.Body(), func(nd ast.Node) {
			as, ok := nd.(*ast.AssignStmt)
			if !ok || len(as.Lhs) != 1 || len(as.Rhs) != 1 {
				return
			}
			ix, ok := ast.Unparen(as.Lhs[0]).(*ast.IndexExpr)
			if !ok || constOf(info, ix.Index) != key || constOf(info, as.Rhs[0]) != val {
				return
			}
			n++
			var others []string
			// (the conditions the store is nested in; guard clauses that ended the call earlier are preconditions of the
			// whole member, not of this flag)
			for _, cl := range enclosingConds(f.Body(), as) {
				if objOfIdent(info, cl.e) == types.Object(replace) && cl.pos {
					continue
				}
				others = append(others, exprString(cl.e))
			}
			c.verdictIf(len(others) == 0, rule, f, fmt.Sprintf("ReplacesContent=true#%d", n), as.Pos(), "a replacing update is flagged as such whatever its content",
				"whether a replacing update is flagged STFS.ReplacesContent=true also depends on "+strings.Join(others, ", ")+": a file replaced by an empty one (no stream follows) is recorded as a metadata-only change, so the index keeps its old position with size 0 and fetching it returns the previous content")
		})
		if n == 0 {
			c.unresolved("Operations.Update no longer stores STFS.ReplacesContent=true")
		}
	}
}

// ruleFreshReaderPerRetry: a tar.Reader's error is sticky: once Next has failed it keeps returning that error without
// reading. The resynchronisation loops therefore make a NEW reader for every position they try - the reader whose Next
// is called in the loop body is assigned from tar.NewReader earlier in the same body.
func ruleFreshReaderPerRetry(rule string) func(*Ctx) {
	return func(c *Ctx) {
		c.floor(rule, 2, "resynchronisation loops of recovery.Index and recovery.Query")
		n := 0
		for _, name := range []string{"Index", "Query"} {
			f := c.fn("pkg/recovery", name)
			if f == nil {
				continue
			}
			info := f.Pkg.TypesInfo
			for li, loop := range resyncLoops(c, f) {
				var nextRecv types.Object
				var nextPos token.Pos
				ast.Inspect(loop.Body, func(m ast.Node) bool {
					if call, ok := m.(*ast.CallExpr); ok && isMethod(calleeObj(info, call), "archive/tar", "Reader", "Next") && nextRecv == nil {
						if se, ok := ast.Unparen(call.Fun).(*ast.SelectorExpr); ok {
							nextRecv = objOfIdent(info, se.X)
							nextPos = call.Pos()
						}
					}
					return true
				})
				if nextRecv == nil {
					continue
				}
				n++
				fresh := false
				for _, st := range loop.Body.List {
					if st.Pos() >= nextPos {
						break
					}
					if as, ok := st.(*ast.AssignStmt); ok && len(as.Lhs) == 1 && len(as.Rhs) == 1 && objOfIdent(info, as.Lhs[0]) == nextRecv {
						if call, ok := ast.Unparen(as.Rhs[0]).(*ast.CallExpr); ok && isPkgFunc(calleeObj(info, call), "archive/tar", "NewReader") {
							fresh = true
						}
					}
				}
				c.verdictIf(fresh, rule, f, fmt.Sprintf("resync loop#%d reader", li+1), loop.Pos(), "every retry reads through a new tar reader",
					"the resynchronisation loop calls Next on a tar reader that is not created anew in the same iteration: a tar.Reader keeps returning its first error without reading, so after one failed attempt the position never advances and a tape cut inside a header makes the rebuild spin forever")
			}
		}
		if n < 2 {
			c.unresolved("only %d resynchronisation loops with a Next call found", n)
		}
	}
}

var orderByRe = regexp.MustCompile(`(?i)order\s+by`)

// ruleRootPickedByCreationOrder: the root has the same depth as its direct children ("/" and "/a", "" and "a"), so
// GetRootPath must break that tie the way the tape does: the root is the entry that was created first. An ORDER BY on
// the name picks the alphabetically smallest top-level entry, one on the last-known position picks whatever was touched
// least recently (a chmod of the root moves it back).
func ruleRootPickedByCreationOrder(rule string) func(*Ctx) {
	return func(c *Ctx) {
		c.floor(rule, 1, "the root query of MetadataPersister.GetRootPath")
		f := c.fn("pkg/persisters", "(*MetadataPersister).GetRootPath")
		if f == nil {
			return
		}
		n := 0
		for _, cs := range f.calls {
			fn, ok := cs.Callee.(*types.Func)
			if !ok || fn.Name() != "Raw" || fn.Pkg() == nil || fn.Pkg().Path() != queriesPath || len(cs.Call.Args) == 0 {
				continue
			}
			n++
			pieces := flattenSQL(f, cs.Call.Args[0], 0)
			var bad []string
			after := false
			for i, pc := range pieces {
				if pc.expr == nil {
					if orderByRe.MatchString(pc.lit) {
						after = true
					}
					continue
				}
				if !after {
					continue
				}
				col := lastSelName(pc.expr)
				switch {
				case strings.HasPrefix(col, "Lastknown"):
					bad = append(bad, col)
				case col == "Name" || col == "Linkname":
					// a bare ordering term: not inside length(...)/replace(...)
					prev, next := "", ""
					if i > 0 && pieces[i-1].expr == nil {
						prev = strings.TrimSpace(pieces[i-1].lit)
					}
					if i+1 < len(pieces) && pieces[i+1].expr == nil {
						next = strings.TrimSpace(pieces[i+1].lit)
					}
					bare := (strings.HasSuffix(prev, ",") || orderByRe.MatchString(prev) && strings.HasSuffix(strings.ToLower(prev), "by")) && (next == "" || strings.HasPrefix(next, ",") || strings.HasPrefix(strings.ToLower(next), "limit") || strings.HasPrefix(strings.ToLower(next), "asc") || strings.HasPrefix(strings.ToLower(next), "desc"))
					if bare {
						bad = append(bad, col)
					}
				}
			}
			c.verdictIf(len(bad) == 0, rule, f, fmt.Sprintf("root query#%d", n), cs.Call.Pos(), "ties between the root and its children are not broken by name or by last-known position",
				"the root query orders rows of equal depth by "+strings.Join(bad, ", ")+": the root has the same depth as its direct children, so a top-level entry whose name sorts before the root's (\"-todo.txt\" before \".\"), or - with the last-known position - any entry once the root itself has been chmod-ed, is taken for the root when the index is opened again")
		}
		if n == 0 {
			c.unresolved("no raw root query found in GetRootPath")
		}
	}
}

var escapeClauseRe = regexp.MustCompile(`(?i)escape\s+'(.)'`)

// ruleLikeEscapeComplete: a LIKE pattern with an ESCAPE character has three characters with a meaning: % _ and the
// escape character itself. Escaping only the two wildcards makes a name containing the escape character match nothing
// (`\s` is a literal `s`): the directory lists as empty, and "not empty" checks built on the listing wave removals through.
func ruleLikeEscapeComplete(rule string) func(*Ctx) {
	return func(c *Ctx) {
		c.floor(rule, 2, "`like ?` predicates in pkg/persisters")
		n := 0
		for _, q := range likeQueries(c) {
			n++
			m := escapeClauseRe.FindStringSubmatch(sqlShapeOf(flattenSQL(q.f, q.call.Args[0], 0)))
			if m == nil {
				c.ok(rule, q.f, fmt.Sprintf("like#%d", n), q.call.Pos(), false, "no ESCAPE clause (matches are re-checked against the literal prefix, C12.like-safety)")
				continue
			}
			esc := m[1]
			// every strings.NewReplacer that feeds an argument of this call must also replace the escape character
			info := q.f.Pkg.TypesInfo
			complete, seen := true, false
			check := func(lit *ast.CallExpr) {
				seen = true
				has := false
				for i := 0; i+1 < len(lit.Args); i += 2 {
					if s, ok := constString(info, lit.Args[i]); ok && s == esc {
						has = true
					}
				}
				if !has {
					complete = false
				}
			}
			for _, a := range q.call.Args[1:] {
				inspectThrough(q.f, a, func(mn ast.Node) bool {
					call, ok := mn.(*ast.CallExpr)
					if !ok {
						return true
					}
					if isPkgFunc(calleeObj(info, call), "strings", "NewReplacer") {
						check(call)
					}
					// a package-level replacer: `var r = strings.NewReplacer(...)`; r.Replace(x)
					if se, ok := ast.Unparen(call.Fun).(*ast.SelectorExpr); ok && se.Sel.Name == "Replace" {
						if v, ok := objOfIdent(info, se.X).(*types.Var); ok {
							if init := packageVarInit(q.f, v); init != nil {
								if ic, ok := ast.Unparen(init).(*ast.CallExpr); ok && isPkgFunc(calleeObj(info, ic), "strings", "NewReplacer") {
									check(ic)
								}
							}
						}
					}
					return true
				})
			}
			c.verdictIf(seen && complete, rule, q.f, fmt.Sprintf("like#%d", n), q.call.Pos(), "the escape character is escaped along with the wildcards",
				"the pattern is used with ESCAPE '"+esc+"' but the escape character itself is not escaped in the bound value: for a directory whose name contains it the pattern matches none of its own children, the directory lists as empty, and Remove / Rename-onto-it delete it with everything beneath")
		}
	}
}

// packageVarInit: the initialiser expression of a package-level variable of f's package (nil if none).
func packageVarInit(f *FuncInfo, v *types.Var) ast.Expr {
	for _, file := range f.Pkg.Syntax {
		for _, d := range file.Decls {
			gd, ok := d.(*ast.GenDecl)
			if !ok || gd.Tok != token.VAR {
				continue
			}
			for _, sp := range gd.Specs {
				vs := sp.(*ast.ValueSpec)
				for i, nm := range vs.Names {
					if f.Pkg.TypesInfo.Defs[nm] == types.Object(v) && i < len(vs.Values) {
						return vs.Values[i]
					}
				}
			}
		}
	}
	return nil
}

// rulePositionedWriteOrder: a positioned write first turns the handle into a writing one and then seeks: entering
// write mode takes the READ position over (and resets it for O_TRUNC, leaves it at the end for O_APPEND), so a seek made
// before it is lost - and in read mode a target behind the end cannot be represented at all.
func rulePositionedWriteOrder(rule string) func(*Ctx) {
	return func(c *Ctx) {
		c.floor(rule, 1, "seeks in the writing methods of fs.File")
		enter := c.fn("pkg/fs", "(*File).enterWriteMode")
		seek := c.fn("pkg/fs", "(*File).seekWithoutLocking")
		if enter == nil || seek == nil {
			return
		}
		n := 0
		for _, f := range c.Funcs {
			if f.RelPkg() != "pkg/fs" || f.Decl == nil {
				continue
			}
			var enters, seeks []*CallSite
			for _, cs := range f.calls {
				if cs.Target == enter {
					enters = append(enters, cs)
				}
				if cs.Target == seek {
					seeks = append(seeks, cs)
				}
			}
			if len(enters) == 0 || len(seeks) == 0 {
				continue
			}
			info := f.Pkg.TypesInfo
			fl := c.flow(f)
			for i, sk := range seeks {
				n++
				okk, reach := fl.dominatedBy(sk.Call, func(nd ast.Node) bool {
					for _, call := range callsIn(nd) {
						if calleeObj(info, call) == types.Object(enter.Obj) {
							return true
						}
					}
					return false
				}, nil)
				if !reach {
					continue
				}
				c.verdictIf(okk, rule, f, fmt.Sprintf("seek#%d after entering write mode", i+1), sk.Call.Pos(), "the handle is in write mode when it is positioned",
					"the handle is positioned before it enters write mode: entering write mode takes over the read position, which cannot lie behind the end of the content and is reset by O_TRUNC, so WriteAt on a new file, with O_TRUNC, or behind the end writes at the wrong offset without an error")
			}
		}
		if n == 0 {
			c.unresolved("no method of fs.File both enters write mode and seeks")
		}
	}
}

// ruleNoListingCacheInHandle: a directory handle answers every listing from the index. A field that remembers a
// listing (a slice or map of file infos or headers) is a second copy that goes stale as soon as the directory changes
// while the handle stays open.
func ruleNoListingCacheInHandle(rule string) func(*Ctx) {
	return func(c *Ctx) {
		c.floor(rule, 8, "fields of fs.File")
		nt := c.namedType("pkg/fs", "File")
		if nt == nil {
			return
		}
		st, ok := nt.Underlying().(*types.Struct)
		if !ok {
			c.unresolved("fs.File is not a struct")
			return
		}
		isEntry := func(t types.Type) bool {
			t = types.Unalias(t)
			if p, ok := t.(*types.Pointer); ok {
				t = types.Unalias(p.Elem())
			}
			n, ok := t.(*types.Named)
			if !ok || n.Obj().Pkg() == nil {
				return false
			}
			name, pp := n.Obj().Name(), n.Obj().Pkg().Path()
			return (name == "FileInfo" && (pp == "io/fs" || pp == "os" || strings.HasPrefix(pp, modPath+"/"))) || (name == "Header" && (pp == "archive/tar" || strings.HasPrefix(pp, modPath+"/"))) || (name == "DirEntry" && pp == "io/fs")
		}
		for i := 0; i < st.NumFields(); i++ {
			fv := st.Field(i)
			holds := false
			switch x := fv.Type().Underlying().(type) {
			case *types.Slice:
				holds = isEntry(x.Elem())
			case *types.Map:
				holds = isEntry(x.Elem())
			case *types.Array:
				holds = isEntry(x.Elem())
			}
			c.verdictIf(!holds, rule, nil, "File."+fv.Name(), fv.Pos(), "holds no remembered listing",
				"File."+fv.Name()+" ("+fv.Type().String()+") remembers a listing: a directory handle that stays open while entries are added or removed keeps reporting the old listing (the pattern `open dir; change; list again through the same handle` then disagrees with a fresh listing and with Stat)")
		}
	}
}

// ruleNoPromotedWriterShortcuts: a type that wraps a writer and declares its own Write must not pick up ReadFrom,
// WriteTo or WriteString from an embedded field: io.Copy and io.WriteString prefer those, and they write to the
// embedded value directly - past whatever the wrapper's Write does (encrypt, count, verify).
func ruleNoPromotedWriterShortcuts(rule string) func(*Ctx) {
	return func(c *Ctx) {
		c.floor(rule, 3, "struct types with a Write method in the library")
		n := 0
		for _, p := range c.Pkgs {
			rel := strings.TrimPrefix(p.PkgPath, modPath+"/")
			if !(strings.HasPrefix(rel, "pkg/") || strings.HasPrefix(rel, "internal/")) || strings.HasPrefix(rel, "internal/db/") {
				continue
			}
			scope := p.Types.Scope()
			for _, name := range scope.Names() {
				tn, ok := scope.Lookup(name).(*types.TypeName)
				if !ok {
					continue
				}
				nt, ok := tn.Type().(*types.Named)
				if !ok {
					continue
				}
				if _, isStruct := nt.Underlying().(*types.Struct); !isStruct {
					continue
				}
				ms := types.NewMethodSet(types.NewPointer(nt))
				declares := func(m string) (declared, present bool) {
					sel := ms.Lookup(p.Types, m)
					if sel == nil {
						sel = ms.Lookup(nil, m)
					}
					if sel == nil {
						return false, false
					}
					return len(sel.Index()) == 1, true
				}
				wDecl, wPresent := declares("Write")
				if !wPresent {
					continue
				}
				n++
				var promoted []string
				for _, m := range []string{"ReadFrom", "WriteTo", "WriteString"} {
					d, present := declares(m)
					if present && !d && wDecl {
						promoted = append(promoted, m)
					}
				}
				c.verdictIf(len(promoted) == 0, rule, nil, rel+"."+name, tn.Pos(), "no copy shortcut is promoted past the type's own Write",
					rel+"."+name+" declares its own Write but picks up "+strings.Join(promoted, ", ")+" from an embedded field: io.Copy / io.WriteString call those instead of Write, so the bytes go to the embedded writer directly - for an encrypting wrapper, in clear")
			}
		}
	}
}

func init() {
	extend("C07", ruleCreateArmReadsNothing("C07.create-and-delete-arms-read-nothing"))
}

// ruleCreateArmReadsNothing: a creation record describes its entry completely and a removal record names its entry;
// what either does to the index must not depend on rows other than the one it names. In the create and delete arms of
// indexHeader's action dispatch every persister call therefore is the arm's one mutator - no method that hands rows
// back (a lookup or a listing): a decision taken on such rows (refusing a name that collides with a sibling, skipping
// a record whose parent is missing) makes the replay of one and the same tape succeed over an empty index and fail
// over one that still holds other rows - the rebuilt index then depends on what was there before.
func ruleCreateArmReadsNothing(rule string) func(*Ctx) {
	return func(c *Ctx) {
		c.floor(rule, 2, "persister calls in the create and delete arms of indexHeader")
		f := c.fn("pkg/recovery", "indexHeader")
		if f == nil {
			return
		}
		info := f.Pkg.TypesInfo
		returnsRows := func(fn *types.Func) bool {
			sig := fn.Type().(*types.Signature)
			for i := 0; i < sig.Results().Len(); i++ {
				t := types.Unalias(sig.Results().At(i).Type())
				if s, ok := t.Underlying().(*types.Slice); ok {
					t = types.Unalias(s.Elem())
				}
				if p, ok := t.(*types.Pointer); ok {
					t = types.Unalias(p.Elem())
				}
				if n, ok := t.(*types.Named); ok && n.Obj().Name() == "Header" {
					return true
				}
			}
			return false
		}
		n := 0
		for _, dt := range dispatchTablesIn(f) {
			for _, arm := range dt.t.Arms {
				which := ""
				for _, l := range arm.Labels {
					if l == nil {
						continue
					}
					switch l.Name() {
					case "STFSRecordActionCreate":
						which = "create"
					case "STFSRecordActionDelete":
						which = "delete"
					}
				}
				if which == "" {
					continue
				}
				k := 0
				for _, st := range arm.Body {
					ast.Inspect(st, func(m ast.Node) bool {
						call, ok := m.(*ast.CallExpr)
						if !ok {
							return true
						}
						se, ok := ast.Unparen(call.Fun).(*ast.SelectorExpr)
						if !ok {
							return true
						}
						tv, ok := info.Types[se.X]
						if !ok {
							return true
						}
						t := types.Unalias(tv.Type)
						if p, ok := t.(*types.Pointer); ok {
							t = types.Unalias(p.Elem())
						}
						nt, ok := t.(*types.Named)
						if !ok || nt.Obj().Name() != "MetadataPersister" {
							return true
						}
						fn, ok := calleeObj(info, call).(*types.Func)
						if !ok {
							return true
						}
						n++
						k++
						// the delete arm's mutator returns the row it removed; a mutator is told apart from a lookup by
						// the record position it is given
						mutator := !returnsRows(fn) || strings.HasPrefix(fn.Name(), "Delete") || strings.HasPrefix(fn.Name(), "Upsert") || strings.HasPrefix(fn.Name(), "Move") || strings.HasPrefix(fn.Name(), "Update")
						c.verdictIf(mutator, rule, f, fmt.Sprintf("%s arm persister call#%d %s", which, k, fn.Name()), call.Pos(), "the arm applies its record without consulting other rows",
							"the "+which+" arm of indexHeader reads rows from the index ("+fn.Name()+") before it applies its record: whether the record is applied then depends on what the index already holds, so replaying a tape over an index that is not empty (stale rows, rows of entries removed later on the tape) can fail or diverge where a replay from scratch succeeds")
						return true
					})
				}
			}
		}
		if n == 0 {
			c.unresolved("no persister calls found in the create and delete arms of indexHeader")
		}
	}
}
