package main

// Rules added after the fourth round of independently seeded changes (see DESIGN.md §7.6).

import (
	"fmt"
	"go/ast"
	"go/constant"
	"go/token"
	"go/types"
	"strings"
)

func init() {
	extend("C14", ruleCachedSizeSites("C14.cached-size-sites"), ruleWriteEntryUnconditional("C14.write-entry-unconditional"), ruleFlagBitsIndependent("C14.flag-bits-independent"))
	extend("C03", ruleCachedSizeSites("C03.cached-size-sites"), ruleCounterPerIteration("C03.counter-per-iteration"), ruleNoShortcutBeforeDispatch("C03.no-shortcut-before-dispatch"))
	extend("C05", ruleHeaderOnlySizeZero("C05.header-only-size-zero"), ruleCounterPerIteration("C05.counter-per-iteration"))
	extend("C07", ruleIndexStartOffset("C07.index-start-offset"))
	extend("C04", ruleIndexStartOffset("C04.index-start-offset"))
	extend("C12", ruleStatelessPkgs("C12.stateless-converters", "internal/converters"), ruleNoSQLCutsetTrim("C12.no-sql-cutset-trim"))
	extend("C01", ruleStatelessPkgs("C01.stateless-converters", "internal/converters"))
	extend("C13", ruleNoSQLCutsetTrim("C13.no-sql-cutset-trim"))
	extend("C15", ruleFlagBitsIndependent("C15.flag-bits-independent"), ruleCLIFlagsBound("C15.cli-flags-bound"))
	extend("C16", ruleCLIFlagsBound("C16.cli-flags-bound"))
	extend("C16", ruleNoFullReadsOnDrive("C16.no-full-reads-on-drive"))
	extend("C17", ruleNoFullReadsOnDrive("C17.no-full-reads-on-drive"))
	extend("C18", ruleBinarySignaturesOnly("C18.binary-signatures-only"), ruleNoShortcutBeforeDispatch("C18.no-shortcut-before-dispatch"))
	extend("C09", ruleNoShortcutBeforeDispatch("C09.no-shortcut-before-dispatch"))
	extend("C08", ruleNoShortcutBeforeDispatch("C08.no-shortcut-before-dispatch"))
}

// ruleCachedSizeSites: the size cached in a handle at open time is a snapshot; another handle may have rewritten the
// file since. It is consulted by the seek arithmetic only (frozen site table); any other decision taken from it - "the
// file is empty, nothing to read", "the offset is past the end" - answers from stale state.
func ruleCachedSizeSites(rule string) func(*Ctx) {
	return func(c *Ctx) {
		c.floor(rule, 1, "reads of the cached size in pkg/fs")
		infoField := c.field("pkg/fs", "File", "info")
		if infoField == nil {
			return
		}
		allowed := map[string]string{"(*File).seekWithoutLocking": "SeekEnd arithmetic of a read-mode handle"}
		n := 0
		for _, f := range c.Funcs {
			if f.RelPkg() != "pkg/fs" || f.Body() == nil {
				continue
			}
			root := f
			for root.Outer != nil {
				root = root.Outer
			}
			info := f.Pkg.TypesInfo
			k := 0
			for _, cs := range f.calls {
				se, ok := ast.Unparen(cs.Call.Fun).(*ast.SelectorExpr)
				if !ok || se.Sel.Name != "Size" || selField(info, se.X) != infoField {
					continue
				}
				n++
				k++
				why, ok := allowed[root.Name]
				c.verdictIf(ok, rule, f, fmt.Sprintf("cached size read#%d", k), cs.Call.Pos(), "whitelisted: "+why,
					root.Name+" takes a decision from the size cached when the handle was opened: a file that another handle has written since (or this handle has grown) is answered from the stale size - e.g. a read that reports end of file on a file that has content")
			}
		}
		if n < 1 {
			c.unresolved("only %d reads of the cached size found", n)
		}
	}
}

// ruleWriteEntryUnconditional: O_TRUNC and O_APPEND take effect when the handle enters write mode, on its first write.
// Every success return of the writing methods is therefore behind a successful enterWriteMode - also for a write of
// zero bytes (`afero.WriteFile(fs, name, nil, perm)` empties a file that way).
func ruleWriteEntryUnconditional(rule string) func(*Ctx) {
	return func(c *Ctx) {
		c.floor(rule, 4, "success returns of File.Write, WriteAt, WriteString, Truncate")
		enter := c.fn("pkg/fs", "(*File).enterWriteMode")
		if enter == nil {
			return
		}
		n := 0
		for _, name := range []string{"(*File).Write", "(*File).WriteAt", "(*File).WriteString", "(*File).Truncate"} {
			f := c.fn("pkg/fs", name)
			if f == nil {
				continue
			}
			info := f.Pkg.TypesInfo
			fl := c.flow(f)
			k := 0
			for _, ret := range returnsIn(f) {
				if len(ret.Results) == 0 {
					continue
				}
				last := ast.Unparen(ret.Results[len(ret.Results)-1])
				// success: literal nil, or the direct result of a write on the buffer (a call)
				_, isCall := last.(*ast.CallExpr)
				if !isNilIdent(info, last) && !isCall {
					continue
				}
				k++
				n++
				okk, reach := c.successDominates(fl, ret, func(call *ast.CallExpr) bool { return calleeObj(info, call) == types.Object(enter.Obj) }, nil)
				if !reach {
					continue
				}
				c.verdictIf(okk, rule, f, fmt.Sprintf("success return#%d", k), ret.Pos(), "success only after the handle entered write mode", "this method can report success without having entered write mode (an early return, e.g. for an empty buffer): O_TRUNC/O_APPEND, which take effect on entering write mode, are then never applied - writing zero bytes to an O_TRUNC handle leaves the old content")
			}
		}
		if n < half(4) {
			c.unresolved("only %d success returns found in the writing methods", n)
		}
	}
}

// ruleFlagBitsIndependent: OpenFile translates each open(2) flag bit on its own: whether FileFlags.Append / Truncate is
// set depends on its own bit (and on the instance being writable), never on another flag bit. An else-if or a tagless
// switch over the bits makes O_APPEND|O_TRUNC lose one of them.
func ruleFlagBitsIndependent(rule string) func(*Ctx) {
	return func(c *Ctx) {
		c.floor(rule, 2, "stores to FileFlags.Append and FileFlags.Truncate")
		bits := map[string]string{"Append": "O_APPEND", "Truncate": "O_TRUNC"}
		n := 0
		for fieldName, own := range bits {
			fv := c.field("pkg/fs", "FileFlags", fieldName)
			if fv == nil {
				continue
			}
			for _, st := range c.storesTo(fv) {
				if st.In.RelPkg() != "pkg/fs" {
					continue
				}
				if _, isKV := st.Node.(*ast.KeyValueExpr); isKV {
					continue
				}
				n++
				info := st.In.Pkg.TypesInfo
				var foreign []string
				for _, cl := range enclosingCondsFlow(info, st.In.Body(), st.Node) {
					txt := exprString(cl.e)
					for _, other := range []string{"O_APPEND", "O_TRUNC", "O_CREATE", "O_EXCL", "O_SYNC"} {
						if other != own && strings.Contains(txt, other) {
							foreign = append(foreign, fmt.Sprintf("%s=%v", txt, cl.pos))
						}
					}
				}
				// the access mode must not matter either: evaluate the enclosing conditions for every way of opening for
				// writing (O_WRONLY, O_RDWR) with the flag's own bit set; none of them may be definitely false
				if len(foreign) == 0 {
					if flagV := paramVar(st.In, "flag"); flagV != nil {
						ownBit, ok1 := osFlagValue(c, own)
						wr, ok2 := osFlagValue(c, "O_WRONLY")
						rw, ok3 := osFlagValue(c, "O_RDWR")
						if ok1 && ok2 && ok3 {
							for _, mode := range []struct {
								name string
								v    int64
							}{{"O_WRONLY", wr}, {"O_RDWR", rw}} {
								for _, cl := range enclosingCondsFlow(info, st.In.Body(), st.Node) {
									if known, val := evalFlagCond(info, cl.e, flagV, mode.v|ownBit); known && val != cl.pos {
										foreign = append(foreign, fmt.Sprintf("the access mode is not %s (%s is %v for %s|%s)", mode.name, exprString(cl.e), val, mode.name, own))
									}
								}
							}
						}
					}
				}
				c.verdictIf(len(foreign) == 0, rule, st.In, "store "+fieldName, st.Node.Pos(), "set from its own flag bit only", "FileFlags."+fieldName+" is set only when additionally "+strings.Join(foreign, ", ")+": combining the flags (O_APPEND|O_TRUNC, or O_RDWR|O_TRUNC as Create() does) silently drops one of them")
			}
		}
		if n < 2 {
			c.unresolved("only %d stores to FileFlags.Append/Truncate found", n)
		}
	}
}

// ruleCounterPerIteration: the byte counter that measures a member's encoded size, and whose value becomes hdr.Size,
// is created in the same loop iteration that reads it: a counter created outside the per-file loop accumulates over
// all files, so from the second member on the header announces more bytes than are written.
func ruleCounterPerIteration(rule string) func(*Ctx) {
	return func(c *Ctx) {
		c.floor(rule, 2, "size counters feeding hdr.Size in the write operations")
		sizeField := c.extField("archive/tar", "Header", "Size")
		n := 0
		for _, f := range c.Funcs {
			if f.RelPkg() != "pkg/operations" || f.Body() == nil {
				continue
			}
			info := f.Pkg.TypesInfo
			walkOwn(f.Body(), func(nd ast.Node) {
				as, ok := nd.(*ast.AssignStmt)
				if !ok || len(as.Lhs) != 1 || len(as.Rhs) != 1 || selField(info, as.Lhs[0]) != sizeField {
					return
				}
				// hdr.Size = int64(counter.BytesRead)
				var counter types.Object
				ast.Inspect(as.Rhs[0], func(m ast.Node) bool {
					if se, ok := m.(*ast.SelectorExpr); ok && se.Sel.Name == "BytesRead" {
						counter = objOfIdent(info, se.X)
					}
					return true
				})
				if counter == nil {
					return
				}
				n++
				def, _, _ := defOf(f, counter)
				loopOf := func(node ast.Node) ast.Node {
					var innermost ast.Node
					ast.Inspect(f.Body(), func(m ast.Node) bool {
						if m == nil {
							return false
						}
						if node.Pos() < m.Pos() || node.End() > m.End() {
							return false
						}
						switch m.(type) {
						case *ast.ForStmt, *ast.RangeStmt:
							innermost = m
						}
						return true
					})
					return innermost
				}
				good := def != nil && loopOf(def) == loopOf(as)
				c.verdictIf(good, rule, f, fmt.Sprintf("counter#%d", n), as.Pos(), "the size counter is created in the iteration that reads it", "the counter whose value becomes hdr.Size is not created inside the per-file loop iteration that reads it (defined once / more than once outside): it keeps counting across files, so the second header of a batch announces the bytes of both files while only its own are written")
			})
		}
		if n < 2 {
			c.unresolved("only %d size counters feeding hdr.Size found", n)
		}
	}
}

// ruleHeaderOnlySizeZero: Delete and Move records (and Update's metadata-only branch) carry no content; their header
// must announce Size = 0 on every path, whatever the entry looked like when it was indexed (an entry adopted from a
// foreign archive has no UncompressedSize record) - otherwise the tar writer refuses to close ("missed writing N
// bytes") after the header is already on the tape.
func ruleHeaderOnlySizeZero(rule string) func(*Ctx) {
	return func(c *Ctx) {
		c.floor(rule, 3, "header-only WriteHeader sites (Delete, Move, Update's metadata-only branch)")
		sizeField := c.extField("archive/tar", "Header", "Size")
		n := 0
		for _, ws := range writeHeaderSites(c) {
			f := ws.f
			if f.RelPkg() != "pkg/operations" || ws.h == nil {
				continue
			}
			root := f
			for root.Outer != nil {
				root = root.Outer
			}
			info := f.Pkg.TypesInfo
			headerOnly := root.Name == "(*Operations).Delete" || root.Name == "(*Operations).Move"
			if root.Name == "(*Operations).Update" {
				// the branch in which `replace` is false
				for _, cl := range enclosingCondsFlow(info, f.Body(), ws.cs.Call) {
					if id, ok := ast.Unparen(cl.e).(*ast.Ident); ok && id.Name == "replace" && !cl.pos {
						headerOnly = true
					}
				}
			}
			if !headerOnly {
				continue
			}
			n++
			fl := c.flow(f)
			good, reach := fl.dominatedBy(ws.cs.Call, func(nd ast.Node) bool {
				as, ok := nd.(*ast.AssignStmt)
				if !ok || len(as.Lhs) != 1 || len(as.Rhs) != 1 || selField(info, as.Lhs[0]) != sizeField {
					return false
				}
				se, ok := ast.Unparen(as.Lhs[0]).(*ast.SelectorExpr)
				if !ok || objOfIdent(info, se.X) != ws.h {
					return false
				}
				tv, ok := info.Types[as.Rhs[0]]
				return ok && tv.Value != nil && tv.Value.String() == "0"
			}, nil)
			if !reach {
				continue
			}
			c.verdictIf(good, rule, f, fmt.Sprintf("WriteHeader#%d size", ws.ord), ws.cs.Call.Pos(), "Size = 0 is stored on every path before the header-only record is written", "a header-only record can be written with the entry's stored size (Size = 0 is not assigned on every path): the tar writer then expects content that never comes, Close fails, and the tape ends in a header without trailer")
		}
		if n < 3 {
			c.unresolved("only %d header-only WriteHeader sites found", n)
		}
	}
}

// ruleIndexStartOffset: recovery.Index applies the header at its start position unless told to skip it (`offset`). A
// pass that starts at the LAST INDEXED position (GetLastIndexedRecordAndBlock) must skip that header (offset 1): it is
// in the index already, and applying it again is not idempotent for every record kind (a delete record finds no live
// row). A pass that starts at a caller-given position applies everything (offset 0).
func ruleIndexStartOffset(rule string) func(*Ctx) {
	return func(c *Ctx) {
		c.floor(rule, 8, "call sites of recovery.Index")
		index := c.fn("pkg/recovery", "Index")
		if index == nil {
			return
		}
		sig := index.Obj.Type().(*types.Signature)
		n := 0
		for _, f := range c.Funcs {
			info := f.Pkg.TypesInfo
			for _, cs := range f.calls {
				if cs.Target != index {
					continue
				}
				recArg, ok1 := roleArg(f, cs.Call, sig, "record")
				offArg, ok2 := roleArg(f, cs.Call, sig, "offset")
				if !ok1 || !ok2 {
					c.unresolved("cannot tell what %s passes to recovery.Index as record and offset", c.pos(cs.Call.Pos()))
					continue
				}
				zero := &ast.BasicLit{Kind: token.INT, Value: "0"}
				if recArg == nil {
					recArg = zero
				}
				if offArg == nil {
					offArg = zero
				}
				n++
				// does the record argument derive from the last indexed position?
				fromLast := false
				var visit func(e ast.Expr, depth int)
				visit = func(e ast.Expr, depth int) {
					ast.Inspect(e, func(m ast.Node) bool {
						if call, ok := m.(*ast.CallExpr); ok {
							if fn, ok := calleeObj(info, call).(*types.Func); ok && fn.Name() == "GetLastIndexedRecordAndBlock" {
								fromLast = true
							}
						}
						if id, ok := m.(*ast.Ident); ok && depth < 3 {
							if v, ok := info.Uses[id].(*types.Var); ok && !v.IsField() {
								// every definition of the variable in the enclosing functions
								for g := f; g != nil; g = g.Outer {
									walkOwn(g.Body(), func(nd ast.Node) {
										as, ok := nd.(*ast.AssignStmt)
										if !ok {
											return
										}
										for _, l := range as.Lhs {
											if objOfIdent(g.Pkg.TypesInfo, l) == types.Object(v) {
												for _, r := range as.Rhs {
													visit(r, depth+1)
												}
											}
										}
									})
								}
							}
						}
						return true
					})
				}
				visit(recArg, 0)
				tv := info.Types[offArg]
				off := ""
				if tv.Value != nil {
					off = tv.Value.String()
				}
				if offArg == ast.Expr(zero) {
					off = "0"
				}
				construct := fmt.Sprintf("Index call#%d", n)
				// the archive shape: `off := 1; if overwrite { off = 0 }` next to `if !overwrite { rec, blk = last indexed }`:
				// the offset is 0 exactly when the position is NOT taken from the index
				if off == "" && fromLast {
					if ov := objOfIdent(info, offArg); ov != nil {
						type gdef struct {
							val  string
							cond string // "" unconditional, else "<ident>=<polarity>"
						}
						guardOf := func(node ast.Node) string {
							cl := enclosingConds(f.Body(), node)
							if len(cl) != 1 {
								if len(cl) == 0 {
									return ""
								}
								return "?"
							}
							e, pos := ast.Unparen(cl[0].e), cl[0].pos
							for {
								if u, ok := e.(*ast.UnaryExpr); ok && u.Op == token.NOT {
									e, pos = ast.Unparen(u.X), !pos
									continue
								}
								break
							}
							if id, ok := e.(*ast.Ident); ok {
								return fmt.Sprintf("%s=%v", id.Name, pos)
							}
							return "?"
						}
						var defs []gdef
						lastGuard := ""
						walkOwn(f.Body(), func(nd ast.Node) {
							as, ok := nd.(*ast.AssignStmt)
							if !ok {
								return
							}
							for i, l := range as.Lhs {
								if objOfIdent(info, l) == ov && i < len(as.Rhs) {
									v := "?"
									if t := info.Types[as.Rhs[i]]; t.Value != nil {
										v = t.Value.String()
									}
									defs = append(defs, gdef{v, guardOf(as)})
								}
							}
							for _, r := range as.Rhs {
								if call, ok := ast.Unparen(r).(*ast.CallExpr); ok {
									if fn, ok := calleeObj(info, call).(*types.Func); ok && fn.Name() == "GetLastIndexedRecordAndBlock" {
										lastGuard = guardOf(as)
									}
								}
							}
						})
						neg := func(g string) string {
							if strings.HasSuffix(g, "=true") {
								return strings.TrimSuffix(g, "=true") + "=false"
							}
							if strings.HasSuffix(g, "=false") {
								return strings.TrimSuffix(g, "=false") + "=true"
							}
							return "?"
						}
						good := len(defs) == 2 && lastGuard != "" && lastGuard != "?"
						if good {
							var uncond, cond *gdef
							for i := range defs {
								if defs[i].cond == "" {
									uncond = &defs[i]
								} else {
									cond = &defs[i]
								}
							}
							good = uncond != nil && cond != nil && uncond.val == "1" && cond.val == "0" && cond.cond == neg(lastGuard)
						}
						c.verdictIf(good, rule, f, construct, cs.Call.Pos(), "offset is 1 unless the start position is not taken from the index ("+neg(lastGuard)+"), where it is 0", "the offset handed to recovery.Index does not follow where the start position comes from (expected: 1 when it is the last indexed position, 0 exactly otherwise)")
						continue
					}
				}
				switch {
				case fromLast:
					c.verdictIf(off == "1", rule, f, construct, cs.Call.Pos(), "starts at the last indexed position and skips that header (offset 1)", "this pass starts at the last indexed position but passes offset "+exprString(offArg)+": the header that is already in the index is applied again - a trailing delete record then fails with 'no rows'")
				default:
					c.verdictIf(off == "0", rule, f, construct, cs.Call.Pos(), "starts at a caller-given position and applies every header (offset 0)", "this pass starts at a caller-given position but passes offset "+exprString(offArg)+": the first header of the range is skipped")
				}
			}
		}
		if n < half(8) {
			c.unresolved("only %d call sites of recovery.Index found", n)
		}
	}
}

// ruleStatelessPkgs: the given packages declare no package-level mutable state (maps, slices, pools, counters): a
// shared value handed out to several callers aliases what each of them then modifies.
func ruleStatelessPkgs(rule string, rels ...string) func(*Ctx) {
	return func(c *Ctx) {
		c.floor(rule, 1, "package-level variables of "+strings.Join(rels, ", "))
		for _, rel := range rels {
			p := c.pkg(rel)
			if p == nil {
				continue
			}
			n := 0
			for _, file := range p.Syntax {
				for _, d := range file.Decls {
					gd, ok := d.(*ast.GenDecl)
					if !ok || gd.Tok != token.VAR {
						continue
					}
					for _, sp := range gd.Specs {
						vs := sp.(*ast.ValueSpec)
						for _, nm := range vs.Names {
							v, ok := p.TypesInfo.Defs[nm].(*types.Var)
							if !ok || nm.Name == "_" {
								continue
							}
							mutable := true
							switch t := v.Type().Underlying().(type) {
							case *types.Basic:
								mutable = false
								_ = t
							case *types.Interface:
								if v.Type().String() == "error" {
									mutable = false
								}
							}
							if mutable {
								n++
								c.bad(rule, nil, fmt.Sprintf("%s.%s", rel, nm.Name), nm.Pos(), "package %s declares package-level state (%s %s): a value shared between calls (e.g. one empty map handed out for every header without records) is aliased by every caller that writes into it", rel, nm.Name, v.Type().String())
							}
						}
					}
				}
			}
			if n == 0 {
				c.ok(rule, nil, "package "+rel, token.NoPos, true, "no package-level mutable state")
			}
		}
	}
}

// ruleNoSQLCutsetTrim: SQLite's two-argument ltrim/rtrim/trim remove any of the CHARACTERS of the second argument, not
// a prefix: stripping a parent path with them also eats a child whose name is made of those characters.
func ruleNoSQLCutsetTrim(rule string) func(*Ctx) {
	return func(c *Ctx) {
		c.floor(rule, 1, "raw SQL statements in pkg/persisters")
		n, badN := 0, 0
		for _, f := range c.Funcs {
			if f.RelPkg() != "pkg/persisters" {
				continue
			}
			for _, cs := range f.calls {
				fn, ok := cs.Callee.(*types.Func)
				if !ok || fn.Name() != "Raw" || fn.Pkg() == nil || fn.Pkg().Path() != queriesPath || len(cs.Call.Args) == 0 {
					continue
				}
				n++
				var sb strings.Builder
				for _, p := range flattenSQL(f, cs.Call.Args[0], 0) {
					if p.expr != nil {
						sb.WriteString("<x>")
					} else {
						sb.WriteString(strings.ToLower(p.lit))
					}
				}
				text := sb.String()
				for _, fnName := range []string{"ltrim(", "rtrim(", "trim("} {
					idx := 0
					for {
						i := strings.Index(text[idx:], fnName)
						if i < 0 {
							break
						}
						start := idx + i
						// preceded by a letter => part of another name (e.g. "ltrim(" inside "xltrim(")
						if start > 0 && (text[start-1] >= 'a' && text[start-1] <= 'z') && fnName == "trim(" {
							idx = start + len(fnName)
							continue
						}
						// two-argument form: a comma at depth 1 before the matching ')'
						depth, comma := 0, false
						for j := start + len(fnName) - 1; j < len(text); j++ {
							switch text[j] {
							case '(':
								depth++
							case ')':
								depth--
							case ',':
								if depth == 1 {
									comma = true
								}
							}
							if depth == 0 {
								break
							}
						}
						if comma {
							badN++
							c.bad(rule, f, fmt.Sprintf("sql trim#%d", badN), cs.Call.Pos(), "the statement uses the two-argument %s...): SQLite strips a SET OF CHARACTERS, not a prefix, so an entry whose name consists of characters of its parent's path is cut away with it and its children are listed one level too high", fnName)
						}
						idx = start + len(fnName)
					}
				}
			}
		}
		if n == 0 {
			c.unresolved("no raw SQL statement found in pkg/persisters")
		}
		if badN == 0 {
			c.ok(rule, nil, "no cutset trim in SQL", token.NoPos, false, "%d raw statements inspected, none uses a two-argument ltrim/rtrim/trim", n)
		}
	}
}

// ruleNoFullReadsOnDrive: while indexing, a read that probes what follows an archive (file marks, zero padding, the
// end of the drive) must tolerate short reads: io.ReadFull / io.ReadAtLeast turn "fewer bytes than asked for" into
// io.ErrUnexpectedEOF, which the callers' `err == io.EOF` tests do not accept, so a padded foreign archive aborts
// the rebuild.
func ruleNoFullReadsOnDrive(rule string) func(*Ctx) {
	return func(c *Ctx) {
		c.floor(rule, 1, "io.ReadFull / io.ReadAtLeast call sites in pkg/recovery (expected none; matcher verified on a fixture)")
		isFull := func(o types.Object) bool {
			return isPkgFunc(o, "io", "ReadFull") || isPkgFunc(o, "io", "ReadAtLeast")
		}
		n := 0
		for _, f := range c.Funcs {
			if f.RelPkg() != "pkg/recovery" {
				continue
			}
			for _, cs := range f.calls {
				if isFull(cs.Callee) {
					n++
					c.bad(rule, f, fmt.Sprintf("full read#%d", n), cs.Call.Pos(), "%s on the drive while indexing: a short read at the end of the medium (padding behind the last archive that is not a multiple of the probe size) becomes io.ErrUnexpectedEOF instead of io.EOF and aborts the pass", exprString(cs.Call.Fun))
				}
			}
		}
		if n == 0 {
			fc, err := fixtureCtx("pkg/fixture", "package fixture\nimport \"io\"\nfunc f(r io.Reader, b []byte) { io.ReadFull(r, b) }\n")
			alive := false
			if err == nil {
				for _, g := range fc.Funcs {
					for _, cs := range g.calls {
						if isFull(cs.Callee) {
							alive = true
						}
					}
				}
			}
			if !alive {
				c.unresolved("full-read matcher failed its positive control")
			}
			c.ok(rule, nil, "no full reads", token.NoPos, false, "no io.ReadFull/ReadAtLeast in pkg/recovery (matcher verified on an embedded fixture)")
		}
	}
}

// ruleBinarySignaturesOnly: the string signer and the string verifier hash the same bytes. The OpenPGP text-mode
// entry points (DetachSignText, ...) canonicalise line endings before hashing, the verifier hashes the raw bytes: a
// signed string that contains a bare line feed then never verifies.
func ruleBinarySignaturesOnly(rule string) func(*Ctx) {
	return func(c *Ctx) {
		c.floor(rule, 1, "OpenPGP signing entry points used in pkg/signature")
		n, badN := 0, 0
		for _, f := range c.Funcs {
			if f.RelPkg() != "pkg/signature" {
				continue
			}
			for _, cs := range f.calls {
				fn, ok := cs.Callee.(*types.Func)
				if !ok || fn.Pkg() == nil || !strings.Contains(fn.Pkg().Path(), "openpgp") {
					continue
				}
				if strings.Contains(fn.Name(), "Sign") {
					n++
					if strings.Contains(fn.Name(), "Text") {
						badN++
						c.bad(rule, f, fmt.Sprintf("text-mode signature#%d", badN), cs.Call.Pos(), "%s makes a text-mode signature (line endings canonicalised before hashing) while the verifier hashes the raw bytes: strings containing a bare line feed are signed but never verify", fn.Name())
					}
				}
			}
		}
		if n == 0 {
			c.unresolved("no OpenPGP signing call found in pkg/signature")
		}
		if badN == 0 {
			c.ok(rule, nil, "binary signatures", token.NoPos, true, "%d OpenPGP signing calls, all binary-mode", n)
		}
	}
}

// ruleNoShortcutBeforeDispatch: the string/stream codecs decide what to do in the switch over their format parameter
// and nowhere else: no return precedes the dispatch. A shortcut such as "empty input, nothing to do" on one side only
// (EncryptString) produces values the other side (DecryptString) cannot take back.
func ruleNoShortcutBeforeDispatch(rule string) func(*Ctx) {
	return func(c *Ctx) {
		c.floor(rule, 8, "codec functions that dispatch on a format parameter")
		n := 0
		for _, f := range c.Funcs {
			rel := f.RelPkg()
			if f.Decl == nil || !(rel == "pkg/encryption" || rel == "pkg/signature" || rel == "pkg/compression") || !f.Decl.Name.IsExported() {
				continue
			}
			var fmtParam *types.Var
			for _, pv := range paramsWhere(f, func(v *types.Var) bool { return strings.HasSuffix(v.Name(), "Format") }) {
				fmtParam = pv
			}
			if fmtParam == nil {
				continue
			}
			tables := c.switchesOn(f, fmtParam)
			if len(tables) == 0 {
				continue
			}
			n++
			sw := tables[0].At
			early := 0
			for _, ret := range returnsIn(f) {
				if ret.End() <= sw {
					early++
					c.bad(rule, f, fmt.Sprintf("return before dispatch#%d", early), ret.Pos(), "%s returns before the switch over %s: this path handles some input outside the per-format code, so the result need not be something the inverse function accepts (an empty string 'encrypted' to an empty string cannot be decrypted)", f.Name, fmtParam.Name())
				}
			}
			if early == 0 {
				c.ok(rule, f, "dispatch first", sw, true, "no return precedes the switch over %s", fmtParam.Name())
			}
		}
		if n < half(8) {
			c.unresolved("only %d dispatching codec functions found", n)
		}
	}
}

// ruleCLIFlagsBound: the commands read their options through viper, which only sees a flag after
// `viper.BindPFlags(<the flag set it was registered on>)`. Every key a command reads with viper.GetX is therefore
// registered on that command's own flag set (which its PreRunE binds) or on a command whose flag set is bound
// explicitly (rootCmd). A flag registered on a parent whose flags nobody binds is accepted on the command line and
// silently ignored - `serve ftp --read-only` would serve a writable filesystem.
func ruleCLIFlagsBound(rule string) func(*Ctx) {
	return func(c *Ctx) {
		c.floor(rule, 40, "viper.GetX reads in the command closures")
		p := c.pkg("cmd/stfs/cmd")
		if p == nil {
			return
		}
		info := p.TypesInfo
		registered := map[types.Object]map[types.Object]bool{} // flag constant -> commands it is registered on
		boundExplicit := map[types.Object]bool{}
		boundSelf := map[string]bool{} // root name ("var xCmd") whose closures bind cmd.PersistentFlags()
		flagSetOwner := func(e ast.Expr) (types.Object, bool) {
			// X.PersistentFlags() / X.Flags()
			call, ok := ast.Unparen(e).(*ast.CallExpr)
			if !ok {
				return nil, false
			}
			se, ok := ast.Unparen(call.Fun).(*ast.SelectorExpr)
			if !ok || (se.Sel.Name != "PersistentFlags" && se.Sel.Name != "Flags") {
				return nil, false
			}
			return objOfIdent(info, se.X), true
		}
		for _, f := range c.Funcs {
			if f.RelPkg() != "cmd/stfs/cmd" {
				continue
			}
			root := f
			for root.Outer != nil {
				root = root.Outer
			}
			rootName := strings.Split(root.Name, "$")[0]
			for _, cs := range f.calls {
				se, ok := ast.Unparen(cs.Call.Fun).(*ast.SelectorExpr)
				if !ok {
					continue
				}
				// registration: <cmd>.PersistentFlags().XxxP(K, ...)
				if owner, ok := flagSetOwner(se.X); ok && owner != nil && len(cs.Call.Args) >= 1 {
					if k := constOf(info, cs.Call.Args[0]); k != nil {
						if registered[k] == nil {
							registered[k] = map[types.Object]bool{}
						}
						registered[k][owner] = true
					}
				}
				// binding: viper.BindPFlags(<cmd>.PersistentFlags())
				if fn, ok := cs.Callee.(*types.Func); ok && fn.Name() == "BindPFlags" && len(cs.Call.Args) == 1 {
					if owner, ok := flagSetOwner(cs.Call.Args[0]); ok && owner != nil {
						if v, isVar := owner.(*types.Var); isVar && v.Parent() == v.Pkg().Scope() {
							boundExplicit[owner] = true
						} else {
							boundSelf[rootName] = true // the `cmd` parameter of the command's own closure
						}
					}
				}
			}
		}
		n := 0
		for _, f := range c.Funcs {
			if f.RelPkg() != "cmd/stfs/cmd" {
				continue
			}
			root := f
			for root.Outer != nil {
				root = root.Outer
			}
			rootName := strings.Split(root.Name, "$")[0]
			if !strings.HasPrefix(rootName, "var ") {
				continue
			}
			cmdObj := p.Types.Scope().Lookup(strings.TrimPrefix(rootName, "var "))
			k := 0
			for _, cs := range f.calls {
				fn, ok := cs.Callee.(*types.Func)
				if !ok || fn.Pkg() == nil || !strings.HasSuffix(fn.Pkg().Path(), "spf13/viper") || !strings.HasPrefix(fn.Name(), "Get") || len(cs.Call.Args) != 1 {
					continue
				}
				key := constOf(info, cs.Call.Args[0])
				if key == nil {
					continue
				}
				n++
				k++
				good := false
				for owner := range registered[key] {
					if boundExplicit[owner] || (owner == cmdObj && boundSelf[rootName]) {
						good = true
					}
				}
				c.verdictIf(good, rule, f, fmt.Sprintf("%s#%d", key.Name(), k), cs.Call.Pos(), "the flag is registered on a flag set that is bound to viper", "the command reads "+key.Name()+" through viper, but the flag is not registered on a flag set that anyone binds with viper.BindPFlags (its own, bound in PreRunE, or rootCmd's): the option is accepted on the command line and silently ignored")
			}
		}
		if n < half(40) {
			c.unresolved("only %d viper reads found in the command closures", n)
		}
	}
}

// osFlagValue: the value of os.<name> (an open flag constant).
func osFlagValue(c *Ctx, name string) (int64, bool) {
	k, ok := c.extObj("os", name).(*types.Const)
	if !ok {
		return 0, false
	}
	return constant.Int64Val(k.Val())
}

// evalFlagCond evaluates a boolean condition over the integer parameter flagV for one concrete value of it. Only
// constants, flagV, the operators & | ^ &^ == != && || ! and parentheses are understood; anything else is unknown.
func evalFlagCond(info *types.Info, e ast.Expr, flagV *types.Var, val int64) (known, value bool) {
	var evalInt func(e ast.Expr) (int64, bool)
	evalInt = func(e ast.Expr) (int64, bool) {
		e = ast.Unparen(e)
		if tv, ok := info.Types[e]; ok && tv.Value != nil && tv.Value.Kind() == constant.Int {
			return constant.Int64Val(tv.Value)
		}
		switch x := e.(type) {
		case *ast.Ident:
			if info.Uses[x] == types.Object(flagV) {
				return val, true
			}
		case *ast.BinaryExpr:
			a, ok1 := evalInt(x.X)
			b, ok2 := evalInt(x.Y)
			if !ok1 || !ok2 {
				return 0, false
			}
			switch x.Op {
			case token.AND:
				return a & b, true
			case token.OR:
				return a | b, true
			case token.XOR:
				return a ^ b, true
			case token.AND_NOT:
				return a &^ b, true
			}
		case *ast.CallExpr:
			// int(flag) and similar conversions
			if tv, ok := info.Types[x.Fun]; ok && tv.IsType() && len(x.Args) == 1 {
				return evalInt(x.Args[0])
			}
		}
		return 0, false
	}
	e = ast.Unparen(e)
	switch x := e.(type) {
	case *ast.UnaryExpr:
		if x.Op == token.NOT {
			k, v := evalFlagCond(info, x.X, flagV, val)
			return k, !v
		}
	case *ast.BinaryExpr:
		switch x.Op {
		case token.LAND, token.LOR:
			k1, v1 := evalFlagCond(info, x.X, flagV, val)
			k2, v2 := evalFlagCond(info, x.Y, flagV, val)
			if x.Op == token.LAND {
				if (k1 && !v1) || (k2 && !v2) {
					return true, false
				}
				return k1 && k2, true
			}
			if (k1 && v1) || (k2 && v2) {
				return true, true
			}
			return k1 && k2, false
		case token.EQL, token.NEQ:
			a, ok1 := evalInt(x.X)
			b, ok2 := evalInt(x.Y)
			if ok1 && ok2 {
				return true, (a == b) == (x.Op == token.EQL)
			}
		}
	}
	return false, false
}
