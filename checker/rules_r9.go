package main

// Rules added in the ninth round (DESIGN.md §7.11).

import (
	"fmt"
	"go/ast"
	"go/token"
	"go/types"
	"regexp"
	"strings"
)

func init() {
	extend("C02", ruleWriteRecordAttributesCurrent("C02.write-record-attributes-current"))
}

// ruleWriteRecordAttributesCurrent: a handle's content write must not take the entry's attributes back to what they
// were when the handle was opened. File.syncWithoutLocking builds its record from the handle's info; before it does,
// that info is renewed from the index (inventory.Stat) - under no condition other than the lookup having succeeded.
// Otherwise Chmod/Chown/Chtimes issued through the filesystem while a handle is open are undone by its Close.
func ruleWriteRecordAttributesCurrent(rule string) func(*Ctx) {
	return func(c *Ctx) {
		c.floor(rule, 1, "the record File.syncWithoutLocking hands to Operations.Update")
		f := c.fn("pkg/fs", "(*File).syncWithoutLocking")
		stat := c.fn("pkg/inventory", "Stat")
		infoF := c.field("pkg/fs", "File", "info")
		cfgInfo := c.field("pkg/config", "FileConfig", "Info")
		if f == nil || stat == nil || infoF == nil || cfgInfo == nil {
			return
		}
		scopes := append([]*FuncInfo{f}, c.litsIn(f)...)
		// where the record is built
		var target ast.Node
		var targetIn *FuncInfo
		for _, g := range scopes {
			ginfo := g.Pkg.TypesInfo
			walkOwn(g.Body(), func(nd ast.Node) {
				if kv, ok := nd.(*ast.KeyValueExpr); ok {
					if id, ok := kv.Key.(*ast.Ident); ok && ginfo.Uses[id] == types.Object(cfgInfo) && target == nil {
						target, targetIn = kv, g
					}
				}
			})
		}
		if target == nil {
			c.unresolved("File.syncWithoutLocking no longer fills config.FileConfig.Info")
			return
		}
		// results of index lookups
		fromIndex := map[types.Object]types.Object{} // row -> error variable of the same lookup
		for _, g := range scopes {
			ginfo := g.Pkg.TypesInfo
			walkOwn(g.Body(), func(nd ast.Node) {
				as, ok := nd.(*ast.AssignStmt)
				if !ok || len(as.Rhs) != 1 || len(as.Lhs) != 2 {
					return
				}
				call, ok := ast.Unparen(as.Rhs[0]).(*ast.CallExpr)
				if !ok {
					return
				}
				if fn, ok := calleeObj(ginfo, call).(*types.Func); !ok || fn != stat.Obj {
					return
				}
				row, errv := objOfIdentDefOrUse(ginfo, as.Lhs[0]), objOfIdentDefOrUse(ginfo, as.Lhs[1])
				if row != nil {
					fromIndex[row] = errv
				}
			})
		}
		// stores of the handle's info that take their value from such a row
		good, why := false, "the handle's info is never renewed from the index before the record is built"
		var at token.Pos = target.Pos()
		for _, g := range scopes {
			ginfo := g.Pkg.TypesInfo
			walkOwn(g.Body(), func(nd ast.Node) {
				as, ok := nd.(*ast.AssignStmt)
				if !ok || len(as.Lhs) != len(as.Rhs) {
					return
				}
				for i, l := range as.Lhs {
					sel, ok := ast.Unparen(l).(*ast.SelectorExpr)
					if !ok || ginfo.Uses[sel.Sel] != types.Object(infoF) {
						continue
					}
					var errv types.Object
					found := false
					inspectThrough(g, as.Rhs[i], func(m ast.Node) bool {
						if id, ok := m.(*ast.Ident); ok {
							if e, ok := fromIndex[ginfo.Uses[id]]; ok {
								found, errv = true, e
							}
						}
						return !found
					})
					if !found {
						continue
					}
					// the store comes first ...
					before := as.End() <= target.Pos() || (g != targetIn && as.End() <= enclosingLitPos(targetIn, target.Pos()))
					if !before {
						why = "the handle's info is renewed from the index only after the record has been built"
						continue
					}
					// ... and runs whenever the record is built and the lookup succeeded
					allowed := map[string]bool{}
					for h := targetIn; h != nil; h = h.Outer {
						for _, cl := range enclosingConds(h.Body(), firstNodeAt(h, target)) {
							allowed[fmt.Sprintf("%s/%v", exprString(cl.e), cl.pos)] = true
						}
					}
					okConds := true
					for _, cl := range enclosingConds(g.Body(), as) {
						if allowed[fmt.Sprintf("%s/%v", exprString(cl.e), cl.pos)] {
							continue
						}
						if be, ok := ast.Unparen(cl.e).(*ast.BinaryExpr); ok && errv != nil {
							x, y := ast.Unparen(be.X), ast.Unparen(be.Y)
							if isNilIdent(ginfo, y) && objOfIdent(ginfo, x) == errv && ((be.Op == token.EQL && cl.pos) || (be.Op == token.NEQ && !cl.pos)) {
								continue
							}
						}
						okConds = false
						why = "the handle's info is renewed from the index only under the condition " + exprString(cl.e)
					}
					if okConds {
						good = true
						at = as.Pos()
					}
				}
			})
		}
		c.verdictIf(good, rule, f, "attributes renewed from the index", at, "the handle's info is renewed from the index before the record is built",
			why+": a Chmod, Chown or Chtimes issued through the filesystem while a handle is open is undone when that handle is synced or closed (the record carries the attributes the entry had at open)")
	}
}

// objOfIdentDefOrUse: the object an identifier defines or uses.
func objOfIdentDefOrUse(info *types.Info, e ast.Expr) types.Object {
	id, ok := ast.Unparen(e).(*ast.Ident)
	if !ok || id.Name == "_" {
		return nil
	}
	if o := info.Defs[id]; o != nil {
		return o
	}
	return info.Uses[id]
}

// enclosingLitPos: the position of the outermost function literal of f's root function that contains pos (pos itself
// when f is the root): statements of the root function that end before it run before anything inside the literal.
func enclosingLitPos(f *FuncInfo, pos token.Pos) token.Pos {
	p := pos
	for g := f; g != nil && g.Outer != nil; g = g.Outer {
		if g.Lit != nil {
			p = g.Lit.Pos()
		}
	}
	return p
}

// firstNodeAt: target itself when it lies in f's own body, else the innermost call of f's own body that a function
// literal containing target is an argument of (enclosingConds does not look into literals).
func firstNodeAt(f *FuncInfo, target ast.Node) ast.Node {
	var out ast.Node = target
	inLit := false
	walkOwn(f.Body(), func(nd ast.Node) {
		if lit, ok := nd.(*ast.FuncLit); ok && nd != ast.Node(f.Lit) && lit.Pos() <= target.Pos() && target.End() <= lit.End() {
			inLit = true
		}
	})
	if !inLit {
		return out
	}
	walkOwn(f.Body(), func(nd ast.Node) {
		if call, ok := nd.(*ast.CallExpr); ok && call.Pos() <= target.Pos() && target.End() <= call.End() {
			out = call
		}
	})
	return out
}

func init() {
	extend("C02", ruleExclusiveCreate("C02.exclusive-create"))
}

// ruleExclusiveCreate: O_CREATE|O_EXCL creates a missing file and refuses an existing entry. In STFS.OpenFile (a) the
// creating call (mknodeWithoutLocking) is under no condition that is definitely false when O_EXCL is set together with
// O_CREATE, and (b) some return hands out os.ErrExist under conditions that hold for O_CREATE|O_EXCL and do not hold for
// O_CREATE alone. The conditions are evaluated for concrete flag values (evalFlagCond), not matched as text.
func ruleExclusiveCreate(rule string) func(*Ctx) {
	return func(c *Ctx) {
		c.floor(rule, 2, "the creating call and the exclusive refusal in STFS.OpenFile")
		f := c.fn("pkg/fs", "(*STFS).OpenFile")
		mknode := c.fn("pkg/fs", "(*STFS).mknodeWithoutLocking")
		if f == nil || mknode == nil {
			return
		}
		flagV := roleVar(f, "flag")
		create, ok1 := osFlagValue(c, "O_CREATE")
		excl, ok2 := osFlagValue(c, "O_EXCL")
		rdwr, ok3 := osFlagValue(c, "O_RDWR")
		errExist := c.extObj("os", "ErrExist")
		if flagV == nil || !ok1 || !ok2 || !ok3 || errExist == nil {
			c.unresolved("STFS.OpenFile has no flag parameter, or os.O_CREATE/O_EXCL/ErrExist cannot be resolved")
			return
		}
		scopes := append([]*FuncInfo{f}, c.litsIn(f)...)
		// the conditions under which node runs, through the closures of OpenFile
		condsOf := func(g *FuncInfo, node ast.Node) []condLit {
			out := enclosingCondsFlow(g.Pkg.TypesInfo, g.Body(), node)
			return out
		}
		n := 0
		for _, g := range scopes {
			ginfo := g.Pkg.TypesInfo
			for _, cs := range g.calls {
				if cs.Target != mknode {
					continue
				}
				n++
				blocked := ""
				for _, cl := range condsOf(g, cs.Call) {
					if known, val := evalFlagCond(ginfo, cl.e, flagV, create|excl|rdwr); known && val != cl.pos {
						blocked = exprString(cl.e)
					}
				}
				c.verdictIf(blocked == "", rule, f, fmt.Sprintf("create#%d reachable with O_EXCL", n), cs.Call.Pos(), "the creating call is not ruled out by O_EXCL",
					"a missing file is only created when O_EXCL is NOT set ("+blocked+"): OpenFile(name, O_CREATE|O_EXCL|O_RDWR) - the way to create a file that must not exist yet - fails with 'file does not exist'")
			}
		}
		if n == 0 {
			c.unresolved("STFS.OpenFile no longer calls mknodeWithoutLocking")
			return
		}
		refused := false
		var at token.Pos = f.Body().Pos()
		for _, g := range scopes {
			ginfo := g.Pkg.TypesInfo
			for _, ret := range returnsIn(g) {
				mentions := false
				for _, r := range ret.Results {
					ast.Inspect(r, func(m ast.Node) bool {
						if id, ok := m.(*ast.Ident); ok && ginfo.Uses[id] == errExist {
							mentions = true
						}
						return true
					})
				}
				if !mentions {
					continue
				}
				withExcl, withoutExcl := true, true
				decided := false
				for _, cl := range condsOf(g, ret) {
					if known, val := evalFlagCond(ginfo, cl.e, flagV, create|excl|rdwr); known {
						if val != cl.pos {
							withExcl = false
						}
					}
					if known, val := evalFlagCond(ginfo, cl.e, flagV, create|rdwr); known && val != cl.pos {
						withoutExcl = false
						decided = true
					}
				}
				if withExcl && decided && !withoutExcl {
					refused = true
					at = ret.Pos()
				}
			}
		}
		c.verdictIf(refused, rule, f, "existing entry refused under O_EXCL", at, "an existing entry is refused with os.ErrExist when O_CREATE|O_EXCL is asked for",
			"no return of OpenFile hands out os.ErrExist under O_CREATE|O_EXCL: the exclusive open of a name that already exists succeeds, so two clients that both 'create the lock file exclusively' both win")
	}
}

func init() {
	extend("C14", ruleMemoryCacheNotTruncating("C14.write-caches-overwrite-in-place"), ruleSyncKeepsBufferOpen("C14.sync-keeps-buffer-open"))
	extend("C03", ruleMemoryCacheNotTruncating("C03.write-caches-overwrite-in-place"))
	extend("C05", ruleTapePaddingModuloRecord("C05.tape-padding-modulo-record"))
	extend("C04", ruleTapePaddingModuloRecord("C04.tape-padding-modulo-record"))
	extend("C13", ruleLimitAfterFilter("C13.limit-after-filter"))
	extend("C12", ruleLimitAfterFilter("C12.limit-after-filter"))
	extend("C06", ruleMissingMemberIsAnError("C06.missing-member-is-an-error"))
	extend("C08", ruleMissingMemberIsAnError("C08.missing-member-is-an-error"))
}

// ruleMemoryCacheNotTruncating: a write cache behaves like a file - a write replaces the bytes at the cursor and keeps
// what lies behind them. github.com/mattetti/filebuffer does not (its Write cuts the content off at the cursor before
// appending), so no type of pkg/cache that implements WriteCache is built on it.
func ruleMemoryCacheNotTruncating(rule string) func(*Ctx) {
	return func(c *Ctx) {
		c.floor(rule, 2, "implementations of cache.WriteCache in pkg/cache")
		p := c.pkg("pkg/cache")
		if p == nil {
			return
		}
		wc, _ := p.Types.Scope().Lookup("WriteCache").(*types.TypeName)
		if wc == nil {
			c.unresolved("cache.WriteCache")
			return
		}
		iface, ok := wc.Type().Underlying().(*types.Interface)
		if !ok {
			c.unresolved("cache.WriteCache is not an interface")
			return
		}
		n := 0
		for _, name := range p.Types.Scope().Names() {
			tn, ok := p.Types.Scope().Lookup(name).(*types.TypeName)
			if !ok || tn == wc {
				continue
			}
			t := tn.Type()
			if !types.Implements(t, iface) && !types.Implements(types.NewPointer(t), iface) {
				continue
			}
			n++
			bad := ""
			var walk func(t types.Type, depth int)
			walk = func(t types.Type, depth int) {
				if depth > 3 {
					return
				}
				t = types.Unalias(t)
				if pt, ok := t.(*types.Pointer); ok {
					t = types.Unalias(pt.Elem())
				}
				if nt, ok := t.(*types.Named); ok && nt.Obj().Pkg() != nil && strings.HasSuffix(nt.Obj().Pkg().Path(), "/filebuffer") {
					bad = nt.Obj().Pkg().Path() + "." + nt.Obj().Name()
					return
				}
				if st, ok := t.Underlying().(*types.Struct); ok {
					for i := 0; i < st.NumFields(); i++ {
						walk(st.Field(i).Type(), depth+1)
					}
				}
			}
			walk(t, 0)
			c.verdictIf(bad == "", rule, nil, "cache."+tn.Name(), tn.Pos(), "not built on a buffer that truncates at the cursor",
				"cache."+tn.Name()+" is built on "+bad+", whose Write cuts the content off at the cursor before it appends: overwriting two bytes in the middle of a file through a handle loses everything behind them (and, after a load, shifts what is in front)")
		}
		if n < 2 {
			c.unresolved("only %d implementations of cache.WriteCache found in pkg/cache", n)
		}
	}
}

// ruleSyncKeepsBufferOpen: Operations.Update closes the source it is handed. A handle's write buffer has to outlive a
// Sync, so File.syncWithoutLocking (a) never hands the buffer itself to Update - the value its GetFile returns is
// something built around it - (b) closeWithoutLocking closes the buffer itself once it has been flushed, and (c) the
// buffer's cursor is put back after the flush to where a seek with offset 0 from the current position had found it.
func ruleSyncKeepsBufferOpen(rule string) func(*Ctx) {
	return func(c *Ctx) {
		c.floor(rule, 3, "the source handed to Update by File.syncWithoutLocking, the close of the buffer, the cursor")
		f := c.fn("pkg/fs", "(*File).syncWithoutLocking")
		cl := c.fn("pkg/fs", "(*File).closeWithoutLocking")
		writeBuf := c.field("pkg/fs", "File", "writeBuf")
		getFile := c.field("pkg/config", "FileConfig", "GetFile")
		if f == nil || cl == nil || writeBuf == nil || getFile == nil {
			return
		}
		// (a)
		n := 0
		for _, g := range append([]*FuncInfo{f}, c.litsIn(f)...) {
			ginfo := g.Pkg.TypesInfo
			walkOwn(g.Body(), func(nd ast.Node) {
				kv, ok := nd.(*ast.KeyValueExpr)
				if !ok {
					return
				}
				id, ok := kv.Key.(*ast.Ident)
				if !ok || ginfo.Uses[id] != types.Object(getFile) {
					return
				}
				lit, ok := ast.Unparen(kv.Value).(*ast.FuncLit)
				if !ok {
					return
				}
				li := c.byLit[lit]
				if li == nil {
					return
				}
				for _, ret := range returnsIn(li) {
					if len(ret.Results) == 0 || !returnsNil(ginfo, ret) {
						continue
					}
					n++
					raw := selField(ginfo, ast.Unparen(ret.Results[0])) == writeBuf
					c.verdictIf(!raw, rule, f, fmt.Sprintf("source#%d", n), ret.Pos(), "Update is handed something built around the buffer, not the buffer",
						"File.syncWithoutLocking hands the write buffer itself to Update, which closes its source: after a Sync every Write on the handle fails with 'file already closed' (file-backed cache), and so does its Close")
				}
			})
		}
		if n == 0 {
			c.unresolved("File.syncWithoutLocking no longer fills config.FileConfig.GetFile with a function literal")
		}
		// (b)
		info := cl.Pkg.TypesInfo
		closes := false
		var at token.Pos = cl.Body().Pos()
		for _, cs := range cl.calls {
			if se, ok := ast.Unparen(cs.Call.Fun).(*ast.SelectorExpr); ok && se.Sel.Name == "Close" && selField(info, se.X) == writeBuf {
				closes, at = true, cs.Call.Pos()
			}
		}
		c.verdictIf(closes, rule, cl, "buffer closed with the handle", at, "closeWithoutLocking closes the write buffer", "nothing closes the handle's write buffer any more (Update is not handed the buffer itself): every handle that has been written to leaks its temporary file's descriptor")
		// (c)
		finfo := f.Pkg.TypesInfo
		var saved types.Object
		var update *ast.CallExpr
		for _, cs := range f.calls {
			if cs.Target != nil && cs.Target.Name == "(*Operations).Update" {
				update = cs.Call
			}
		}
		restored := false
		walkOwn(f.Body(), func(nd ast.Node) {
			as, ok := nd.(*ast.AssignStmt)
			if !ok || len(as.Rhs) != 1 || len(as.Lhs) != 2 {
				return
			}
			call, ok := ast.Unparen(as.Rhs[0]).(*ast.CallExpr)
			if !ok || len(call.Args) != 2 {
				return
			}
			se, ok := ast.Unparen(call.Fun).(*ast.SelectorExpr)
			if !ok || se.Sel.Name != "Seek" || selField(finfo, se.X) != writeBuf {
				return
			}
			if tv := finfo.Types[call.Args[0]]; tv.Value == nil || tv.Value.String() != "0" {
				return
			}
			if update != nil && as.Pos() < update.Pos() {
				saved = objOfIdentDefOrUse(finfo, as.Lhs[0])
			}
		})
		for _, cs := range f.calls {
			se, ok := ast.Unparen(cs.Call.Fun).(*ast.SelectorExpr)
			if !ok || se.Sel.Name != "Seek" || selField(finfo, se.X) != writeBuf || len(cs.Call.Args) != 2 {
				continue
			}
			if update != nil && cs.Call.Pos() > update.End() && saved != nil && objOfIdent(finfo, cs.Call.Args[0]) == saved {
				restored, at = true, cs.Call.Pos()
			}
		}
		c.verdictIf(restored, rule, f, "cursor restored after the flush", f.Body().Pos(), "the buffer's cursor is put back where it was before the flush",
			"the flush leaves the buffer's cursor at the end of the content: a Write after Seek+Sync lands at the end instead of at the handle's position")
	}
}

// ruleTapePaddingModuloRecord: on a tape every operation ends on a record boundary - the index counts in whole records.
// The clean-up of the tape writer pads by what is missing from the LAST record: the length of the padding and the
// test in front of it are computed from the number of bytes written modulo the record length, not from the difference
// to one record (which is negative as soon as an operation writes more than a record).
func ruleTapePaddingModuloRecord(rule string) func(*Ctx) {
	return func(c *Ctx) {
		c.floor(rule, 1, "the padding write of the tape writer's clean-up")
		f := c.fn("internal/tarext", "NewTapeWriter")
		if f == nil {
			return
		}
		n := 0
		for _, g := range c.Funcs {
			if g.RelPkg() != "internal/tarext" {
				continue
			}
			ginfo := g.Pkg.TypesInfo
			for _, cs := range g.calls {
				se, ok := ast.Unparen(cs.Call.Fun).(*ast.SelectorExpr)
				if !ok || se.Sel.Name != "Write" || len(cs.Call.Args) != 1 {
					continue
				}
				mk, ok := ast.Unparen(cs.Call.Args[0]).(*ast.CallExpr)
				if !ok || len(mk.Args) < 2 {
					continue
				}
				if id, ok := ast.Unparen(mk.Fun).(*ast.Ident); !ok || id.Name != "make" {
					continue
				}
				n++
				hasRem := func(e ast.Node) bool {
					found := false
					inspectThrough(g, e, func(m ast.Node) bool {
						if be, ok := m.(*ast.BinaryExpr); ok && be.Op == token.REM {
							bytes, rec := false, false
							ast.Inspect(be.X, func(k ast.Node) bool {
								if s, ok := k.(*ast.SelectorExpr); ok && s.Sel.Name == "BytesRead" {
									bytes = true
								}
								return true
							})
							inspectThrough(g, be.Y, func(k ast.Node) bool {
								if id, ok := k.(*ast.Ident); ok && id.Name == "recordSize" {
									rec = true
								}
								return true
							})
							if bytes && rec {
								found = true
							}
						}
						return !found
					})
					return found
				}
				lenOK := hasRem(mk.Args[1])
				condOK := false
				for _, cl := range enclosingConds(g.Body(), cs.Call) {
					if hasRem(cl.e) {
						condOK = true
					}
					// `if rest := n % r; rest > 0`: the remainder is computed in the statement's init
					ast.Inspect(g.Body(), func(m ast.Node) bool {
						if is, ok := m.(*ast.IfStmt); ok && is.Cond == cl.e && is.Init != nil && hasRem(is.Init) {
							condOK = true
						}
						return true
					})
				}
				_ = ginfo
				c.verdictIf(lenOK && condOK, rule, f, fmt.Sprintf("padding#%d", n), cs.Call.Pos(), "the padding is what is missing from the last record (bytes written modulo the record length)",
					"the tape writer's clean-up pads by the difference to ONE record: an operation that writes more than a record is not padded at all and ends in the middle of a record, so the next operation's first header does not sit where the index - which counts whole records - looks for it")
			}
		}
		if n == 0 {
			c.unresolved("no padding write (Write(make([]byte, n))) found in tarext.NewTapeWriter")
		}
	}
}

// ruleLimitAfterFilter: rows selected with LIKE include rows of other directories (`_` and `%` are wildcards, case is
// ignored) that are dropped in Go afterwards (C12.like-safety). A LIMIT inside such a statement is used up by rows
// that are dropped later, so a count-limited listing returns too few entries - or none, and "is the directory empty"
// says yes. No statement with a LIKE predicate carries a LIMIT.
func ruleLimitAfterFilter(rule string) func(*Ctx) {
	return func(c *Ctx) {
		c.floor(rule, 2, "`like ?` statements in pkg/persisters")
		n := 0
		for _, q := range likeQueries(c) {
			n++
			info := q.f.Pkg.TypesInfo
			text := strings.ToLower(sqlTextOf(q.f, q.call.Args[0], 0))
			limited := regexp.MustCompile(`\blimit\b`).MatchString(text)
			// qm.Limit next to a qm.Where(... like ...) in the same query-mod list
			if !limited {
				ast.Inspect(q.f.Body(), func(m ast.Node) bool {
					outer, ok := m.(*ast.CallExpr)
					if !ok || !containsNode(outer, q.call) || outer == q.call {
						return true
					}
					for _, a := range outer.Args {
						if call, ok := ast.Unparen(a).(*ast.CallExpr); ok {
							if fn, ok := calleeObj(info, call).(*types.Func); ok && fn.Name() == "Limit" && fn.Pkg() != nil && strings.HasSuffix(fn.Pkg().Path(), "queries/qm") {
								limited = true
							}
						}
					}
					return true
				})
			}
			c.verdictIf(!limited, rule, q.f, fmt.Sprintf("like#%d", n), q.call.Pos(), "the LIKE statement carries no LIMIT (the count is applied after foreign rows have been dropped)",
				"a statement that selects by LIKE also limits the number of rows: rows of other directories that the pattern matches too (`_`, `%`, case) use the limit up before they are dropped, so Readdir(n) on /a_b returns nothing while /aXb holds n files")
		}
		if n < 2 {
			c.unresolved("only %d LIKE statements found in pkg/persisters", n)
		}
	}
}

// ruleMissingMemberIsAnError: recovery.Fetch is called for a position at which the index says a member starts. When
// the tar reader's Next reports io.EOF there, the tape has been cut; passing io.EOF on would read - on the other side
// of the handle's pipe - as the regular end of the content, i.e. as an empty file. The error test behind Next
// therefore has a branch for io.EOF that returns something else.
func ruleMissingMemberIsAnError(rule string) func(*Ctx) {
	return func(c *Ctx) {
		c.floor(rule, 1, "the error test behind the header read in recovery.Fetch")
		f := c.fn("pkg/recovery", "Fetch")
		if f == nil {
			return
		}
		info := f.Pkg.TypesInfo
		eof := c.extObj("io", "EOF")
		n := 0
		list := f.Body().List
		for i, st := range list {
			as, ok := st.(*ast.AssignStmt)
			if !ok || len(as.Rhs) != 1 || len(as.Lhs) != 2 {
				continue
			}
			call, ok := ast.Unparen(as.Rhs[0]).(*ast.CallExpr)
			if !ok || !isMethod(calleeObj(info, call), "archive/tar", "Reader", "Next") {
				continue
			}
			errv := objOfIdentDefOrUse(info, as.Lhs[1])
			if errv == nil || i+1 >= len(list) {
				continue
			}
			is, ok := list[i+1].(*ast.IfStmt)
			if !ok {
				continue
			}
			n++
			handled := false
			ast.Inspect(is.Body, func(m ast.Node) bool {
				inner, ok := m.(*ast.IfStmt)
				if !ok {
					return true
				}
				be, ok := ast.Unparen(inner.Cond).(*ast.BinaryExpr)
				isEOFTest := ok && be.Op == token.EQL && ((objOfIdent(info, be.X) == errv && usesObjExpr(info, be.Y, eof)) || (objOfIdent(info, be.Y) == errv && usesObjExpr(info, be.X, eof)))
				if !isEOFTest {
					if call, ok := ast.Unparen(inner.Cond).(*ast.CallExpr); ok && isPkgFunc(calleeObj(info, call), "errors", "Is") && len(call.Args) == 2 && objOfIdent(info, call.Args[0]) == errv && usesObjExpr(info, call.Args[1], eof) {
						isEOFTest = true
					}
				}
				if !isEOFTest {
					return true
				}
				for _, s := range inner.Body.List {
					if ret, ok := s.(*ast.ReturnStmt); ok && len(ret.Results) > 0 {
						last := ret.Results[len(ret.Results)-1]
						if objOfIdent(info, last) != errv && !usesObjExpr(info, last, eof) && !isNilIdent(info, last) {
							handled = true
						}
					}
				}
				return true
			})
			c.verdictIf(handled, rule, f, fmt.Sprintf("header read#%d", n), is.Pos(), "an end of the tape where a member should start is reported as an error of its own",
				"recovery.Fetch passes the io.EOF of the tar reader on when the tape ends where the index says a member starts: the reading side of a handle takes io.EOF for the regular end of the content, so a file whose record has been cut off the tape reads as zero bytes without an error")
		}
		if n == 0 {
			c.unresolved("no `hdr, err := tr.Next()` followed by an error test found at the top level of recovery.Fetch")
		}
	}
}

// usesObjExpr: e mentions obj.
func usesObjExpr(info *types.Info, e ast.Expr, obj types.Object) bool {
	found := false
	ast.Inspect(e, func(m ast.Node) bool {
		if id, ok := m.(*ast.Ident); ok && info.Uses[id] == obj {
			found = true
		}
		return !found
	})
	return found
}

func init() {
	extend("C17", ruleMetadataUpdateKeepsSize("C17.metadata-update-keeps-size"))
	extend("C02", ruleMetadataUpdateKeepsSize("C02.metadata-update-keeps-size"))
}

// ruleMetadataUpdateKeepsSize: a record without content has tar size 0; the entry's size travels in the
// STFS.UncompressedSize record, which only entries written by STFS carry already. Wherever Operations.Update zeroes the
// size of the header it is about to write, it has stored that record from the header's size first (same block, before
// the zeroing) - otherwise Chmod/Chown/Chtimes on an entry of a foreign archive set its size to 0 in the index.
func ruleMetadataUpdateKeepsSize(rule string) func(*Ctx) {
	return func(c *Ctx) {
		c.floor(rule, 1, "stores of 0 to the size of the header Update writes")
		f := c.fn("pkg/operations", "(*Operations).Update")
		key := c.extObjRepo("internal/records", "STFSRecordUncompressedSize")
		if f == nil || key == nil {
			return
		}
		info := f.Pkg.TypesInfo
		n := 0
		var visit func(list []ast.Stmt)
		visit = func(list []ast.Stmt) {
			for i, st := range list {
				if as, ok := st.(*ast.AssignStmt); ok && len(as.Lhs) == 1 && len(as.Rhs) == 1 {
					if se, ok := ast.Unparen(as.Lhs[0]).(*ast.SelectorExpr); ok && se.Sel.Name == "Size" {
						if tv := info.Types[as.Rhs[0]]; tv.Value != nil && tv.Value.String() == "0" && isMethodRecvNamed(info.TypeOf(se.X), "archive/tar", "Header") {
							n++
							kept := false
							for _, prev := range list[:i] {
								pas, ok := prev.(*ast.AssignStmt)
								if !ok || len(pas.Lhs) != 1 || len(pas.Rhs) != 1 {
									continue
								}
								ix, ok := ast.Unparen(pas.Lhs[0]).(*ast.IndexExpr)
								if !ok || !usesObjExpr(info, ix.Index, key) {
									continue
								}
								// the value comes from the same header's size
								fromSize := false
								ast.Inspect(pas.Rhs[0], func(m ast.Node) bool {
									if s2, ok := m.(*ast.SelectorExpr); ok && s2.Sel.Name == "Size" && objOfIdent(info, s2.X) != nil && objOfIdent(info, s2.X) == objOfIdent(info, se.X) {
										fromSize = true
									}
									return true
								})
								if fromSize {
									kept = true
								}
							}
							c.verdictIf(kept, rule, f, fmt.Sprintf("size zeroed#%d", n), as.Pos(), "the size is stored in the UncompressedSize record before the header's size is zeroed",
								"Update zeroes the size of a content-less record without storing it in the STFS.UncompressedSize record: entries that were not written by STFS have no such record, so a Chmod, Chown or Chtimes on an entry of a foreign archive sets its size to 0 in the index and the file reads as empty")
						}
					}
				}
				// nested statement lists
				switch x := st.(type) {
				case *ast.BlockStmt:
					visit(x.List)
				case *ast.IfStmt:
					visit(x.Body.List)
					for el := x.Else; el != nil; {
						switch e := el.(type) {
						case *ast.BlockStmt:
							visit(e.List)
							el = nil
						case *ast.IfStmt:
							visit(e.Body.List)
							el = e.Else
						default:
							el = nil
						}
					}
				case *ast.ForStmt:
					visit(x.Body.List)
				case *ast.RangeStmt:
					visit(x.Body.List)
				case *ast.SwitchStmt:
					for _, cc := range x.Body.List {
						visit(cc.(*ast.CaseClause).Body)
					}
				case *ast.LabeledStmt:
					visit([]ast.Stmt{x.Stmt})
				}
			}
		}
		visit(f.Body().List)
		if n == 0 {
			c.unresolved("Operations.Update no longer zeroes the size of a content-less record")
		}
	}
}

// isMethodRecvNamed: t is (a pointer to) the named type pkg.name.
func isMethodRecvNamed(t types.Type, pkg, name string) bool {
	if t == nil {
		return false
	}
	t = types.Unalias(t)
	if pt, ok := t.(*types.Pointer); ok {
		t = types.Unalias(pt.Elem())
	}
	nt, ok := t.(*types.Named)
	return ok && nt.Obj().Pkg() != nil && nt.Obj().Pkg().Path() == pkg && nt.Obj().Name() == name
}

func init() {
	extend("C03", ruleEveryMemberWritten("C03.every-member-written"))
	extend("C02", ruleEveryMemberWritten("C02.every-member-written"))
	extend("C07", ruleUpsertIgnoresOldRow("C07.upsert-ignores-old-row"))
	extend("C01", ruleUpsertIgnoresOldRow("C01.upsert-ignores-old-row"))
}

// ruleEveryMemberWritten: the writers append a record for every member their source hands them. A `continue` in the
// member loop of archive/Update that is not behind a WriteHeader of the same branch skips a member; the only skips
// there are sit in an error branch (`err != nil`: a member whose header cannot be built, e.g. a socket). A skip decided
// from the member's size or time ("unchanged, nothing to do") drops writes whose content differs but whose length and
// preserved time do not.
func ruleEveryMemberWritten(rule string) func(*Ctx) {
	return func(c *Ctx) {
		c.floor(rule, 2, "skips in the member loops of Operations.archive and Operations.Update")
		n := 0
		for _, name := range []string{"(*Operations).archive", "(*Operations).Update"} {
			f := c.fn("pkg/operations", name)
			if f == nil {
				continue
			}
			info := f.Pkg.TypesInfo
			// the member loop: the outermost `for` of the body
			var loop *ast.ForStmt
			for _, st := range f.Body().List {
				if fs, ok := st.(*ast.ForStmt); ok && loop == nil {
					loop = fs
				}
			}
			if loop == nil {
				c.unresolved("no member loop found in %s", name)
				continue
			}
			var writes []*ast.CallExpr
			for _, cs := range f.calls {
				if isMethod(cs.Callee, "archive/tar", "Writer", "WriteHeader") && cs.Call.Pos() > loop.Pos() && cs.Call.End() < loop.End() {
					writes = append(writes, cs.Call)
				}
			}
			k := 0
			var walk func(n ast.Node, inner bool)
			walk = func(nd ast.Node, inner bool) {
				ast.Inspect(nd, func(m ast.Node) bool {
					switch x := m.(type) {
					case *ast.FuncLit:
						return false
					case *ast.ForStmt:
						if x != loop {
							return false // a continue in there belongs to the inner loop
						}
					case *ast.RangeStmt:
						return false
					case *ast.BranchStmt:
						if x.Tok != token.CONTINUE || x.Label != nil {
							return true
						}
						n++
						k++
						conds := enclosingConds(loop.Body, x)
						// behind a write of the same branch?
						written := false
						for _, w := range writes {
							if w.Pos() > x.Pos() {
								continue
							}
							covered := true
							for _, wc := range enclosingConds(loop.Body, w) {
								if containsNode(wc.e, w) {
									continue
								}
								found := false
								for _, cc := range conds {
									if cc.e == wc.e && cc.pos == wc.pos {
										found = true
									}
								}
								if !found {
									covered = false
								}
							}
							if covered {
								written = true
							}
						}
						inErr := false
						for _, cc := range conds {
							if be, ok := ast.Unparen(cc.e).(*ast.BinaryExpr); ok && be.Op == token.NEQ && cc.pos && isNilIdent(info, be.Y) {
								if o := objOfIdent(info, be.X); o != nil && types.Identical(o.Type(), types.Universe.Lookup("error").Type()) {
									inErr = true
								}
							}
						}
						c.verdictIf(written || inErr, rule, f, fmt.Sprintf("continue#%d", k), x.Pos(), "the skip follows the member's record or sits in an error branch",
							"a member handed to "+f.Name+" can be skipped without a record and without an error (the skip is decided from what the index or the member's info says): a write whose content differs but whose size and preserved time do not - an overwrite of the same length through a handle - is acknowledged and dropped")
					}
					return true
				})
			}
			walk(loop.Body, false)
		}
		if n < 2 {
			c.unresolved("only %d skips found in the member loops of the writers", n)
		}
	}
}

// ruleUpsertIgnoresOldRow: replaying a creation record installs its row whatever the index held under that name
// before - a live row, a tombstone, a row of another kind. UpsertHeader looks the old row up only to choose between
// INSERT and UPDATE: no condition in it reads the row that the lookup returned.
func ruleUpsertIgnoresOldRow(rule string) func(*Ctx) {
	return func(c *Ctx) {
		c.floor(rule, 1, "the existence lookup of MetadataPersister.UpsertHeader")
		f := c.fn("pkg/persisters", "(*MetadataPersister).UpsertHeader")
		if f == nil {
			return
		}
		info := f.Pkg.TypesInfo
		n := 0
		walkOwn(f.Body(), func(nd ast.Node) {
			as, ok := nd.(*ast.AssignStmt)
			if !ok || len(as.Rhs) != 1 || len(as.Lhs) != 2 {
				return
			}
			call, ok := ast.Unparen(as.Rhs[0]).(*ast.CallExpr)
			if !ok {
				return
			}
			fn, ok := calleeObj(info, call).(*types.Func)
			if !ok || fn.Name() != "One" {
				return
			}
			n++
			row := objOfIdentDefOrUse(info, as.Lhs[0])
			bad := ""
			if row != nil {
				ast.Inspect(f.Body(), func(m ast.Node) bool {
					var cond ast.Expr
					switch x := m.(type) {
					case *ast.IfStmt:
						cond = x.Cond
					case *ast.SwitchStmt:
						cond = x.Tag
					case *ast.CaseClause:
						for _, e := range x.List {
							if usesObjExpr(info, e, row) {
								bad = exprString(e)
							}
						}
					}
					if cond != nil && usesObjExpr(info, cond, row) {
						bad = exprString(cond)
					}
					return true
				})
			}
			c.verdictIf(bad == "", rule, f, fmt.Sprintf("lookup#%d", n), as.Pos(), "the old row is not read (the lookup only chooses between insert and update)",
				"UpsertHeader decides from the content of the row it found ("+bad+") whether the creation record is applied: the lookup also finds removed entries, so a record that is already on the tape (mkdir over a removed file) is refused while it is indexed - and every rebuild from that tape fails at the same record")
		})
		if n == 0 {
			c.unresolved("no existence lookup (.One) found in UpsertHeader")
		}
	}
}
