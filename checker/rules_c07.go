package main

import (
	"fmt"
	"go/ast"
	"go/types"
	"regexp"
	"strings"

	"golang.org/x/tools/go/cfg"
)

func init() {
	register(&Property{
		ID:          "C07",
		Explanation: "Insert discipline of the index store, the one structural necessary condition of idempotent replay: (guarded-insert) every call of the generated (*models.Header).Insert in pkg/persisters is reachable only across the edge on which a lookup by the same key columns (name, linkname) of the same row variable returned sql.ErrNoRows, and the CREATE arm of the replay switch goes through that method; (guarded-key-rewrite) every raw `update ... set name = ?` statement (a primary-key rewrite) must be dominated by a check or clearing of the destination key; (replay-arms) the replay switch handles the three STFS actions and rejects unknown ones.",
		NotDecided:  "Convergence itself (SQL state over histories), DELETE replay over tombstones, the `recovery index` default of overwrite=false.",
		Assumptions: []string{"the headers table's primary key is (name, linkname) as in the migration"},
		Rules:       []func(*Ctx){ruleC07GuardedInsert, ruleC07KeyRewrite, ruleC07ReplayArms},
	})
}

func ruleC07GuardedInsert(c *Ctx) {
	const rule = "C07.guarded-insert"
	c.floor(rule, 2, "Insert call sites and the CREATE arm")
	errNoRows := c.extObj("database/sql", "ErrNoRows")
	if errNoRows == nil {
		return
	}
	n := 0
	var insertFns []*FuncInfo
	for _, f := range c.Funcs {
		if strings.HasPrefix(f.RelPkg(), "internal/db/") {
			continue
		}
		info := f.Pkg.TypesInfo
		for _, cs := range f.calls {
			if !isMethod(cs.Callee, modelsPath, "Header", "Insert") && !isMethod(cs.Callee, modelsPath, "Header", "Upsert") {
				continue
			}
			n++
			insertFns = append(insertFns, f)
			construct := fmt.Sprintf("Insert#%d", n)
			se := ast.Unparen(cs.Call.Fun).(*ast.SelectorExpr)
			row := objOfIdent(info, se.X)
			fl := c.flow(f)
			// the edge: err == sql.ErrNoRows, err assigned from a `.One(` lookup whose Where arguments are row.Name and row.Linkname
			var lookupOK bool
			okk, _ := fl.guardedBy(cs.Call, func(ft Fact) bool {
				known, equal := sentinelFact(info, ft, errNoRows)
				return known && equal
			}, nil)
			// find the lookup: a call chain models.Headers(qm.Where(..., row.Name), qm.Where(..., row.Linkname)).One(...)
			walkOwn(f.Body(), func(nd ast.Node) {
				call, ok := nd.(*ast.CallExpr)
				if !ok || call.Pos() > cs.Call.Pos() {
					return
				}
				fn, ok := calleeObj(info, call).(*types.Func)
				if !ok || fn.Name() != "One" || fn.Pkg() == nil || fn.Pkg().Path() != modelsPath {
					return
				}
				keys := map[string]bool{}
				ast.Inspect(call, func(m ast.Node) bool {
					if s2, ok := m.(*ast.SelectorExpr); ok && objOfIdent(info, s2.X) == row && row != nil {
						keys[s2.Sel.Name] = true
					}
					return true
				})
				if keys["Name"] && keys["Linkname"] {
					lookupOK = true
				}
			})
			c.verdictIf(okk && lookupOK, rule, f, construct, cs.Call.Pos(),
				"insert happens only after a lookup by (name, linkname) of the same row reported no row", "a row can be inserted without a preceding lookup by its primary key having found nothing: replaying a record twice fails on the UNIQUE constraint")
		}
	}
	if n == 0 {
		c.unresolved("no (*models.Header).Insert call found outside generated code")
	}
	// the CREATE arm of the replay switch calls a persister method that contains such a guarded insert
	ih := c.fn("pkg/recovery", "indexHeader")
	create := c.constObj("internal/records", "STFSRecordActionCreate")
	if ih == nil || create == nil {
		return
	}
	info := ih.Pkg.TypesInfo
	found := false
	walkOwn(ih.Body(), func(nd ast.Node) {
		sw, ok := nd.(*ast.SwitchStmt)
		if !ok || sw.Tag == nil {
			return
		}
		t := buildSwitchTable(info, sw)
		arm := t.armFor(create)
		if arm == nil {
			return
		}
		for _, st := range arm.Body {
			ast.Inspect(st, func(m ast.Node) bool {
				call, ok := m.(*ast.CallExpr)
				if !ok {
					return true
				}
				if fn, ok := calleeObj(info, call).(*types.Func); ok {
					for _, g := range insertFns {
						if g.Decl != nil && g.Decl.Name.Name == fn.Name() {
							found = true
						}
					}
				}
				return true
			})
		}
	})
	c.verdictIf(found, rule, ih, "CREATE arm", ih.Decl.Pos(), "CREATE records are applied through the guarded insert-or-update method", "the CREATE arm does not go through the persister method that guards its insert")
}

var keyRewriteRe = regexp.MustCompile(`(?i)update\s+\S+\s+set\s+(\S+)\s*=\s*\?`)

func ruleC07KeyRewrite(c *Ctx) {
	const rule = "C07.guarded-key-rewrite"
	c.floor(rule, 2, "raw primary-key rewrites in pkg/persisters")
	n := 0
	for _, f := range c.Funcs {
		if f.RelPkg() != "pkg/persisters" {
			continue
		}
		info := f.Pkg.TypesInfo
		k := 0
		for _, cs := range f.calls {
			fn, ok := cs.Callee.(*types.Func)
			if !ok || fn.Name() != "Raw" || fn.Pkg() == nil || fn.Pkg().Path() != queriesPath || len(cs.Call.Args) == 0 {
				continue
			}
			text := sqlTextOf(f, cs.Call.Args[0], 0)
			if !keyRewriteRe.MatchString(text) {
				continue
			}
			// is the first SET column the name column? The column is a Sprintf operand: models.HeaderColumns.Name
			setsName := false
			var queryExpr ast.Node = cs.Call.Args[0]
			if o := objOfIdent(info, cs.Call.Args[0]); o != nil {
				if st, _, _ := defOf(f, o); st != nil && len(st.Rhs) == 1 {
					queryExpr = st.Rhs[0] // the statement text was hoisted into a local
				}
			}
			ast.Inspect(queryExpr, func(m ast.Node) bool {
				if call, ok := m.(*ast.CallExpr); ok && isPkgFunc(calleeObj(info, call), "fmt", "Sprintf") && len(call.Args) >= 3 {
					if se, ok := ast.Unparen(call.Args[2]).(*ast.SelectorExpr); ok && (se.Sel.Name == "Name" || se.Sel.Name == "Linkname") {
						setsName = true
					}
				}
				return true
			})
			if !setsName {
				continue
			}
			n++
			k++
			// a guard: some earlier statement on every path that looks up / deletes the destination key (newName)
			fl := c.flow(f)
			newName := paramVar(f, "newName")
			okk, _ := fl.dominatedBy(cs.Call, func(m ast.Node) bool {
				guard := false
				for _, call := range callsIn(m) {
					if call == cs.Call || call.Pos() >= cs.Call.Pos() {
						continue
					}
					fn2, ok := calleeObj(info, call).(*types.Func)
					if !ok {
						continue
					}
					// a lookup (One/Exists/headerExistsExact) or delete that mentions the destination name
					if (fn2.Name() == "One" || fn2.Name() == "Exists" || fn2.Name() == "DeleteAll" || fn2.Name() == "Delete" || fn2.Name() == "headerExistsExact" || fn2.Name() == "ExecContext") && newName != nil && usesObj(info, call, newName) {
						// ExecContext of the very same rewrite statement (the retry) is not a guard
						if fn2.Name() == "ExecContext" && keyRewriteRe.MatchString(sqlTextOf(f, call, 0)) {
							continue
						}
						guard = true
					}
				}
				return guard
			}, nil)
			c.verdictIf(okk, rule, f, fmt.Sprintf("raw-update#%d", k), cs.Call.Pos(),
				"destination key checked/cleared before the primary key is rewritten", "the primary key (name) is rewritten without checking or clearing the destination key: if the new name already holds a row - live, or a tombstone left by an earlier delete or by a previous pass over the same tape - the statement fails on the UNIQUE constraint, so re-indexing a history with a rename does not converge")
		}
	}
	if n < half(2) {
		c.unresolved("only %d raw primary-key rewrites found in pkg/persisters (expected 2 in MoveHeader)", n)
	}
}

func ruleC07ReplayArms(c *Ctx) {
	const rule = "C07.replay-arms"
	c.floor(rule, 4, "action switch arms and default")
	ih := c.fn("pkg/recovery", "indexHeader")
	if ih == nil {
		return
	}
	info := ih.Pkg.TypesInfo
	var actions []*types.Const
	for _, n := range []string{"STFSRecordActionCreate", "STFSRecordActionDelete", "STFSRecordActionUpdate"} {
		if k := c.constObj("internal/records", n); k != nil {
			actions = append(actions, k)
		}
	}
	var table *SwitchTable
	walkOwn(ih.Body(), func(nd ast.Node) {
		sw, ok := nd.(*ast.SwitchStmt)
		if !ok || sw.Tag == nil {
			return
		}
		t := buildSwitchTable(info, sw)
		for _, a := range actions {
			if t.armFor(a) != nil {
				table = t
			}
		}
	})
	if table == nil {
		c.unresolved("action switch in indexHeader")
		return
	}
	for _, a := range actions {
		c.verdictIf(table.armFor(a) != nil, rule, ih, "arm "+a.Name(), table.Stmt.Pos(), "action handled", "no arm for "+a.Name())
	}
	c.verdictIf(defaultReturnsError(info, table.defaultArm()), rule, ih, "default", table.Stmt.Pos(), "unknown actions are rejected", "unknown actions are silently accepted")
	_ = cfg.KindBody
}
