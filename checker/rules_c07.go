package main

import (
	"fmt"
	"go/ast"
	"go/token"
	"go/types"
	"regexp"
	"strings"

	"golang.org/x/tools/go/cfg"
)

func init() {
	register(&Property{
		ID:          "C07",
		Explanation: "Insert discipline of the index store, the one structural necessary condition of idempotent replay: (guarded-insert) every call of the generated (*models.Header).Insert in pkg/persisters is reachable only across the edge on which a lookup by the same key columns (name, linkname) of the same row variable returned sql.ErrNoRows, and the CREATE arm of the replay switch goes through that method; (guarded-key-rewrite) every raw `update ... set name = ?` statement (a primary-key rewrite) must be dominated by a check or clearing of the destination key; (replay-arms) the replay switch handles the three STFS actions and rejects unknown ones.",
		NotDecided:  "Convergence itself (SQL state over histories), DELETE replay over tombstones, the `recovery index` default of overwrite=false.",
		Assumptions: []string{"the headers table's primary key is (name, linkname) as in the migration"},
		Rules:       []func(*Ctx){ruleC07GuardedInsert, ruleC07KeyRewrite, ruleC07ReplayArms, ruleC07NoStateDependentRejection},
	})
}

func ruleC07GuardedInsert(c *Ctx) {
	const rule = "C07.guarded-insert"
	c.floor(rule, 2, "Insert call sites and the CREATE arm")
	errNoRows := c.extObj("database/sql", "ErrNoRows")
	if errNoRows == nil {
		return
	}
	n := 0
	var insertFns []*FuncInfo
	for _, f := range c.Funcs {
		if strings.HasPrefix(f.RelPkg(), "internal/db/") {
			continue
		}
		info := f.Pkg.TypesInfo
		for _, cs := range f.calls {
			if !isMethod(cs.Callee, modelsPath, "Header", "Insert") && !isMethod(cs.Callee, modelsPath, "Header", "Upsert") {
				continue
			}
			n++
			insertFns = append(insertFns, f)
			construct := fmt.Sprintf("Insert#%d", n)
			se := ast.Unparen(cs.Call.Fun).(*ast.SelectorExpr)
			row := objOfIdent(info, se.X)
			fl := c.flow(f)
			// the edge: err == sql.ErrNoRows, err assigned from a `.One(` lookup whose Where arguments are row.Name and row.Linkname
			var lookupOK bool
			okk, _ := fl.guardedBy(cs.Call, func(ft Fact) bool {
				known, equal := sentinelFact(info, ft, errNoRows)
				return known && equal
			}, nil)
			// find the lookup: a call chain models.Headers(qm.Where(..., row.Name), qm.Where(..., row.Linkname)).One(...)
			walkOwn(f.Body(), func(nd ast.Node) {
				call, ok := nd.(*ast.CallExpr)
				if !ok || call.Pos() > cs.Call.Pos() {
					return
				}
				fn, ok := calleeObj(info, call).(*types.Func)
				if !ok || fn.Name() != "One" || fn.Pkg() == nil || fn.Pkg().Path() != modelsPath {
					return
				}
				keys := map[string]bool{}
				ast.Inspect(call, func(m ast.Node) bool {
					if s2, ok := m.(*ast.SelectorExpr); ok && objOfIdent(info, s2.X) == row && row != nil {
						keys[s2.Sel.Name] = true
					}
					return true
				})
				// the columns the lookup filters on must be exactly the primary key: a further predicate (e.g. on
				// `deleted`) lets the lookup report "no row" for a key that is still present, and the insert then
				// fails on the UNIQUE constraint (re-creating a removed name, replaying a create twice)
				cols := map[string]bool{}
				ast.Inspect(call, func(m ast.Node) bool {
					if s2, ok := m.(*ast.SelectorExpr); ok {
						if s1, ok := ast.Unparen(s2.X).(*ast.SelectorExpr); ok && s1.Sel.Name == "HeaderColumns" {
							cols[strings.ToLower(s2.Sel.Name)] = true
						}
					}
					return true
				})
				pk := c.primaryKeyColumns()
				exact := len(pk) > 0 && len(cols) == len(pk)
				for _, k := range pk {
					if !cols[k] {
						exact = false
					}
				}
				if keys["Name"] && keys["Linkname"] && exact {
					lookupOK = true
				}
			})
			c.verdictIf(okk && lookupOK, rule, f, construct, cs.Call.Pos(),
				"insert happens only after a lookup by exactly the primary key (name, linkname) of the same row reported no row", "a row can be inserted without a preceding lookup by exactly its primary key (no further predicate) having found nothing: replaying a record twice, or re-creating a removed name, fails on the UNIQUE constraint")
		}
	}
	if n == 0 {
		c.unresolved("no (*models.Header).Insert call found outside generated code")
	}
	// the CREATE arm of the replay switch calls a persister method that contains such a guarded insert
	ih := c.fn("pkg/recovery", "indexHeader")
	create := c.constObj("internal/records", "STFSRecordActionCreate")
	if ih == nil || create == nil {
		return
	}
	info := ih.Pkg.TypesInfo
	found := false
	for _, dt := range dispatchTablesIn(ih) {
		t := dt.t
		arm := t.armFor(create)
		if arm == nil {
			continue
		}
		for _, st := range arm.Body {
			ast.Inspect(st, func(m ast.Node) bool {
				call, ok := m.(*ast.CallExpr)
				if !ok {
					return true
				}
				if fn, ok := calleeObj(info, call).(*types.Func); ok {
					for _, g := range insertFns {
						if g.Decl != nil && g.Decl.Name.Name == fn.Name() {
							found = true
						}
					}
				}
				return true
			})
		}
	}
	c.verdictIf(found, rule, ih, "CREATE arm", ih.Decl.Pos(), "CREATE records are applied through the guarded insert-or-update method", "the CREATE arm does not go through the persister method that guards its insert")
}

var setTailRe = regexp.MustCompile(`(?i)\bset\s*$`)

// sqlShapeOf renders a flattened statement with every operand as %v.
func sqlShapeOf(pieces []sqlPiece) string {
	var sb strings.Builder
	for _, pc := range pieces {
		if pc.expr != nil {
			sb.WriteString("%v")
		} else {
			sb.WriteString(pc.lit)
		}
	}
	return sb.String()
}

// sqlShapeOfCall: the shape of the statement given to queries.Raw somewhere inside e (a call chain such as
// queries.Raw(...).ExecContext(...)).
func sqlShapeOfCall(f *FuncInfo, e ast.Node) string {
	out := ""
	ast.Inspect(e, func(n ast.Node) bool {
		if call, ok := n.(*ast.CallExpr); ok && len(call.Args) > 0 {
			if fn, ok := calleeObj(f.Pkg.TypesInfo, call).(*types.Func); ok && fn.Name() == "Raw" && fn.Pkg() != nil && fn.Pkg().Path() == queriesPath {
				out = sqlShapeOf(flattenSQL(f, call.Args[0], 0))
				return false
			}
		}
		return true
	})
	return out
}

var keyRewriteRe = regexp.MustCompile(`(?i)update\s+\S+\s+set\s+(\S+)\s*=\s*\?`)

func ruleC07KeyRewrite(c *Ctx) {
	const rule = "C07.guarded-key-rewrite"
	c.floor(rule, 2, "raw primary-key rewrites in pkg/persisters")
	n := 0
	for _, f := range c.Funcs {
		if f.RelPkg() != "pkg/persisters" {
			continue
		}
		info := f.Pkg.TypesInfo
		k := 0
		for _, cs := range f.calls {
			fn, ok := cs.Callee.(*types.Func)
			if !ok || fn.Name() != "Raw" || fn.Pkg() == nil || fn.Pkg().Path() != queriesPath || len(cs.Call.Args) == 0 {
				continue
			}
			pieces := flattenSQL(f, cs.Call.Args[0], 0)
			if !keyRewriteRe.MatchString(sqlShapeOf(pieces)) {
				continue
			}
			// is the first SET column the name column? The column is an operand of the statement text (a Sprintf
			// operand or a concatenated value): models.HeaderColumns.Name
			setsName := false
			for i, pc := range pieces {
				if pc.expr == nil || i == 0 || pieces[i-1].expr != nil || !setTailRe.MatchString(pieces[i-1].lit) {
					continue
				}
				if se, ok := ast.Unparen(pc.expr).(*ast.SelectorExpr); ok && (se.Sel.Name == "Name" || se.Sel.Name == "Linkname") {
					setsName = true
				}
			}
			if !setsName {
				continue
			}
			n++
			k++
			// a guard: some earlier statement on every path that looks up / deletes the destination key (newName)
			fl := c.flow(f)
			newName := paramVar(f, "newName")
			oldName := paramVar(f, "oldName")
			isGuardNode := func(m ast.Node) bool {
				guard := false
				for _, call := range callsIn(m) {
					if call == cs.Call || call.Pos() >= cs.Call.Pos() {
						continue
					}
					fn2, ok := calleeObj(info, call).(*types.Func)
					if !ok {
						continue
					}
					// a lookup (One/Exists/headerExistsExact) or delete that mentions the destination name
					if (fn2.Name() == "One" || fn2.Name() == "Exists" || fn2.Name() == "DeleteAll" || fn2.Name() == "Delete" || fn2.Name() == "headerExistsExact" || fn2.Name() == "ExecContext") && newName != nil && usesObj(info, call, newName) {
						// ExecContext of the very same rewrite statement (the retry) is not a guard
						if fn2.Name() == "ExecContext" && keyRewriteRe.MatchString(sqlShapeOfCall(f, call)) {
							continue
						}
						guard = true
					}
				}
				return guard
			}
			// ... on every path, except where the key does not change at all (newName == oldName)
			an := &Analysis{Must: true, Entry: 0,
				Node: func(m ast.Node, st State) State {
					if !containsNode(m, cs.Call) && isGuardNode(m) {
						return st | 1
					}
					return st
				},
				Edge: func(b *cfg.Block, i int, st State) State {
					for _, ft := range fl.edgeFacts(b, i) {
						be, ok := ast.Unparen(ft.E).(*ast.BinaryExpr)
						if !ok || newName == nil || oldName == nil {
							continue
						}
						x, y := objOfIdent(info, be.X), objOfIdent(info, be.Y)
						same := (x == types.Object(newName) && y == types.Object(oldName)) || (x == types.Object(oldName) && y == types.Object(newName))
						if same && (be.Op == token.NEQ && !ft.Pos || be.Op == token.EQL && ft.Pos) {
							st |= 1
						}
					}
					return st
				}}
			fl.solve(an)
			stt, reach := fl.before(an, cs.Call)
			okk := reach && stt&1 != 0
			c.verdictIf(okk, rule, f, fmt.Sprintf("raw-update#%d", k), cs.Call.Pos(),
				"destination key checked/cleared before the primary key is rewritten", "the primary key (name) is rewritten without checking or clearing the destination key: if the new name already holds a row - live, or a tombstone left by an earlier delete or by a previous pass over the same tape - the statement fails on the UNIQUE constraint, so re-indexing a history with a rename does not converge")
		}
	}
	if n < half(2) {
		c.unresolved("only %d raw primary-key rewrites found in pkg/persisters (expected 2 in MoveHeader)", n)
	}
}

func ruleC07ReplayArms(c *Ctx) {
	const rule = "C07.replay-arms"
	c.floor(rule, 4, "action switch arms and default")
	ih := c.fn("pkg/recovery", "indexHeader")
	if ih == nil {
		return
	}
	info := ih.Pkg.TypesInfo
	var actions []*types.Const
	for _, n := range []string{"STFSRecordActionCreate", "STFSRecordActionDelete", "STFSRecordActionUpdate"} {
		if k := c.constObj("internal/records", n); k != nil {
			actions = append(actions, k)
		}
	}
	var table *SwitchTable
	for _, dt := range dispatchTablesIn(ih) {
		for _, a := range actions {
			if dt.t.armFor(a) != nil {
				table = dt.t
			}
		}
	}
	if table == nil {
		c.unresolved("action switch in indexHeader")
		return
	}
	for _, a := range actions {
		c.verdictIf(table.armFor(a) != nil, rule, ih, "arm "+a.Name(), table.At, "action handled", "no arm for "+a.Name())
	}
	c.verdictIf(defaultReturnsError(info, table.defaultArm()), rule, ih, "default", table.At, "unknown actions are rejected", "unknown actions are silently accepted")
	_ = cfg.KindBody
}

// primaryKeyColumns reads the generated model's primary key (`headerPrimaryKeyColumns = []string{...}`).
func (c *Ctx) primaryKeyColumns() []string {
	var out []string
	for _, pkg := range c.Pkgs {
		if pkg.PkgPath != modelsPath {
			continue
		}
		for _, file := range pkg.Syntax {
			ast.Inspect(file, func(n ast.Node) bool {
				vs, ok := n.(*ast.ValueSpec)
				if !ok {
					return true
				}
				for i, nm := range vs.Names {
					if nm.Name == "headerPrimaryKeyColumns" && i < len(vs.Values) {
						if cl, ok := vs.Values[i].(*ast.CompositeLit); ok {
							for _, e := range cl.Elts {
								if s, ok := constString(pkg.TypesInfo, e); ok {
									out = append(out, strings.ToLower(s))
								}
							}
						}
					}
				}
				return true
			})
		}
	}
	if len(out) == 0 {
		c.unresolved("primary key columns of the generated header model")
	}
	return out
}

// ruleC07NoStateDependentRejection: replaying a record may fail because the record is malformed or the store fails,
// never because of WHAT the index currently holds: a pass over a populated index meets rows that later records of the
// same tape produced, so a rejection that looks at an existing row (its kind, its times, ...) aborts replays that a
// rebuild into an empty index accepts. Decided for recovery.Index, indexHeader and the same-package helpers they
// call: no error return is control-dependent on a value read from the index store.
func ruleC07NoStateDependentRejection(c *Ctx) {
	const rule = "C07.no-state-dependent-rejection"
	c.floor(rule, 10, "error returns in recovery.Index, indexHeader and their helpers")
	index := c.fn("pkg/recovery", "Index")
	iface := c.namedType("pkg/config", "MetadataPersister")
	s := c.sinks()
	if index == nil || iface == nil {
		return
	}
	// same-package closure of Index
	set := []*FuncInfo{index}
	seen := map[*FuncInfo]bool{index: true}
	for i := 0; i < len(set); i++ {
		for _, cs := range set[i].calls {
			if g := cs.Target; g != nil && g.Pkg == index.Pkg && !seen[g] && g.Body() != nil {
				seen[g] = true
				set = append(set, g)
			}
		}
		for _, l := range c.litsIn(set[i]) {
			if !seen[l] {
				seen[l] = true
				set = append(set, l)
			}
		}
	}
	n := 0
	for _, f := range set {
		info := f.Pkg.TypesInfo
		// values read from the index store: non-error results of non-mutating interface calls
		tainted := map[types.Object]bool{}
		walkOwn(f.Body(), func(nd ast.Node) {
			as, ok := nd.(*ast.AssignStmt)
			if !ok || len(as.Rhs) != 1 {
				return
			}
			call, ok := ast.Unparen(as.Rhs[0]).(*ast.CallExpr)
			if !ok {
				return
			}
			fn, ok := calleeObj(info, call).(*types.Func)
			if !ok {
				return
			}
			sig, _ := fn.Type().(*types.Signature)
			if sig == nil || sig.Recv() == nil || !types.Identical(sig.Recv().Type(), iface) || s.mutators[fn.Name()] {
				return
			}
			for _, l := range as.Lhs {
				o := objOfIdent(info, l)
				if o == nil || o.Type().String() == "error" {
					continue
				}
				tainted[o] = true
			}
		})
		fl := c.flow(f)
		for i, ret := range returnsIn(f) {
			if len(ret.Results) == 0 || returnsNil(info, ret) {
				continue
			}
			n++
			if len(tainted) == 0 {
				c.ok(rule, f, fmt.Sprintf("error return#%d", i+1), ret.Pos(), false, "function reads nothing from the index store")
				continue
			}
			// passing on the error of a call that failed (`return err`) is not a rejection decided here: the rule is
			// about errors this code originates - sentinels, errors.New/fmt.Errorf
			last := ast.Unparen(ret.Results[len(ret.Results)-1])
			if id, ok := last.(*ast.Ident); ok {
				if v, ok := info.Uses[id].(*types.Var); ok && v.Pkg() != nil && v.Parent() != v.Pkg().Scope() {
					c.ok(rule, f, fmt.Sprintf("error return#%d", i+1), ret.Pos(), false, "propagates the error of a failed call")
					continue
				}
			}
			var witness string
			dep, reach := fl.guardedBy(ret, func(ft Fact) bool {
				for o := range tainted {
					if usesObj(info, ft.E, o) {
						witness = exprString(ft.E)
						return true
					}
				}
				return false
			}, nil)
			if !reach {
				continue
			}
			c.verdictIf(!dep, rule, f, fmt.Sprintf("error return#%d", i+1), ret.Pos(), "the failure does not depend on a value read from the index",
				"this error return is taken depending on what the index holds (`"+witness+"`): replaying the tape into an index that already reflects later records is rejected although a rebuild into an empty index accepts it")
		}
	}
	if n < half(10) {
		c.unresolved("only %d error returns found in the replay path", n)
	}
}
