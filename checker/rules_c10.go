package main

import (
	"fmt"
	"go/ast"
	"go/token"
	"go/types"
	"sort"
	"strings"

	"golang.org/x/tools/go/cfg"
)

func init() {
	register(&Property{
		ID:          "C10",
		Explanation: "Resource typestate decided on every control-flow path of the source: (drive-bracket) in every function that acquires the drive through BackendConfig.GetWriter/GetReader, each function exit reachable after a successful acquire has passed the matching CloseWriter/CloseReader (explicit, deferred, or the flag-guarded deferred idiom) and no close is reached with the drive free - a may-dataflow over go/cfg with the `err != nil` edge of the acquiring statement treated as 'not acquired'; (manager-typestate) inside pkg/tape the physical drive mutex is released on every error return of the acquiring functions and on every return of Close; (lock-pairs) every other sync.Mutex Lock is released on all exits; (no-crash-site) library packages contain no panic call, no Must*-style compile of caller input and no goroutine feeding a pipe that can exit without closing it.",
		NotDecided:  "Absence of hangs in general (a client-paced pipe reader keeps the drive, see C11), I/O fault injection at the k-th call, errors of the database layer, termination of loops.",
		Assumptions: []string{"BackendConfig.CloseWriter/CloseReader release what GetWriter/GetReader acquired (they are bound to TapeManager.Close in every constructor in the tree; checked by C10.backend-binding)"},
		Rules:       []func(*Ctx){ruleC10DriveBracket, ruleC10ManagerTypestate, ruleC10LockPairs, ruleC10NoCrashSite, ruleC10BackendBinding},
	})
}

const (
	bW     State = 1 << iota // writer may be held
	bR                       // reader may be held
	bDR                      // deferred CloseReader registered
	bDW                      // deferred (flag-guarded or plain) CloseWriter registered
	bArmed                   // the guard flag of the deferred CloseWriter may be true
	bFreeW                   // a path exists on which the writer is not held (for close-in-free detection)
	bFreeR
)

type bracket struct {
	c  *Ctx
	s  *sinkInfo
	f  *FuncInfo
	fl *Flow
	cs map[*ast.CallExpr]*CallSite
	// flag-guarded deferred close: defer func(){ if flag { CloseWriter() } }()
	flagVar      map[*ast.DeferStmt]*types.Var
	flagPos      map[*ast.DeferStmt]bool // true: closes when flag is true
	closeSummary map[*FuncInfo]string
	freeCloses   []string
	acquires     map[*FuncInfo]bool // functions that (transitively) acquire the drive
	heldAcquires []string
}

// kindOfCall classifies a call as acquire/close of the drive.
func (b *bracket) kindOfCall(call *ast.CallExpr) string {
	cs := b.cs[call]
	if cs == nil {
		return ""
	}
	if v, ok := cs.Callee.(*types.Var); ok {
		switch v {
		case b.s.getWriter:
			return "getW"
		case b.s.getReader:
			return "getR"
		case b.s.closeWriter:
			return "closeW"
		case b.s.closeReader:
			return "closeR"
		}
	}
	if cs.Target != nil && cs.Target.Lit != nil {
		// local closure: does it close the drive first thing on all its paths?
		return b.closureCloses(cs.Target)
	}
	return ""
}

// closureCloses: "closeR"/"closeW" when every path through the closure calls that close.
func (b *bracket) closureCloses(l *FuncInfo) string {
	if r, ok := b.closeSummary[l]; ok {
		return r
	}
	b.closeSummary[l] = ""
	res := ""
	for _, kind := range []struct {
		fv  *types.Var
		tag string
	}{{b.s.closeReader, "closeR"}, {b.s.closeWriter, "closeW"}} {
		var first *ast.CallExpr
		for _, cs := range l.calls {
			if cs.Callee == types.Object(kind.fv) && !cs.Defer {
				first = cs.Call
				break
			}
		}
		if first == nil {
			continue
		}
		// the close must be executed on every path: it is its own dominator of all exits
		lf := b.c.flow(l)
		an := &Analysis{Must: true, Entry: 0, Node: func(n ast.Node, s State) State {
			if containsNode(n, first) {
				return s | 1
			}
			return s
		}}
		lf.solve(an)
		all := true
		lf.exits(an, func(ret *ast.ReturnStmt, ord int, s State) {
			if s&1 == 0 {
				all = false
			}
		})
		if all {
			res = kind.tag
		} else {
			res = "maybe-" + kind.tag
		}
	}
	b.closeSummary[l] = res
	return res
}

func (b *bracket) node(n ast.Node, s State) State {
	switch d := n.(type) {
	case *ast.DeferStmt:
		if lit, ok := d.Call.Fun.(*ast.FuncLit); ok {
			if _, ok := b.flagVar[d]; ok {
				return s | bDW
			}
			li := b.c.byLit[lit]
			switch b.closureCloses(li) {
			case "closeR":
				return s | bDR
			case "closeW":
				return s | bDW | bArmed
			}
			return s
		}
		switch b.kindOfCall(d.Call) {
		case "closeR":
			return s | bDR
		case "closeW":
			return s | bDW | bArmed
		}
		return s
	case *ast.AssignStmt:
		// flag assignments: v = true / v = false, v := true
		for i, l := range d.Lhs {
			if i >= len(d.Rhs) || len(d.Lhs) != len(d.Rhs) {
				break
			}
			o := objOfIdent(b.fl.info, l)
			for ds, fv := range b.flagVar {
				if o != nil && o == types.Object(fv) {
					tv := b.fl.info.Types[d.Rhs[i]]
					if tv.Value != nil {
						val := tv.Value.String() == "true"
						if val == b.flagPos[ds] {
							s |= bArmed
						} else {
							s &^= bArmed
						}
					} else {
						s |= bArmed
					}
				}
			}
		}
	}
	for _, call := range callsIn(n) {
		kind := b.kindOfCall(call)
		if s&(bW|bR) != 0 {
			acq := kind == "getW" || kind == "getR"
			if cs := b.cs[call]; cs != nil && cs.Target != nil && b.acquires[cs.Target] && !strings.HasPrefix(kind, "close") && !strings.HasPrefix(kind, "maybe-close") {
				acq = true
			}
			if acq {
				b.heldAcquires = append(b.heldAcquires, "the drive is acquired again ("+exprString(call.Fun)+" at "+b.c.pos(call.Pos())+") while this call still holds it")
			}
		}
		switch kind {
		case "getW":
			s = (s | bW) &^ bFreeW
		case "getR":
			s = (s | bR) &^ bFreeR
		case "closeW":
			if s&bW == 0 {
				b.freeCloses = append(b.freeCloses, "CloseWriter at "+b.c.pos(call.Pos())+" reached with the writer not held")
			}
			s = (s &^ bW) | bFreeW
		case "closeR", "maybe-closeR":
			if s&bR == 0 || s&bFreeR != 0 {
				b.freeCloses = append(b.freeCloses, "CloseReader (or a closure calling it) at "+b.c.pos(call.Pos())+" can be reached with the reader not held")
			}
			s = (s &^ bR) | bFreeR
		}
	}
	return s
}

// edge: on the `err != nil` edge of the statement that acquired, the drive was not acquired.
func (b *bracket) edge(blk *cfg.Block, i int, s State) State {
	facts := b.fl.edgeFacts(blk, i)
	if len(facts) == 0 {
		return s
	}
	// find the acquire statement in this block and its error variable
	for _, n := range b.fl.condNodes(blk) {
		as, ok := n.(*ast.AssignStmt)
		if !ok || len(as.Rhs) != 1 {
			continue
		}
		call, ok := ast.Unparen(as.Rhs[0]).(*ast.CallExpr)
		if !ok {
			continue
		}
		k := b.kindOfCall(call)
		if k != "getW" && k != "getR" {
			continue
		}
		errObj := objOfIdent(b.fl.info, as.Lhs[len(as.Lhs)-1])
		if errObj == nil {
			continue
		}
		for _, f := range facts {
			be, ok := ast.Unparen(f.E).(*ast.BinaryExpr)
			if !ok {
				continue
			}
			var x ast.Expr
			if isNilIdent(b.fl.info, be.Y) {
				x = be.X
			} else if isNilIdent(b.fl.info, be.X) {
				x = be.Y
			}
			if x == nil || objOfIdent(b.fl.info, x) != errObj {
				continue
			}
			failed := be.Op == token.NEQ && f.Pos || be.Op == token.EQL && !f.Pos
			if failed {
				if k == "getW" {
					s = (s &^ bW) | bFreeW
				} else {
					s = (s &^ bR) | bFreeR
				}
			}
		}
	}
	return s
}

func ruleC10DriveBracket(c *Ctx) {
	const rule = "C10.drive-bracket"
	c.floor(rule, 60, "function exits reachable after a drive acquire in archive/Update/Delete/Move/Restore/Initialize")
	s := c.sinks()
	if s.getWriter == nil || s.getReader == nil || s.closeWriter == nil || s.closeReader == nil {
		return
	}
	acquires := c.reachClosure(func(cs *CallSite) bool {
		v, ok := cs.Callee.(*types.Var)
		return ok && (v == s.getWriter || v == s.getReader)
	})
	nfuncs := 0
	for _, f := range c.Funcs {
		if f.Lit != nil {
			continue // closures are summarised at their call sites
		}
		acquiresHere := false
		for _, cs := range f.calls {
			if v, ok := cs.Callee.(*types.Var); ok && (v == s.getWriter || v == s.getReader) {
				acquiresHere = true
			}
		}
		if !acquiresHere {
			continue
		}
		nfuncs++
		b := &bracket{c: c, s: s, f: f, fl: c.flow(f), cs: map[*ast.CallExpr]*CallSite{}, flagVar: map[*ast.DeferStmt]*types.Var{}, flagPos: map[*ast.DeferStmt]bool{}, closeSummary: map[*FuncInfo]string{}}
		for _, cs := range f.calls {
			b.cs[cs.Call] = cs
		}
		for _, l := range c.litsIn(f) {
			for _, cs := range l.calls {
				b.cs[cs.Call] = cs
			}
		}
		b.findFlagIdiom()
		b.acquires = acquires
		an := &Analysis{Must: false, Entry: bFreeW | bFreeR, Node: b.node, Edge: b.edge}
		b.fl.solve(an)
		b.freeCloses = nil // messages are collected during the final pass below only
		b.heldAcquires = nil
		seenFree := map[string]bool{}
		b.fl.exits(an, func(ret *ast.ReturnStmt, ord int, st State) {
			pos := f.Body().Rbrace
			if ret != nil {
				pos = ret.Pos()
			}
			var leaks []string
			if st&bW != 0 && !(st&bDW != 0 && st&bArmed != 0) {
				leaks = append(leaks, "the drive writer (GetWriter without CloseWriter)")
			}
			if st&bW == 0 && st&bDW != 0 && st&bArmed != 0 && st&bFreeW != 0 {
				// deferred close still armed although the writer was already closed/never acquired
				leaks = append(leaks, "a second CloseWriter (deferred close still armed after the writer was released)")
			}
			if st&bR != 0 && st&bDR == 0 {
				leaks = append(leaks, "the drive reader (GetReader without CloseReader)")
			}
			if st&bR == 0 && st&bDR != 0 && st&bFreeR != 0 {
				// the deferred close was registered before the acquisition was known to have succeeded
				leaks = append(leaks, "a CloseReader that runs although the reader was not acquired (the tape manager unlocks a mutex it does not hold: fatal error)")
			}
			construct := fmt.Sprintf("return#%d", ord)
			if len(leaks) > 0 {
				c.bad(rule, f, construct, pos, "this exit leaves %s; the next call that needs the drive blocks forever", strings.Join(leaks, " and "))
			} else {
				c.ok(rule, f, construct, pos, true, "drive free at this exit on every path")
			}
		})
		// acquire-while-held findings (self-deadlock: the drive mutex is not reentrant)
		{
			seen := map[string]bool{}
			for _, m := range b.heldAcquires {
				seen[m] = true
			}
			if len(seen) > 0 {
				var ms []string
				for m := range seen {
					ms = append(ms, m)
				}
				sort.Strings(ms)
				c.bad(rule, f, "acquire-while-held", f.Decl.Pos(), "%s: the physical drive mutex is not reentrant, so the call blocks on itself and every later call hangs", strings.Join(ms, "; "))
			} else {
				c.ok(rule, f, "acquire-while-held", f.Decl.Pos(), true, "the drive is never acquired while already held by the same call")
			}
		}
		// close-in-free findings (one obligation per function)
		for _, m := range b.freeCloses {
			seenFree[m] = true
		}
		if len(seenFree) > 0 {
			var ms []string
			for m := range seenFree {
				ms = append(ms, m)
			}
			c.bad(rule, f, "close-while-free", f.Decl.Pos(), "%s", strings.Join(ms, "; "))
		} else {
			c.ok(rule, f, "close-while-free", f.Decl.Pos(), true, "no close is reachable with the drive free")
		}
	}
	if nfuncs < half(6) {
		c.unresolved("only %d functions acquire the drive through BackendConfig (expected >= 6)", nfuncs)
	}
}

// findFlagIdiom recognises: defer func() { if flag { _ = CloseWriter() } }()  (or `if !flag`).
func (b *bracket) findFlagIdiom() {
	info := b.fl.info
	walkOwn(b.f.Body(), func(n ast.Node) {
		d, ok := n.(*ast.DeferStmt)
		if !ok {
			return
		}
		lit, ok := d.Call.Fun.(*ast.FuncLit)
		if !ok || len(lit.Body.List) != 1 {
			return
		}
		is, ok := lit.Body.List[0].(*ast.IfStmt)
		if !ok || is.Else != nil || is.Init != nil {
			return
		}
		pos := true
		cond := ast.Unparen(is.Cond)
		if u, ok := cond.(*ast.UnaryExpr); ok && u.Op == token.NOT {
			pos = false
			cond = ast.Unparen(u.X)
		}
		v, ok := objOfIdent(info, cond).(*types.Var)
		if !ok {
			return
		}
		closes := false
		ast.Inspect(is.Body, func(m ast.Node) bool {
			if call, ok := m.(*ast.CallExpr); ok && b.kindOfCall(call) == "closeW" {
				closes = true
			}
			return true
		})
		if closes {
			b.flagVar[d] = v
			b.flagPos[d] = pos
		}
	})
}

// flagDefer: the deferred, flag-guarded release idiom `defer func() { if [!]flag { release() } }()`.
type flagDefer struct {
	v   *types.Var
	pos bool // true: releases when the flag is true
}

// findFlagDefers lists the defer statements of f's own body that have the shape above for a release call.
func findFlagDefers(f *FuncInfo, releases func(*ast.CallExpr) bool) map[*ast.DeferStmt]flagDefer {
	info := f.Pkg.TypesInfo
	out := map[*ast.DeferStmt]flagDefer{}
	walkOwn(f.Body(), func(n ast.Node) {
		d, ok := n.(*ast.DeferStmt)
		if !ok {
			return
		}
		lit, ok := d.Call.Fun.(*ast.FuncLit)
		if !ok || len(lit.Body.List) != 1 {
			return
		}
		is, ok := lit.Body.List[0].(*ast.IfStmt)
		if !ok || is.Else != nil || is.Init != nil {
			return
		}
		pos := true
		cond := ast.Unparen(is.Cond)
		if u, ok := cond.(*ast.UnaryExpr); ok && u.Op == token.NOT {
			pos = false
			cond = ast.Unparen(u.X)
		}
		v, ok := objOfIdent(info, cond).(*types.Var)
		if !ok || v.IsField() {
			return
		}
		rel := false
		ast.Inspect(is.Body, func(m ast.Node) bool {
			if call, ok := m.(*ast.CallExpr); ok && releases(call) {
				rel = true
			}
			return true
		})
		if rel {
			out[d] = flagDefer{v, pos}
		}
	})
	return out
}

// flagDisarm reports what statement nd does to the guard flags in fds: +1 when it may switch a guarded release off
// (the flag is set to the value under which the closure does nothing, or to something that is not a constant), -1
// when it switches it on, 0 when it does not touch a flag.
func flagDisarm(info *types.Info, nd ast.Node, fds map[*ast.DeferStmt]flagDefer) int {
	res := 0
	set := func(o types.Object, val ast.Expr) {
		for _, fd := range fds {
			if o == nil || o != types.Object(fd.v) {
				continue
			}
			isTrue, known := false, false
			if val == nil {
				known = true // zero value
			} else if tv := info.Types[val]; tv.Value != nil {
				isTrue, known = tv.Value.String() == "true", true
			}
			if known && isTrue == fd.pos {
				res = -1
			} else {
				res = 1
			}
		}
	}
	switch x := nd.(type) {
	case *ast.AssignStmt:
		if len(x.Lhs) == len(x.Rhs) {
			for i, l := range x.Lhs {
				if id, ok := ast.Unparen(l).(*ast.Ident); ok {
					o := info.Defs[id]
					if o == nil {
						o = info.Uses[id]
					}
					set(o, x.Rhs[i])
				}
			}
		}
	case *ast.DeclStmt:
		if gd, ok := x.Decl.(*ast.GenDecl); ok {
			for _, sp := range gd.Specs {
				if vs, ok := sp.(*ast.ValueSpec); ok {
					for i, nm := range vs.Names {
						var val ast.Expr
						if i < len(vs.Values) {
							val = vs.Values[i]
						}
						set(info.Defs[nm], val)
					}
				}
			}
		}
	}
	return res
}

// ---- manager typestate ----

func ruleC10ManagerTypestate(c *Ctx) {
	const rule = "C10.manager-typestate"
	c.floor(rule, 6, "returns of the functions in pkg/tape that lock or unlock the physical drive mutex")
	phys := c.mutex("tape.physical")
	if phys == nil {
		return
	}
	n := 0
	for _, f := range c.Funcs {
		if f.RelPkg() != "pkg/tape" || f.Lit != nil {
			continue
		}
		info := f.Pkg.TypesInfo
		locks, unlocks := false, false
		for _, cs := range f.calls {
			if se, ok := ast.Unparen(cs.Call.Fun).(*ast.SelectorExpr); ok && selField(info, se.X) == phys {
				if se.Sel.Name == "Lock" {
					locks = true
				}
				if se.Sel.Name == "Unlock" {
					unlocks = true
				}
			}
		}
		if !locks && !unlocks {
			continue
		}
		n++
		fl := c.flow(f)
		const held, deferred, guarded, disarmed = 1, 2, 4, 8
		fds := findFlagDefers(f, func(call *ast.CallExpr) bool {
			se, ok := ast.Unparen(call.Fun).(*ast.SelectorExpr)
			return ok && selField(info, se.X) == phys && se.Sel.Name == "Unlock"
		})
		an := &Analysis{Must: false, Entry: 0, Node: func(nd ast.Node, s State) State {
			if d, ok := nd.(*ast.DeferStmt); ok {
				if _, ok := fds[d]; ok {
					return s | guarded
				}
				if se, ok := ast.Unparen(d.Call.Fun).(*ast.SelectorExpr); ok && selField(info, se.X) == phys && se.Sel.Name == "Unlock" {
					return s | deferred
				}
				return s
			}
			switch flagDisarm(info, nd, fds) {
			case 1:
				s |= disarmed
			case -1:
				s &^= disarmed
			}
			for _, call := range callsIn(nd) {
				if se, ok := ast.Unparen(call.Fun).(*ast.SelectorExpr); ok && selField(info, se.X) == phys {
					switch se.Sel.Name {
					case "Lock":
						s |= held
					case "Unlock":
						s &^= held
					}
				}
			}
			return s
		}}
		if unlocks && !locks {
			an.Entry = held // Close is entered with the mutex held
		}
		fl.solve(an)
		fl.exits(an, func(ret *ast.ReturnStmt, ord int, s State) {
			pos := f.Body().Rbrace
			if ret != nil {
				pos = ret.Pos()
			}
			isErr := ret != nil && !returnsNil(info, ret)
			stillHeld := s&held != 0 && s&deferred == 0 && !(s&guarded != 0 && s&disarmed == 0)
			construct := fmt.Sprintf("return#%d", ord)
			switch {
			case locks && !unlocks || locks && unlocks:
				// acquiring function: error returns must not keep the mutex, success returns hand it to the caller
				if isErr {
					c.verdictIf(!stillHeld, rule, f, construct, pos, "error return releases the drive mutex",
						"returns an error while still holding the physical drive mutex; every later GetWriter/GetReader blocks forever")
				} else {
					c.ok(rule, f, construct, pos, true, "success return (mutex handed to the caller by design)")
				}
			default:
				// releasing function (Close): every return must have released it
				c.verdictIf(!stillHeld, rule, f, construct, pos, "mutex released on this return",
					"Close returns without releasing the physical drive mutex; every later GetWriter/GetReader blocks forever")
			}
		})
	}
	if n < half(3) {
		c.unresolved("only %d functions in pkg/tape touch physicalLock (expected 3)", n)
	}
}

// ---- lock pairs ----

func mutexField(info *types.Info, call *ast.CallExpr) (*types.Var, string) {
	se, ok := ast.Unparen(call.Fun).(*ast.SelectorExpr)
	if !ok {
		return nil, ""
	}
	o := calleeObj(info, call)
	if !(isMethod(o, "sync", "Mutex", se.Sel.Name) || isMethod(o, "sync", "RWMutex", se.Sel.Name)) {
		return nil, ""
	}
	x := ast.Unparen(se.X)
	if fv := selField(info, x); fv != nil {
		return fv, se.Sel.Name
	}
	if v, ok := objOfIdent(info, x).(*types.Var); ok {
		return v, se.Sel.Name
	}
	return nil, se.Sel.Name
}

func ruleC10LockPairs(c *Ctx) {
	const rule = "C10.lock-pairs"
	c.floor(rule, 30, "Lock() calls on ioLock, diskOperationLock, readerLock, clientsLock")
	phys := c.mutex("tape.physical")
	for _, f := range c.Funcs {
		info := f.Pkg.TypesInfo
		n := 0
		for _, cs := range f.calls {
			mv, op := mutexField(info, cs.Call)
			if op != "Lock" && op != "RLock" {
				continue
			}
			if mv == nil {
				c.undecided(rule, f, "lock#?", cs.Call.Pos(), "Lock on a mutex expression the rule cannot name")
				continue
			}
			if mv == phys {
				continue // handed to the caller by design; see C10.manager-typestate
			}
			n++
			unlockName := "Unlock"
			if op == "RLock" {
				unlockName = "RUnlock"
			}
			fl := c.flow(f)
			fds := findFlagDefers(f, func(call *ast.CallExpr) bool {
				m, o := mutexField(info, call)
				return m == mv && o == unlockName
			})
			an := &Analysis{Must: false, Entry: 0, Node: func(nd ast.Node, s State) State {
				if d, ok := nd.(*ast.DeferStmt); ok {
					if _, ok := fds[d]; ok {
						return s | 4
					}
					if m, o := mutexField(info, d.Call); m == mv && o == unlockName {
						return s&^1 | 2
					}
					return s
				}
				switch flagDisarm(info, nd, fds) {
				case 1:
					s |= 8
				case -1:
					s &^= 8
				}
				for _, call := range callsIn(nd) {
					m, o := mutexField(info, call)
					if m != mv {
						continue
					}
					if call == cs.Call {
						if s&2 == 0 {
							s |= 1
						}
					} else if o == unlockName {
						s &^= 1
					}
				}
				return s
			}}
			fl.solve(an)
			leak := ""
			fl.exits(an, func(ret *ast.ReturnStmt, ord int, s State) {
				if s&1 != 0 && !(s&4 != 0 && s&8 == 0) && leak == "" {
					p := f.Body().Rbrace
					if ret != nil {
						p = ret.Pos()
					}
					leak = c.pos(p)
				}
			})
			c.verdictIf(leak == "", rule, f, fmt.Sprintf("%s.%s#%d", mv.Name(), op, n), cs.Call.Pos(),
				"released on every exit (defer or explicit)", "mutex "+mv.Name()+" still held at the exit at "+leak)
		}
	}
}

// ---- crash sites ----

func ruleC10NoCrashSite(c *Ctx) {
	const rule = "C10.no-crash-site"
	c.floor(rule, 3, "go statements and Must*/panic candidates in library packages")
	// positive control: the matcher must recognise a panic call and a MustCompile in the embedded fixture
	if !crashMatcherAlive() {
		c.unresolved("crash-site matcher failed its embedded positive control")
	}
	crashSites(c, rule)
}

func crashSites(c *Ctx, rule string) {
	for _, f := range c.Funcs {
		rel := f.RelPkg()
		if !(strings.HasPrefix(rel, "pkg/") || strings.HasPrefix(rel, "internal/")) || strings.HasPrefix(rel, "internal/db/") {
			continue
		}
		if rel == "internal/handlers" {
			// the HTTP panic handler recovers panics; it does not raise them
		}
		info := f.Pkg.TypesInfo
		np, nm, ng := 0, 0, 0
		for _, cs := range f.calls {
			if b, ok := cs.Callee.(*types.Builtin); ok && b.Name() == "panic" {
				np++
				c.bad(rule, f, fmt.Sprintf("panic#%d", np), cs.Call.Pos(), "library code calls panic(): a failing restore or lookup terminates the whole process instead of returning an error")
				continue
			}
			if fn, ok := cs.Callee.(*types.Func); ok && strings.HasPrefix(fn.Name(), "Must") && !inRepo(fn) {
				nm++
				allConst := true
				for _, a := range cs.Call.Args {
					if tv, ok := info.Types[a]; !ok || tv.Value == nil {
						allConst = false
					}
				}
				c.verdictIf(allConst, rule, f, fmt.Sprintf("%s#%d", fn.Name(), nm), cs.Call.Pos(),
					"Must-style call on constant arguments only", fn.Pkg().Name()+"."+fn.Name()+" panics on malformed input and receives a caller-supplied value")
			}
			if cs.Go {
				ng++
				construct := fmt.Sprintf("go#%d", ng)
				if cs.Target == nil {
					c.ok(rule, f, construct, cs.Call.Pos(), false, "go statement on a non-literal callee")
					continue
				}
				// a goroutine that captures an *io.PipeWriter must close it (Close/CloseWithError) on every exit,
				// otherwise the reader side blocks forever
				if pw := capturedPipeWriter(cs.Target); pw != nil {
					every := closesOnEveryExit(c, cs.Target, pw)
					c.verdictIf(every, rule, f, construct+" closes on every exit", cs.Call.Pos(),
						"the goroutine closes the pipe writer on every exit (deferred or explicit), so the reading side always sees an end",
						"goroutine feeding pipe writer "+pw.Name()+" can finish without closing it (e.g. when the producer returns success without ever opening the destination it was offered): the reading call then blocks forever while holding its lock")
					closed := closesOnAllExits(c, cs.Target, pw)
					c.verdictIf(closed, rule, f, construct, cs.Call.Pos(),
						"goroutine hands the error to the reading side (CloseWithError) on every error path",
						"goroutine feeding pipe writer "+pw.Name()+" can exit on an error path without CloseWithError: the reading side then blocks forever or sees a clean end of file, and the error is lost")
				} else {
					c.ok(rule, f, construct, cs.Call.Pos(), false, "goroutine does not feed a pipe")
				}
			}
		}
	}
}

func capturedPipeWriter(l *FuncInfo) *types.Var {
	info := l.Pkg.TypesInfo
	var found *types.Var
	ast.Inspect(l.Body(), func(n ast.Node) bool {
		id, ok := n.(*ast.Ident)
		if !ok {
			return true
		}
		v, ok := info.Uses[id].(*types.Var)
		// declared inside the goroutine's body: its own variable (a captured variable, or - for a named function started
		// with `go` - a parameter, is declared outside the body)
		if !ok || v.Pos() >= l.Body().Pos() && v.Pos() < l.Body().End() {
			return true
		}
		if p, ok := v.Type().(*types.Pointer); ok {
			if nm, ok := p.Elem().(*types.Named); ok && nm.Obj().Pkg() != nil && nm.Obj().Pkg().Path() == "io" && nm.Obj().Name() == "PipeWriter" {
				found = v
			}
		}
		return true
	})
	return found
}

// closesOnEveryExit: every exit of the goroutine has closed the pipe writer (Close/CloseWithError, deferred or explicit).
func closesOnEveryExit(c *Ctx, l *FuncInfo, pw *types.Var) bool {
	info := l.Pkg.TypesInfo
	isClose := func(call *ast.CallExpr) bool {
		se, ok := ast.Unparen(call.Fun).(*ast.SelectorExpr)
		if !ok || (se.Sel.Name != "Close" && se.Sel.Name != "CloseWithError") {
			return false
		}
		return objOfIdent(info, se.X) == types.Object(pw)
	}
	fl := c.flow(l)
	an := &Analysis{Must: true, Entry: 0, Node: func(n ast.Node, s State) State {
		if d, ok := n.(*ast.DeferStmt); ok {
			hit := isClose(d.Call)
			if lit, ok := d.Call.Fun.(*ast.FuncLit); ok {
				ast.Inspect(lit.Body, func(m ast.Node) bool {
					if call, ok := m.(*ast.CallExpr); ok && isClose(call) {
						hit = true
					}
					return true
				})
			}
			if hit {
				return s | 1
			}
			return s
		}
		for _, call := range callsIn(n) {
			if isClose(call) {
				s |= 1
			}
		}
		return s
	}}
	fl.solve(an)
	all := true
	fl.exits(an, func(ret *ast.ReturnStmt, ord int, s State) {
		if s&1 == 0 {
			all = false
		}
	})
	return all
}

// closesOnErrorPaths: on every path of the goroutine on which an error is known to be non-nil (true edge of
// `err != nil`), the pipe writer is closed (Close/CloseWithError, possibly deferred) before the goroutine exits,
// unless the path established `err == io.ErrClosedPipe` (the reader went away first). The success path is closed
// by the consumer of getDst (recovery.Fetch closes the destination it was given).
func closesOnAllExits(c *Ctx, l *FuncInfo, pw *types.Var) bool {
	info := l.Pkg.TypesInfo
	// on an error path only CloseWithError hands the error to the reading side: a plain Close (e.g. the deferred one)
	// ends the stream cleanly, and the reader would take a failed restore for a short file
	isClose := func(call *ast.CallExpr) bool {
		se, ok := ast.Unparen(call.Fun).(*ast.SelectorExpr)
		if !ok || se.Sel.Name != "CloseWithError" {
			return false
		}
		return objOfIdent(info, se.X) == types.Object(pw)
	}
	closedPipe := c.extObj("io", "ErrClosedPipe")
	fl := c.flow(l)
	const bad, deferredClose = 1, 2
	an := &Analysis{Must: false, Entry: 0,
		Node: func(n ast.Node, s State) State {
			if d, ok := n.(*ast.DeferStmt); ok {
				hit := isClose(d.Call)
				if lit, ok := d.Call.Fun.(*ast.FuncLit); ok {
					ast.Inspect(lit.Body, func(m ast.Node) bool {
						if call, ok := m.(*ast.CallExpr); ok && isClose(call) {
							hit = true
						}
						return true
					})
				}
				if hit {
					return s | deferredClose
				}
				return s
			}
			for _, call := range callsIn(n) {
				if isClose(call) {
					s &^= bad
				}
			}
			return s
		},
		Edge: func(b *cfg.Block, i int, s State) State {
			for _, f := range fl.edgeFacts(b, i) {
				if known, equal := sentinelFact(info, f, closedPipe); known && equal {
					s &^= bad
					continue
				}
				be, ok := ast.Unparen(f.E).(*ast.BinaryExpr)
				if !ok {
					continue
				}
				isErr := func(e ast.Expr) bool {
					tv, ok := info.Types[e]
					return ok && tv.Type != nil && tv.Type.String() == "error"
				}
				if isNilIdent(info, be.Y) && isErr(be.X) {
					if be.Op == token.NEQ && f.Pos || be.Op == token.EQL && !f.Pos {
						s |= bad
					}
				}
				if known, equal := sentinelFact(info, f, closedPipe); known && equal {
					s &^= bad
				}
			}
			return s
		}}
	fl.solve(an)
	all := true
	fl.exits(an, func(ret *ast.ReturnStmt, ord int, s State) {
		if s&bad != 0 && s&deferredClose == 0 {
			all = false
		}
	})
	return all
}

// ---- backend binding: CloseWriter/CloseReader are the manager's Close wherever a BackendConfig is built ----

func ruleC10BackendBinding(c *Ctx) {
	const rule = "C10.backend-binding"
	c.floor(rule, 10, "BackendConfig composite literals")
	bc := c.namedType("pkg/config", "BackendConfig")
	if bc == nil {
		return
	}
	for _, f := range c.Funcs {
		info := f.Pkg.TypesInfo
		n := 0
		walkOwn(f.Body(), func(nd ast.Node) {
			cl, ok := nd.(*ast.CompositeLit)
			if !ok {
				return
			}
			tv, ok := info.Types[cl]
			if !ok || !types.Identical(tv.Type, bc) {
				return
			}
			n++
			vals := map[string]ast.Expr{}
			for _, e := range cl.Elts {
				if kv, ok := e.(*ast.KeyValueExpr); ok {
					if id, ok := kv.Key.(*ast.Ident); ok {
						vals[id.Name] = kv.Value
					}
				}
			}
			recvOf := func(e ast.Expr, method string) types.Object {
				se, ok := ast.Unparen(e).(*ast.SelectorExpr)
				if !ok || se.Sel.Name != method {
					return nil
				}
				if !isMethod(info.Uses[se.Sel], modPath+"/pkg/tape", "TapeManager", method) {
					if sel, ok := info.Selections[se]; !ok || !isMethod(sel.Obj(), modPath+"/pkg/tape", "TapeManager", method) {
						return nil
					}
				}
				return objOfIdent(info, se.X)
			}
			gw, cw := recvOf(vals["GetWriter"], "GetWriter"), recvOf(vals["CloseWriter"], "Close")
			gr, cr := recvOf(vals["GetReader"], "GetReader"), recvOf(vals["CloseReader"], "Close")
			good := gw != nil && gw == cw && gr != nil && gr == cr && gw == gr
			c.verdictIf(good, rule, f, fmt.Sprintf("BackendConfig#%d", n), cl.Pos(),
				"all four callbacks are methods of one TapeManager; Close* is its Close", "BackendConfig literal whose Get*/Close* callbacks are not the matching methods of one TapeManager")
		})
	}
}

var _ = token.NoPos
