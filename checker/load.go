package main

import (
	"fmt"
	"go/ast"
	"go/token"
	"go/types"
	"os"
	"sort"
	"strings"

	"golang.org/x/tools/go/packages"
	"golang.org/x/tools/go/ssa"
	"golang.org/x/tools/go/ssa/ssautil"
	"golang.org/x/tools/go/types/typeutil"
)

type loadOpts struct {
	Dir    string
	Tests  bool
	GOOS   string
	GOARCH string
	Deps   bool // load dependency syntax too (needed for SSA)

	NoNormalise bool // analyse the text as it is (inventory generation)
}

func load(o loadOpts) (*Ctx, error) {
	env := []string{}
	for _, e := range os.Environ() {
		if strings.HasPrefix(e, "GOWORK=") || strings.HasPrefix(e, "GOFLAGS=") || strings.HasPrefix(e, "GOPROXY=") ||
			strings.HasPrefix(e, "GOSUMDB=") || strings.HasPrefix(e, "GOTOOLCHAIN=") || strings.HasPrefix(e, "GOOS=") || strings.HasPrefix(e, "GOARCH=") || strings.HasPrefix(e, "CGO_ENABLED=") {
			continue
		}
		env = append(env, e)
	}
	env = append(env, "GOFLAGS=-mod=mod", "GOPROXY=off", "GOSUMDB=off", "GOTOOLCHAIN=local", "GOWORK=off")
	variant := ""
	if o.GOOS != "" {
		env = append(env, "GOOS="+o.GOOS, "CGO_ENABLED=0")
		variant = o.GOOS
	}
	if o.GOARCH != "" {
		env = append(env, "GOARCH="+o.GOARCH, "CGO_ENABLED=0")
		variant += "/" + o.GOARCH
	}
	if o.Tests {
		variant += "+tests"
	}
	mode := packages.NeedName | packages.NeedFiles | packages.NeedCompiledGoFiles | packages.NeedImports | packages.NeedDeps |
		packages.NeedTypes | packages.NeedSyntax | packages.NeedTypesInfo | packages.NeedTypesSizes | packages.NeedModule
	cfg := &packages.Config{Mode: mode, Dir: o.Dir, Env: env, Tests: o.Tests, Fset: token.NewFileSet()}
	var norm *normResult
	if !o.NoNormalise {
		// helpers unknown to the frozen function inventory are inlined back into their callers (normalise.go)
		nenv := append([]string{}, env...)
		var nerr error
		norm, nerr = normalise(o.Dir, nenv)
		if nerr != nil {
			return nil, fmt.Errorf("normalisation: %v", nerr)
		}
		if len(norm.Overlay) > 0 {
			cfg.Overlay = norm.Overlay
		}
	}
	pkgs, err := packages.Load(cfg, "./...")
	if err != nil {
		return nil, err
	}
	if len(pkgs) == 0 {
		return nil, fmt.Errorf("no packages loaded from %s", o.Dir)
	}
	c := &Ctx{Norm: norm, RepoDir: o.Dir, Fset: cfg.Fset, byPath: map[string]*packages.Package{}, All: map[string]*packages.Package{}, Variant: variant,
		byObj: map[*types.Func]*FuncInfo{}, byLit: map[*ast.FuncLit]*FuncInfo{}, litOfVar: map[*types.Var]*FuncInfo{}}
	var errs []string
	packages.Visit(pkgs, nil, func(p *packages.Package) {
		c.All[p.PkgPath] = p
		if p.Module != nil && p.Module.Path == modPath {
			for _, e := range p.Errors {
				errs = append(errs, e.Error())
			}
		}
	})
	if len(errs) > 0 {
		return nil, fmt.Errorf("type/load errors in repository packages: %s", strings.Join(errs, "; "))
	}
	for _, p := range pkgs {
		if p.Module == nil || p.Module.Path != modPath {
			continue
		}
		// with Tests:true prefer the test-augmented variant "p [p.test]" over plain p
		id := p.PkgPath
		if strings.HasSuffix(p.ID, ".test") {
			continue
		}
		if old, ok := c.byPath[id]; ok {
			if len(p.Syntax) <= len(old.Syntax) {
				continue
			}
		}
		c.byPath[id] = p
	}
	for _, p := range c.byPath {
		c.Pkgs = append(c.Pkgs, p)
	}
	sort.Slice(c.Pkgs, func(i, j int) bool { return c.Pkgs[i].PkgPath < c.Pkgs[j].PkgPath })
	if len(c.Pkgs) == 0 {
		return nil, fmt.Errorf("no repository packages among %d loaded", len(pkgs))
	}
	c.collect()
	return c, nil
}

func recvName(fd *ast.FuncDecl) string {
	if fd.Recv == nil || len(fd.Recv.List) == 0 {
		return fd.Name.Name
	}
	t := fd.Recv.List[0].Type
	star := ""
	if s, ok := t.(*ast.StarExpr); ok {
		star = "*"
		t = s.X
	}
	if ix, ok := t.(*ast.IndexExpr); ok {
		t = ix.X
	}
	if id, ok := t.(*ast.Ident); ok {
		if star != "" {
			return "(*" + id.Name + ")." + fd.Name.Name
		}
		return "(" + id.Name + ")." + fd.Name.Name
	}
	return fd.Name.Name
}

func isGenerated(f *ast.File) bool {
	for _, cg := range f.Comments {
		for _, cm := range cg.List {
			if strings.Contains(cm.Text, "Code generated") && strings.Contains(cm.Text, "DO NOT EDIT") {
				return true
			}
		}
		break
	}
	return false
}

// collect builds FuncInfo for every declaration and literal and resolves call sites.
func (c *Ctx) collect() {
	for _, p := range c.Pkgs {
		for _, file := range p.Syntax {
			for _, d := range file.Decls {
				fd, ok := d.(*ast.FuncDecl)
				if !ok || fd.Body == nil {
					continue
				}
				obj, _ := p.TypesInfo.Defs[fd.Name].(*types.Func)
				fi := &FuncInfo{Pkg: p, Decl: fd, Obj: obj, Name: recvName(fd)}
				c.Funcs = append(c.Funcs, fi)
				if obj != nil {
					c.byObj[obj] = fi
				}
				c.collectLits(fi, fd.Body)
			}
			// package-level function literals (var x = func(){...})
			for _, d := range file.Decls {
				gd, ok := d.(*ast.GenDecl)
				if !ok {
					continue
				}
				for _, sp := range gd.Specs {
					vs, ok := sp.(*ast.ValueSpec)
					if !ok {
						continue
					}
					for i, v := range vs.Values {
						if cl, ok := ast.Unparen(v).(*ast.CompositeLit); ok && i < len(vs.Names) {
							if vo, ok := p.TypesInfo.Defs[vs.Names[i]].(*types.Var); ok {
								pkgLiteralIndex[vo] = cl
							}
						}
					}
					vname := "_"
					if len(vs.Names) > 0 {
						vname = vs.Names[0].Name
					}
					k := 0
					ast.Inspect(vs, func(n ast.Node) bool {
						if lit, ok := n.(*ast.FuncLit); ok {
							k++
							fi := &FuncInfo{Pkg: p, Lit: lit, Name: fmt.Sprintf("var %s$lit%d", vname, k)}
							c.Funcs = append(c.Funcs, fi)
							c.byLit[lit] = fi
							c.collectLits(fi, lit.Body)
							return false
						}
						return true
					})
				}
			}
		}
	}
	// bind local variables to literals: v := func(){}, var v = func(){}, v = func(){} (exactly one binding)
	for _, f := range c.Funcs {
		binds := map[*types.Var][]*ast.FuncLit{}
		walkOwn(f.Body(), func(n ast.Node) {
			switch s := n.(type) {
			case *ast.AssignStmt:
				for i, l := range s.Lhs {
					if i >= len(s.Rhs) || len(s.Lhs) != len(s.Rhs) {
						break
					}
					id, ok := l.(*ast.Ident)
					if !ok {
						continue
					}
					lit, ok := s.Rhs[i].(*ast.FuncLit)
					if !ok {
						continue
					}
					var v *types.Var
					if o, ok := f.Pkg.TypesInfo.Defs[id].(*types.Var); ok && o != nil {
						v = o
					} else if o, ok := f.Pkg.TypesInfo.Uses[id].(*types.Var); ok {
						v = o
					}
					if v != nil {
						binds[v] = append(binds[v], lit)
					}
				}
			case *ast.ValueSpec:
				for i, id := range s.Names {
					if i < len(s.Values) {
						if lit, ok := s.Values[i].(*ast.FuncLit); ok {
							if v, ok := f.Pkg.TypesInfo.Defs[id].(*types.Var); ok {
								binds[v] = append(binds[v], lit)
							}
						}
					}
				}
			}
		})
		for v, lits := range binds {
			if len(lits) == 1 {
				c.litOfVar[v] = c.byLit[lits[0]]
			}
		}
	}
	// multi-value bindings from repository functions returning literals are handled by rules that need them.
	for _, f := range c.Funcs {
		c.resolveCalls(f)
	}
}

func (c *Ctx) collectLits(outer *FuncInfo, body ast.Node) {
	ast.Inspect(body, func(n ast.Node) bool {
		if lit, ok := n.(*ast.FuncLit); ok {
			root := outer
			for root.Outer != nil {
				root = root.Outer
			}
			root.nlit++
			fi := &FuncInfo{Pkg: outer.Pkg, Lit: lit, Outer: outer, Name: fmt.Sprintf("%s$lit%d", root.Name, root.nlit)}
			c.Funcs = append(c.Funcs, fi)
			c.byLit[lit] = fi
			c.collectLits(fi, lit.Body)
			return false
		}
		return true
	})
}

// walkOwn visits the nodes of a function body without descending into nested literals
// (the literal node itself is visited).
func walkOwn(body ast.Node, visit func(ast.Node)) {
	if body == nil {
		return
	}
	ast.Inspect(body, func(n ast.Node) bool {
		if n == nil {
			return false
		}
		visit(n)
		if _, ok := n.(*ast.FuncLit); ok && n != body {
			return false
		}
		return true
	})
}

// calleeObj resolves the called object of a call expression.
func calleeObj(info *types.Info, call *ast.CallExpr) types.Object {
	if o := typeutil.Callee(info, call); o != nil {
		return o
	}
	fun := ast.Unparen(call.Fun)
	switch f := fun.(type) {
	case *ast.Ident:
		return info.Uses[f]
	case *ast.SelectorExpr:
		if sel, ok := info.Selections[f]; ok {
			return sel.Obj()
		}
		return info.Uses[f.Sel]
	}
	return nil
}

func (c *Ctx) resolveCalls(f *FuncInfo) {
	info := f.Pkg.TypesInfo
	deferred := map[*ast.CallExpr]bool{}
	gone := map[*ast.CallExpr]bool{}
	walkOwn(f.Body(), func(n ast.Node) {
		switch s := n.(type) {
		case *ast.DeferStmt:
			deferred[s.Call] = true
		case *ast.GoStmt:
			gone[s.Call] = true
		}
	})
	walkOwn(f.Body(), func(n ast.Node) {
		call, ok := n.(*ast.CallExpr)
		if !ok {
			return
		}
		if tv, ok := info.Types[call.Fun]; ok && tv.IsType() {
			return // conversion
		}
		cs := &CallSite{In: f, Call: call, Defer: deferred[call], Go: gone[call]}
		cs.Callee = calleeObj(info, call)
		switch o := cs.Callee.(type) {
		case *types.Func:
			cs.Target = c.byObj[o.Origin()]
		case *types.Var:
			cs.Target = c.litOfVar[o]
		}
		if lit, ok := ast.Unparen(call.Fun).(*ast.FuncLit); ok {
			cs.Target = c.byLit[lit]
		}
		f.calls = append(f.calls, cs)
	})
}

// litsIn returns the literals directly nested in f (one level).
func (c *Ctx) litsIn(f *FuncInfo) []*FuncInfo {
	var out []*FuncInfo
	for _, g := range c.Funcs {
		if g.Outer == f {
			out = append(out, g)
		}
	}
	return out
}

// ---- SSA (built lazily; needs dependency syntax) ----

func (c *Ctx) buildSSA() {
	if c.prog != nil {
		return
	}
	var initial []*packages.Package
	initial = append(initial, c.Pkgs...)
	prog, pkgs := ssautil.AllPackages(initial, ssa.InstantiateGenerics)
	prog.Build()
	c.prog = prog
	c.ssaPkgs = pkgs
}

func (c *Ctx) ssaFunc(f *FuncInfo) *ssa.Function {
	c.buildSSA()
	if f.Obj != nil {
		return c.prog.FuncValue(f.Obj)
	}
	// literal: find through the enclosing declaration's anonymous functions by position
	root := f
	for root.Outer != nil {
		root = root.Outer
	}
	if root.Obj == nil {
		return nil
	}
	var found *ssa.Function
	var walk func(fn *ssa.Function)
	walk = func(fn *ssa.Function) {
		if fn == nil || found != nil {
			return
		}
		for _, a := range fn.AnonFuncs {
			if a.Syntax() == f.Lit {
				found = a
				return
			}
			walk(a)
		}
	}
	walk(c.prog.FuncValue(root.Obj))
	return found
}
