package main

// Rules added in the tenth round (DESIGN.md §7.12): for seeded changes that were not reported on the first try and for the
// defect repaired in this round.

import (
	"fmt"
	"go/ast"
	"go/token"
	"go/types"
	"strings"
)

func init() {
	extend("C08", ruleHollowSignatureIsInvalid("C08.hollow-signature-is-invalid"))
	extend("C18", ruleHollowSignatureIsInvalid("C18.hollow-signature-is-invalid"))
	extend("C11", ruleHandleCallsAreOneCriticalSection("C11.handle-calls-are-one-critical-section"))
	extend("C14", ruleHandleCallsAreOneCriticalSection("C14.handle-calls-are-one-critical-section"))
	extend("C14", ruleCapacityNeverDecides("C14.spare-capacity-never-reused"), rulePositionedOpsSeekFirst("C14.positioned-ops-seek-first"))
	extend("C03", ruleCapacityNeverDecides("C03.spare-capacity-never-reused"), rulePositionedOpsSeekFirst("C03.positioned-ops-seek-first"))
	extend("C10", rulePaxRecordsMapPresent("C10.pax-records-map-present"))
	extend("C05", rulePaxRecordsMapPresent("C05.pax-records-map-present"))
	extend("C09", ruleCLIPipeConfigFromItsFlags("C09.cli-pipe-config-from-its-flags"))
	extend("C18", ruleCLIPipeConfigFromItsFlags("C18.cli-pipe-config-from-its-flags"))
	extend("C15", ruleOnlyTheMutatorsWriteRows("C15.only-the-mutators-write-rows"))
	extend("C11", ruleFilesystemCallsAreOneCriticalSection("C11.filesystem-calls-are-one-critical-section"))
	extend("C18", ruleNoUnsafeOutsideTheDriver("C18.no-unsafe-outside-the-driver"), ruleSignatureBytesReachOnlyThePrimitive("C18.signature-bytes-reach-only-the-primitive"))
	extend("C08", ruleSignatureBytesReachOnlyThePrimitive("C08.signature-bytes-reach-only-the-primitive"))
	extend("C01", ruleEmbeddedHeaderKeepsNames("C01.embedded-header-keeps-names"))
}

// stmtLists calls fn for every statement list of body (blocks, case and comm clauses), outermost first.
func stmtLists(body ast.Node, fn func(list []ast.Stmt)) {
	ast.Inspect(body, func(m ast.Node) bool {
		switch x := m.(type) {
		case *ast.BlockStmt:
			fn(x.List)
		case *ast.CaseClause:
			fn(x.Body)
		case *ast.CommClause:
			fn(x.Body)
		}
		return true
	})
}

// eofTestOf: cond compares errv with io.EOF (== or errors.Is).
func eofTestOf(info *types.Info, cond ast.Expr, errv, eof types.Object) bool {
	cond = ast.Unparen(cond)
	if be, ok := cond.(*ast.BinaryExpr); ok && be.Op == token.EQL {
		return (objOfIdent(info, be.X) == errv && usesObjExpr(info, be.Y, eof)) || (objOfIdent(info, be.Y) == errv && usesObjExpr(info, be.X, eof))
	}
	if call, ok := cond.(*ast.CallExpr); ok && isPkgFunc(calleeObj(info, call), "errors", "Is") && len(call.Args) == 2 {
		return objOfIdent(info, call.Args[0]) == errv && usesObjExpr(info, call.Args[1], eof)
	}
	return false
}

// ruleHollowSignatureIsInvalid: the OpenPGP packet reader answers io.EOF when the bytes it was given hold no packet it knows
// (nothing at all, or only packets of unknown type, which it skips). A verification function that passes that error on
// reports "end of file" for a record whose signature was hollowed out - and the reading side of a file handle takes io.EOF
// coming out of the restore for the regular end of the content: the file reads as empty, without an error. Every read of a
// packet in pkg/signature is followed by an error test whose io.EOF case returns another error.
func ruleHollowSignatureIsInvalid(rule string) func(*Ctx) {
	return func(c *Ctx) {
		c.floor(rule, 2, "packet reads of the verification functions")
		eof := c.extObj("io", "EOF")
		n := 0
		for _, f := range c.Funcs {
			if f.RelPkg() != "pkg/signature" || f.Body() == nil || f.Lit != nil {
				continue
			}
			info := f.Pkg.TypesInfo
			k := 0
			stmtLists(f.Body(), func(list []ast.Stmt) {
				for i, st := range list {
					as, ok := st.(*ast.AssignStmt)
					if !ok || len(as.Rhs) != 1 || len(as.Lhs) != 2 {
						continue
					}
					call, ok := ast.Unparen(as.Rhs[0]).(*ast.CallExpr)
					if !ok {
						continue
					}
					o, _ := calleeObj(info, call).(*types.Func)
					if o == nil || o.Name() != "Next" || o.Pkg() == nil || !strings.HasSuffix(o.Pkg().Path(), "openpgp/packet") {
						continue
					}
					errv := objOfIdentDefOrUse(info, as.Lhs[1])
					n++
					k++
					key := fmt.Sprintf("packet read#%d", k)
					handled := false
					if errv != nil && i+1 < len(list) {
						if is, ok := list[i+1].(*ast.IfStmt); ok {
							ast.Inspect(is.Body, func(m ast.Node) bool {
								inner, ok := m.(*ast.IfStmt)
								if !ok || !eofTestOf(info, inner.Cond, errv, eof) {
									return true
								}
								for _, s := range inner.Body.List {
									if ret, ok := s.(*ast.ReturnStmt); ok && len(ret.Results) > 0 {
										last := ret.Results[len(ret.Results)-1]
										if objOfIdent(info, last) != errv && !usesObjExpr(info, last, eof) && !isNilIdent(info, last) {
											handled = true
										}
									}
								}
								return true
							})
						}
					}
					c.verdictIf(handled, rule, f, key, as.Pos(), "a signature without a packet is reported as an error of its own, never as io.EOF",
						f.Name+" passes the packet reader's io.EOF on when a signature holds no packet (emptied, or replaced by packets of unknown type): the reading side of a handle takes io.EOF for the regular end of the content, so a record whose header signature was hollowed out reads back as an empty file without an error")
				}
			})
		}
		if n == 0 {
			c.unresolved("no packet read found in pkg/signature")
		}
	}
}

// ruleHandleCallsAreOneCriticalSection: every method of a file handle is one critical section of the I/O lock. A method that
// is assembled from two or more methods which each take the lock themselves (ReadAt = Seek, then Read) lets another call on
// the same handle - io.ReaderAt explicitly allows parallel calls - move the cursor in between: the positioned read returns
// the bytes at the other caller's offset, an outcome no sequential order of the calls produces. No exported method of
// File calls more than one self-locking method of File that touches the read stream or the write buffer.
func ruleHandleCallsAreOneCriticalSection(rule string) func(*Ctx) {
	return func(c *Ctx) {
		c.floor(rule, 13, "exported methods of the file handle")
		lock := c.field("pkg/fs", "File", "ioLock")
		if lock == nil {
			return
		}
		isFileMethod := func(f *FuncInfo) bool {
			return f.RelPkg() == "pkg/fs" && f.Decl != nil && f.Lit == nil && strings.HasPrefix(f.Name, "(*File).")
		}
		selfLocking := map[*FuncInfo]bool{}
		for _, f := range c.Funcs {
			if !isFileMethod(f) {
				continue
			}
			info := f.Pkg.TypesInfo
			walkOwn(f.Body(), func(nd ast.Node) {
				call, ok := nd.(*ast.CallExpr)
				if !ok {
					return
				}
				if se, ok := ast.Unparen(call.Fun).(*ast.SelectorExpr); ok && se.Sel.Name == "Lock" && selField(info, se.X) == lock {
					selfLocking[f] = true
				}
			})
		}
		// methods that touch what a second caller can move: the read stream and the write buffer (directly or through
		// File methods they call). A helper that takes the lock to look at the entry's kind is not one of them.
		cursorFields := map[*types.Var]bool{}
		for _, fn := range []string{"readOpReader", "readOpWriter", "writeBuf"} {
			if v := c.field("pkg/fs", "File", fn); v != nil {
				cursorFields[v] = true
			}
		}
		touches := map[*FuncInfo]bool{}
		for _, f := range c.Funcs {
			if !isFileMethod(f) {
				continue
			}
			info := f.Pkg.TypesInfo
			ast.Inspect(f.Body(), func(m ast.Node) bool {
				if se, ok := m.(*ast.SelectorExpr); ok {
					if v := selField(info, se); v != nil && cursorFields[v] {
						touches[f] = true
					}
				}
				return true
			})
		}
		for changed := true; changed; {
			changed = false
			for _, f := range c.Funcs {
				if !isFileMethod(f) || touches[f] {
					continue
				}
				for _, cs := range f.calls {
					if cs.Target != nil && touches[cs.Target] {
						touches[f] = true
						changed = true
					}
				}
			}
		}
		n := 0
		for _, f := range c.Funcs {
			if !isFileMethod(f) || !f.Decl.Name.IsExported() {
				continue
			}
			n++
			var names []string
			pos := f.Decl.Pos()
			for _, cs := range f.calls {
				if cs.Target != nil && cs.Target != f && selfLocking[cs.Target] && touches[cs.Target] {
					names = append(names, cs.Target.Name)
					pos = cs.Call.Pos()
				}
			}
			c.verdictIf(len(names) <= 1, rule, f, "composition", pos, "the call is at most one critical section of the I/O lock",
				fmt.Sprintf("%s is assembled from %d calls that each take the I/O lock on their own (%s): another call on the same handle can move the cursor in between, so a positioned operation acts at the other caller's offset", f.Name, len(names), strings.Join(names, ", ")))
		}
		if len(selfLocking) < 5 {
			c.unresolved("only %d methods of File take the I/O lock themselves", len(selfLocking))
		}
	}
}

// ruleCapacityNeverDecides: the in-memory write cache grows by appending freshly zeroed bytes. Spare capacity behind the
// content is not zero once the content has been cut (Truncate to a smaller size, O_TRUNC): re-slicing into it brings the old
// bytes back where a file has zeros. In the buffer types of pkg/cache the capacity of the content never bounds a slice
// expression and never decides whether the content is re-sliced.
func ruleCapacityNeverDecides(rule string) func(*Ctx) {
	return func(c *Ctx) {
		c.floor(rule, 4, "methods of the buffer types of pkg/cache")
		n := 0
		for _, f := range c.Funcs {
			if f.RelPkg() != "pkg/cache" || f.Decl == nil || f.Decl.Recv == nil {
				continue
			}
			n++
			info := f.Pkg.TypesInfo
			bad := token.NoPos
			isCapOfField := func(e ast.Expr) bool {
				found := false
				ast.Inspect(e, func(m ast.Node) bool {
					call, ok := m.(*ast.CallExpr)
					if !ok || len(call.Args) != 1 {
						return true
					}
					if b, ok := calleeObj(info, call).(*types.Builtin); ok && b.Name() == "cap" && selField(info, call.Args[0]) != nil {
						found = true
					}
					return true
				})
				return found
			}
			// (a) a slice bound computed from the capacity; (b) a re-slice of a field onto itself (`b.data = b.data[:n]`) that
			// is control-dependent - through an enclosing branch or an early return in front of it - on a test of the capacity.
			// A capacity test that only decides about allocating a larger array (make + copy) is not reported.
			ast.Inspect(f.Body(), func(m ast.Node) bool {
				switch x := m.(type) {
				case *ast.SliceExpr:
					for _, e := range []ast.Expr{x.Low, x.High, x.Max} {
						if e != nil && isCapOfField(e) {
							bad = e.Pos()
						}
					}
				case *ast.AssignStmt:
					if len(x.Lhs) != 1 || len(x.Rhs) != 1 {
						return true
					}
					lf := selField(info, x.Lhs[0])
					se, ok := ast.Unparen(x.Rhs[0]).(*ast.SliceExpr)
					if lf == nil || !ok || selField(info, se.X) != lf {
						return true
					}
					for _, cl := range enclosingCondsFlow(info, f.Body(), x) {
						if isCapOfField(cl.e) {
							bad = x.Pos()
						}
					}
				}
				return true
			})
			at := f.Decl.Pos()
			if bad != token.NoPos {
				at = bad
			}
			c.verdictIf(bad == token.NoPos, rule, f, "capacity", at, "no re-slice and no slice bound depends on the capacity of the content",
				f.Name+" decides from the capacity of the cached content: growing into spare capacity instead of appending zeroed bytes brings back what was there before the content was cut (write, Truncate to a smaller size, Truncate to a larger one: the old bytes instead of zeros)")
		}
	}
}

// rulePositionedOpsSeekFirst: ReadAt and WriteAt act at the offset they are given, whatever the handle did before: on every
// path to the data call the seek to that offset has happened (no shortcut "the cursor is there already" - the cursor of a
// handle lives in two places, the read stream and the write buffer, and any such test knows one of them).
func rulePositionedOpsSeekFirst(rule string) func(*Ctx) {
	return func(c *Ctx) {
		c.floor(rule, 2, "positioned operations of the file handle")
		seekW := c.fn("pkg/fs", "(*File).seekWithoutLocking")
		seek := c.fn("pkg/fs", "(*File).Seek")
		for _, name := range []string{"ReadAt", "WriteAt"} {
			f := c.fn("pkg/fs", "(*File)."+name)
			if f == nil {
				continue
			}
			info := f.Pkg.TypesInfo
			var offv types.Object
			for _, pv := range paramsWhere(f, func(v *types.Var) bool { b, ok := v.Type().(*types.Basic); return ok && b.Kind() == types.Int64 }) {
				offv = pv
			}
			isSeek := func(m ast.Node) bool {
				for _, call := range callsIn(m) {
					o := calleeObj(info, call)
					if (seekW != nil && o == types.Object(seekW.Obj)) || (seek != nil && o == types.Object(seek.Obj)) {
						if len(call.Args) == 2 && offv != nil && objOfIdent(info, call.Args[0]) == offv {
							if tv := info.Types[call.Args[1]]; tv.Value != nil && tv.Value.String() == "0" {
								return true
							}
						}
					}
				}
				return false
			}
			// the data call: the last call of the function that receives the byte slice parameter
			var data *ast.CallExpr
			var pslice types.Object
			for _, pv := range paramsWhere(f, func(v *types.Var) bool { _, ok := v.Type().(*types.Slice); return ok }) {
				pslice = pv
			}
			ast.Inspect(f.Body(), func(m ast.Node) bool {
				if call, ok := m.(*ast.CallExpr); ok && pslice != nil {
					for _, a := range call.Args {
						if objOfIdent(info, a) == pslice {
							if b, ok := calleeObj(info, call).(*types.Builtin); ok && b != nil {
								continue // len(p)
							}
							data = call
						}
					}
				}
				return true
			})
			if data == nil || offv == nil {
				c.undecided(rule, f, "seek first", f.Decl.Pos(), "cannot identify the data call / the offset parameter of "+name)
				continue
			}
			fl := c.flow(f)
			okk, reach := fl.dominatedBy(data, isSeek, nil)
			if !reach {
				c.undecided(rule, f, "seek first", data.Pos(), "the data call is not in the flow graph")
				continue
			}
			c.verdictIf(okk, rule, f, "seek first", data.Pos(), "every path to the data call has passed the seek to the given offset",
				name+" reaches its data call on a path without the seek to the offset it was given (for example a shortcut for 'the cursor is there already' that looks at the read stream while the handle is in write mode): the call acts at the handle's cursor instead")
		}
	}
}

// rulePaxRecordsMapPresent: the header handed out by DBHeaderToTarHeader always carries a map of PAX records: Delete and Move
// store their action records into it without a test of their own. json.Unmarshal of the column value `null` - what
// TarHeaderToDBHeader stores for an entry without records, i.e. every entry of an archive written by GNU tar - sets the map
// it is given to nil. Behind the decoding call the converter tests the variable against nil and replaces it.
func rulePaxRecordsMapPresent(rule string) func(*Ctx) {
	return func(c *Ctx) {
		c.floor(rule, 1, "decoded PAX record maps of the header converters")
		f := c.fn("internal/converters", "DBHeaderToTarHeader")
		if f == nil {
			return
		}
		info := f.Pkg.TypesInfo
		list := f.Body().List
		n := 0
		for i, st := range list {
			// a statement that hands &v to a decoding call
			var v types.Object
			ast.Inspect(st, func(m ast.Node) bool {
				call, ok := m.(*ast.CallExpr)
				if !ok || !isPkgFunc(calleeObj(info, call), "encoding/json", "Unmarshal") || len(call.Args) != 2 {
					return true
				}
				if u, ok := ast.Unparen(call.Args[1]).(*ast.UnaryExpr); ok && u.Op == token.AND {
					if o := objOfIdent(info, u.X); o != nil {
						if _, isMap := o.Type().Underlying().(*types.Map); isMap {
							v = o
						}
					}
				}
				return true
			})
			if v == nil {
				continue
			}
			n++
			guarded := false
			for _, later := range list[i+1:] {
				is, ok := later.(*ast.IfStmt)
				if ok && is.Else == nil && is.Init == nil {
					isEmptyTest := func(e ast.Expr) bool {
						be, ok := ast.Unparen(e).(*ast.BinaryExpr)
						if !ok || be.Op != token.EQL {
							return false
						}
						if objOfIdent(info, be.X) == v && isNilIdent(info, be.Y) {
							return true
						}
						// len(v) == 0 holds for a nil map too
						if call, ok := ast.Unparen(be.X).(*ast.CallExpr); ok && len(call.Args) == 1 && objOfIdent(info, call.Args[0]) == v {
							if bi, ok := calleeObj(info, call).(*types.Builtin); ok && bi.Name() == "len" {
								if tv := info.Types[be.Y]; tv.Value != nil && tv.Value.String() == "0" {
									return true
								}
							}
						}
						return false
					}
					if isEmptyTest(is.Cond) {
						for _, s := range is.Body.List {
							if as, ok := s.(*ast.AssignStmt); ok && len(as.Lhs) == 1 && len(as.Rhs) == 1 && objOfIdent(info, as.Lhs[0]) == v && !isNilIdent(info, as.Rhs[0]) {
								guarded = true
							}
						}
					}
				}
				if guarded {
					break
				}
				// the variable is used before any guard: too late
				used := false
				ast.Inspect(later, func(m ast.Node) bool {
					if id, ok := m.(*ast.Ident); ok && info.Uses[id] == v {
						used = true
					}
					return true
				})
				if used {
					break
				}
			}
			c.verdictIf(guarded, rule, f, fmt.Sprintf("decoded map#%d", n), st.Pos(), "a map decoded to nil is replaced by an empty one before it is used",
				"DBHeaderToTarHeader hands out the map json.Unmarshal left behind: the stored value `null` (an entry without PAX records, i.e. any entry of an archive written by GNU tar) makes it nil, and Delete and Move store their action records into it - a panic in the caller's goroutine after earlier members of the same call have been appended to the tape")
		}
		if n == 0 {
			c.unresolved("no json.Unmarshal into a map variable found in DBHeaderToTarHeader")
		}
	}
}

// ruleCLIPipeConfigFromItsFlags: every config.PipeConfig literal of the command line takes Compression, Encryption and
// Signature from the flag of that name (directly or through a local assigned once). A crossed pair compiles - all are strings -
// and with `-e age` and no signature the update command then writes names and content in the clear, exit code 0.
func ruleCLIPipeConfigFromItsFlags(rule string) func(*Ctx) {
	return func(c *Ctx) {
		c.floor(rule, 30, "format fields of the PipeConfig literals of cmd/")
		pc := c.namedType("pkg/config", "PipeConfig")
		if pc == nil {
			return
		}
		want := map[string]string{"Compression": "compressionFlag", "Encryption": "encryptionFlag", "Signature": "signatureFlag"}
		n := 0
		for _, f := range c.Funcs {
			if !strings.HasPrefix(f.RelPkg(), "cmd/") {
				continue
			}
			info := f.Pkg.TypesInfo
			k := 0
			walkOwn(f.Body(), func(nd ast.Node) {
				cl, ok := nd.(*ast.CompositeLit)
				if !ok {
					return
				}
				if t := info.TypeOf(cl); t == nil || !types.Identical(t, pc) {
					return
				}
				k++
				for _, el := range cl.Elts {
					kv, ok := el.(*ast.KeyValueExpr)
					if !ok {
						continue
					}
					id, ok := kv.Key.(*ast.Ident)
					if !ok || want[id.Name] == "" {
						continue
					}
					n++
					// resolve through locals assigned once
					e := ast.Unparen(kv.Value)
					for d := 0; d < 3; d++ {
						o := objOfIdent(info, e)
						if o == nil {
							break
						}
						def, _, _ := defOf(f, o)
						if def == nil && f.Outer != nil {
							def, _, _ = defOf(f.Outer, o)
						}
						if def == nil || len(def.Rhs) != 1 || len(def.Lhs) != 1 {
							break
						}
						e = ast.Unparen(def.Rhs[0])
					}
					flag := ""
					if call, ok := e.(*ast.CallExpr); ok && len(call.Args) == 1 {
						if o := calleeObj(info, call); o != nil && o.Pkg() != nil && strings.HasSuffix(o.Pkg().Path(), "spf13/viper") && o.Name() == "GetString" {
							if fo := objOfIdent(info, call.Args[0]); fo != nil {
								flag = fo.Name()
							}
						}
					}
					key := fmt.Sprintf("literal#%d field %s", k, id.Name)
					if flag == "" {
						c.undecided(rule, f, key, kv.Pos(), "cannot trace the value of "+id.Name+" to a viper.GetString(<flag>) call")
						continue
					}
					c.verdictIf(flag == want[id.Name], rule, f, key, kv.Pos(), "the field is configured from the flag of its name",
						fmt.Sprintf("PipeConfig.%s is taken from %s instead of %s: the command runs another pipeline than the one the user configured (an encryption format replaced by an empty signature format writes names and content to the tape in the clear, and the command still exits 0)", id.Name, flag, want[id.Name]))
				}
			})
		}
		if n == 0 {
			c.unresolved("no PipeConfig literal found under cmd/")
		}
	}
}

// ruleOnlyTheMutatorsWriteRows: inside pkg/persisters the SQL write API is reached from the row-changing methods of the
// config.MetadataPersister interface only (and from helpers only they call). Open, the getters and everything else a
// read-only instance runs - the persister cannot know that the filesystem above it is read-only - change no row.
func ruleOnlyTheMutatorsWriteRows(rule string) func(*Ctx) {
	return func(c *Ctx) {
		c.floor(rule, 15, "declared functions of pkg/persisters")
		s := c.sinks()
		if len(s.mutators) < 5 {
			c.unresolved("index-store mutator set has %d members (%s), expected the five row-changing methods", len(s.mutators), s.mutatorNames())
			return
		}
		n := 0
		for _, f := range c.Funcs {
			if f.RelPkg() != "pkg/persisters" || f.Decl == nil || f.Lit != nil {
				continue
			}
			n++
			name := f.Decl.Name.Name
			direct := token.NoPos
			var scan func(g *FuncInfo)
			scan = func(g *FuncInfo) {
				for _, cs := range g.calls {
					if isSQLWriteCall(cs.Callee) && direct == token.NoPos {
						direct = cs.Call.Pos()
					}
				}
				for _, l := range c.litsIn(g) {
					scan(l)
				}
			}
			scan(f)
			if direct == token.NoPos {
				c.ok(rule, f, "row writes", f.Decl.Pos(), false, "no SQL write in this function")
				continue
			}
			isMut := s.mutators[name] && strings.HasPrefix(f.Name, "(*MetadataPersister).")
			// an unexported helper is fine when every caller is a mutator (or such a helper, to any depth)
			var onlyFromMutators func(g *FuncInfo, depth int) bool
			onlyFromMutators = func(g *FuncInfo, depth int) bool {
				if depth > 4 || g.Decl == nil || g.Decl.Name.IsExported() {
					return false
				}
				any := false
				for _, h := range c.Funcs {
					for _, cs := range h.calls {
						if cs.Target != g {
							continue
						}
						any = true
						top := h
						for top.Outer != nil {
							top = top.Outer
						}
						if top == g {
							continue // recursion
						}
						if top.Decl != nil && s.mutators[top.Decl.Name.Name] && strings.HasPrefix(top.Name, "(*MetadataPersister).") {
							continue
						}
						if top.RelPkg() == "pkg/persisters" && onlyFromMutators(top, depth+1) {
							continue
						}
						return false
					}
				}
				return any
			}
			if !isMut {
				isMut = onlyFromMutators(f, 0)
			}
			c.verdictIf(isMut, rule, f, "row writes", direct, "rows are written by a row-changing method of the index-store interface",
				f.Name+" writes index rows but is not one of the row-changing methods ("+s.mutatorNames()+"): whatever opens or queries the index - including a read-only filesystem, `serve http`, `serve ftp --read-only` - now changes it")
		}
	}
}

// ruleFilesystemCallsAreOneCriticalSection: an STFS method that looks an entry up and then changes it does both under one
// hold of the I/O lock. Chmod, Chown and Chtimes rewrite the whole header they read: with the lookup and the write-back in
// two critical sections a concurrent Chown between them is undone by the Chmod's write-back (each looks fine alone).
// Counted per exported method: its own Lock calls plus its calls of STFS methods that take the lock themselves; more than
// one is reported. MkdirAll is a sequence of Mkdir by definition and is exempt.
func ruleFilesystemCallsAreOneCriticalSection(rule string) func(*Ctx) {
	return func(c *Ctx) {
		c.floor(rule, 15, "exported methods of the filesystem")
		lock := c.field("pkg/fs", "STFS", "ioLock")
		if lock == nil {
			return
		}
		isFSMethod := func(f *FuncInfo) bool {
			return f.RelPkg() == "pkg/fs" && f.Decl != nil && f.Lit == nil && strings.HasPrefix(f.Name, "(*STFS).")
		}
		ownLocks := map[*FuncInfo]int{}
		for _, f := range c.Funcs {
			if !isFSMethod(f) {
				continue
			}
			info := f.Pkg.TypesInfo
			walkOwn(f.Body(), func(nd ast.Node) {
				call, ok := nd.(*ast.CallExpr)
				if !ok {
					return
				}
				if se, ok := ast.Unparen(call.Fun).(*ast.SelectorExpr); ok && se.Sel.Name == "Lock" && selField(info, se.X) == lock {
					ownLocks[f]++
				}
			})
		}
		exempt := map[string]string{"(*STFS).MkdirAll": "defined as a sequence of Mkdir calls"}
		n := 0
		for _, f := range c.Funcs {
			if !isFSMethod(f) || !f.Decl.Name.IsExported() {
				continue
			}
			n++
			if why, ok := exempt[f.Name]; ok {
				c.ok(rule, f, "composition", f.Decl.Pos(), false, "exempt: "+why)
				continue
			}
			sections := ownLocks[f]
			var names []string
			pos := f.Decl.Pos()
			for _, cs := range f.calls {
				if cs.Target != nil && cs.Target != f && isFSMethod(cs.Target) && ownLocks[cs.Target] > 0 {
					sections++
					names = append(names, cs.Target.Name)
					pos = cs.Call.Pos()
				}
			}
			c.verdictIf(sections <= 1, rule, f, "composition", pos, "the call is at most one critical section of the I/O lock",
				fmt.Sprintf("%s consists of %d critical sections of the I/O lock (its own and %s): what it looked up in the first can be stale in the second, so a read-modify-write of an entry's header undoes another caller's completed change", f.Name, sections, strings.Join(names, ", ")))
		}
		if len(ownLocks) < 10 {
			c.unresolved("only %d methods of STFS take the I/O lock themselves", len(ownLocks))
		}
	}
}

// ruleNoUnsafeOutsideTheDriver: package unsafe is imported by the tape driver (ioctl arguments) and nowhere else. A string
// built over a reused buffer (unsafe.String on a pooled slice) changes under the caller once the buffer is handed out again:
// a decrypted value silently becomes the next one.
func ruleNoUnsafeOutsideTheDriver(rule string) func(*Ctx) {
	return func(c *Ctx) {
		c.floor(rule, 40, "source files of the repository")
		n := 0
		for _, pkg := range c.Pkgs {
			rel := strings.TrimPrefix(strings.TrimPrefix(pkg.PkgPath, modPath), "/")
			for _, file := range pkg.Syntax {
				n++
				bad := token.NoPos
				for _, im := range file.Imports {
					if im.Path.Value == `"unsafe"` {
						bad = im.Pos()
					}
				}
				name := c.Fset.Position(file.Pos()).Filename
				if i := strings.LastIndex(name, "/"); i >= 0 {
					name = name[i+1:]
				}
				if rel == "pkg/mtio" {
					c.ok(rule, nil, rel+"/"+name+" imports", file.Pos(), false, "the tape driver passes structures to ioctl")
					continue
				}
				if bad != token.NoPos {
					c.bad(rule, nil, rel+"/"+name+" imports", bad, rel+"/"+name+" imports unsafe: memory handed out to a caller (a string over a pooled buffer, a slice over a reused array) can change after the call returned - a decrypted header or signature string then silently becomes the next one's")
				} else {
					c.ok(rule, nil, rel+"/"+name+" imports", file.Pos(), false, "no unsafe")
				}
			}
		}
		_ = n
	}
}

// ruleSignatureBytesReachOnlyThePrimitive: what decides about a signature is the verification primitive and nothing else. The
// decoded signature is handed to the primitive (minisign.Verify, the minisign reader's Verify, the OpenPGP packet reader
// through a bytes buffer) and is not looked at by the verification functions themselves: a pre-check on its untrusted comment
// or key id rejects signatures the primitive accepts (minisign prints key ids unpadded; one pair in sixteen has an id with a
// leading zero digit).
func ruleSignatureBytesReachOnlyThePrimitive(rule string) func(*Ctx) {
	return func(c *Ctx) {
		c.floor(rule, 4, "decoded signatures of the verification functions")
		n := 0
		for _, f := range c.Funcs {
			if f.RelPkg() != "pkg/signature" {
				continue
			}
			info := f.Pkg.TypesInfo
			walkOwn(f.Body(), func(nd ast.Node) {
				as, ok := nd.(*ast.AssignStmt)
				if !ok || len(as.Rhs) != 1 || len(as.Lhs) != 2 {
					return
				}
				call, ok := ast.Unparen(as.Rhs[0]).(*ast.CallExpr)
				if !ok || !isMethod(calleeObj(info, call), "encoding/base64", "Encoding", "DecodeString") {
					return
				}
				v := objOfIdentDefOrUse(info, as.Lhs[0])
				if v == nil {
					return
				}
				n++
				top := f
				for top.Outer != nil {
					top = top.Outer
				}
				bad := token.NoPos
				// every use of v (in the declaring function and its literals) is a direct argument of a primitive's call; plain
				// copies (`x := v`, `x = v`, `return v` of a helper that only decodes) hand the obligation on to the copy
				tracked := map[types.Object]bool{v: true}
				for round := 0; round < 4; round++ {
					grew := false
					bad = token.NoPos
					var parents []ast.Node
					ast.Inspect(top.Body(), func(m ast.Node) bool {
						if m == nil {
							parents = parents[:len(parents)-1]
							return true
						}
						if id, ok := m.(*ast.Ident); ok && info.Uses[id] != nil && tracked[info.Uses[id]] {
							okUse := false
							if len(parents) > 0 {
								switch pc := parents[len(parents)-1].(type) {
								case *ast.CallExpr:
									if pc.Fun != ast.Expr(id) {
										if o := calleeObj(info, pc); o != nil && o.Pkg() != nil {
											pp := o.Pkg().Path()
											if pp == "aead.dev/minisign" || strings.HasSuffix(pp, "openpgp/packet") || (pp == "bytes" && (o.Name() == "NewBuffer" || o.Name() == "NewReader")) {
												okUse = true
											}
										}
									}
								case *ast.AssignStmt:
									for i, r := range pc.Rhs {
										if r == ast.Expr(id) && len(pc.Lhs) == len(pc.Rhs) {
											if bl, ok := pc.Lhs[i].(*ast.Ident); ok && bl.Name == "_" {
												okUse = true
											} else if lo := objOfIdentDefOrUse(info, pc.Lhs[i]); lo != nil {
												if !tracked[lo] {
													tracked[lo] = true
													grew = true
												}
												okUse = true
											}
										}
									}
									for _, l := range pc.Lhs {
										if l == ast.Expr(id) {
											okUse = true // being assigned to is not a look into it
										}
									}
								case *ast.ReturnStmt:
									okUse = true
								}
							}
							if !okUse && bad == token.NoPos {
								bad = id.Pos()
							}
						}
						parents = append(parents, m)
						return true
					})
					if !grew {
						break
					}
				}
				at := as.Pos()
				if bad != token.NoPos {
					at = bad
				}
				c.verdictIf(bad == token.NoPos, rule, f, fmt.Sprintf("decoded signature#%d", n), at, "the decoded signature goes to the verification primitive and nowhere else",
					f.Name+" looks into the decoded signature itself (a comparison, conversion or slice of it): a pre-check on the untrusted comment or key id decides instead of the primitive and rejects signatures the primitive accepts, or accepts on a match the primitive was never asked about")
			})
		}
		if n == 0 {
			c.unresolved("no base64-decoded signature found in pkg/signature")
		}
	}
}

func isErrorType(t types.Type) bool {
	return types.Identical(t, types.Universe.Lookup("error").Type())
}

// ruleEmbeddedHeaderKeepsNames: with signatures or encryption on, the real header travels inside the record as JSON.
// encoding/json replaces every byte sequence of a string that is not valid UTF-8 by U+FFFD, so a name with such bytes is on
// the tape under another name than the one the running instance indexed (the snapshot is taken before the header is
// wrapped): a rebuild knows the file under the altered name only. Wherever a tar header is marshalled in pkg/signature or
// pkg/encryption, the names have been tested with utf8.ValidString first (refusing them, or encoding them, is the repair).
func ruleEmbeddedHeaderKeepsNames(rule string) func(*Ctx) {
	return func(c *Ctx) {
		c.floor(rule, 2, "tar headers marshalled into a record")
		n := 0
		for _, f := range c.Funcs {
			rel := f.RelPkg()
			if (rel != "pkg/signature" && rel != "pkg/encryption") || f.Decl == nil {
				continue
			}
			info := f.Pkg.TypesInfo
			k := 0
			for _, cs := range f.calls {
				if !isPkgFunc(cs.Callee, "encoding/json", "Marshal") || len(cs.Call.Args) != 1 {
					continue
				}
				h := objOfIdent(info, cs.Call.Args[0])
				if h == nil || !isMethodRecvNamed(h.Type(), "archive/tar", "Header") {
					continue
				}
				n++
				k++
				fl := c.flow(f)
				checked, _ := fl.dominatedBy(cs.Call, func(m ast.Node) bool {
					for _, call := range callsIn(m) {
						if isPkgFunc(calleeObj(info, call), "unicode/utf8", "ValidString") && len(call.Args) == 1 {
							if se, ok := ast.Unparen(call.Args[0]).(*ast.SelectorExpr); ok && se.Sel.Name == "Name" && objOfIdent(info, se.X) == h {
								return true
							}
						}
					}
					return false
				}, nil)
				c.verdictIf(checked, rule, f, fmt.Sprintf("embedded header#%d", k), cs.Call.Pos(), "the name has been tested for valid UTF-8 before the header is marshalled",
					f.Name+" marshals the header into the record without having looked at its names: encoding/json replaces bytes that are not valid UTF-8, so the tape carries another name than the live index (which got the snapshot taken before the wrapping)")
			}
		}
		if n == 0 {
			c.unresolved("no json.Marshal of a tar header found in pkg/signature or pkg/encryption")
		}
	}
}
