package main

// Rules added after the sixth round of independently seeded changes (see DESIGN.md §7.8).

import (
	"fmt"
	"go/ast"
	"go/constant"
	"go/token"
	"go/types"
	"strings"

	"golang.org/x/tools/go/cfg"
)

func init() {
	extend("C02", ruleRenameOntoItselfKept("C02.rename-onto-itself-kept"))
	extend("C12", ruleRenameOntoItselfKept("C12.rename-onto-itself-kept"))
}

// ruleRenameOntoItselfKept: STFS.Rename makes room at the destination by removing what is there. When the
// destination is the source itself (Rename(x, x), or two spellings of one entry) that removal deletes the entry that
// was to be renamed and the call reports success. Necessary: on every path to a removal of the destination the
// source has been compared with the destination (names or looked-up rows), and the removal is not on the edge on
// which they are known to be equal.
func ruleRenameOntoItselfKept(rule string) func(*Ctx) {
	return func(c *Ctx) {
		c.floor(rule, 1, "removals of the destination in STFS.Rename")
		f := c.fn("pkg/fs", "(*STFS).Rename")
		if f == nil {
			return
		}
		sideOf, isCmp := renameIdentity(f)
		if isCmp == nil {
			c.unresolved("STFS.Rename has no oldname/newname parameters")
			return
		}
		hasCmp := func(n ast.Node) bool {
			e, ok := n.(ast.Expr)
			if !ok {
				return false
			}
			found := false
			ast.Inspect(e, func(m ast.Node) bool {
				if me, ok := m.(ast.Expr); ok {
					if _, ok := isCmp(me); ok {
						found = true
					}
				}
				return !found
			})
			return found
		}
		fl := c.flow(f)
		n := 0
		for _, cs := range f.calls {
			if cs.Target == nil || len(cs.Call.Args) == 0 {
				continue
			}
			if !(cs.Target == c.fn("pkg/fs", "(*STFS).removeWithoutLocking") || cs.Target == c.fn("pkg/operations", "(*Operations).Delete") || cs.Target == c.fn("pkg/fs", "(*STFS).Remove") || cs.Target == c.fn("pkg/fs", "(*STFS).RemoveAll")) {
				continue
			}
			if sideOf(cs.Call.Args[0])&2 == 0 {
				continue
			}
			n++
			compared, reach := fl.dominatedBy(cs.Call, hasCmp, nil)
			if !reach {
				continue
			}
			// not on the edge on which source and destination are known to be the same
			knownSame, _ := fl.guardedBy(cs.Call, func(ft Fact) bool {
				b, ok := isCmp(ft.E)
				return ok && ((b.Op == token.EQL) == ft.Pos)
			}, nil)
			c.verdictIf(compared && !knownSame, rule, f, fmt.Sprintf("destination removal#%d", n), cs.Call.Pos(),
				"the destination is removed only after source and destination have been compared, and not where they are the same entry",
				"Rename removes what is at the destination without having compared it with the source: Rename(x, x) - or two spellings of one entry - deletes the entry it was asked to rename and reports success")
		}
		if n == 0 {
			c.unresolved("STFS.Rename no longer removes an existing destination (rename onto an existing entry)")
		}
	}
}

func isStringType(t types.Type) bool {
	b, ok := t.Underlying().(*types.Basic)
	return ok && b.Info()&types.IsString != 0
}

// renameIdentity classifies expressions of STFS.Rename: sideOf says whether an expression stands for the source (1),
// the destination (2) or both (3) - the parameters and the rows looked up directly under them -, isCmp recognises a
// ==/!= comparison of a source name with a destination name.
func renameIdentity(f *FuncInfo) (func(ast.Expr) int, func(ast.Expr) (*ast.BinaryExpr, bool)) {
	info := f.Pkg.TypesInfo
	oldV, newV := paramVar(f, "oldname"), paramVar(f, "newname")
	if oldV == nil || newV == nil {
		return nil, nil
	}
	// objects that stand for the source / the destination: the parameters and what is looked up directly under them
	side := map[types.Object]int{oldV: 1, newV: 2}
	for pass := 0; pass < 3; pass++ {
		walkOwn(f.Body(), func(nd ast.Node) {
			as, ok := nd.(*ast.AssignStmt)
			if !ok || len(as.Lhs) == 0 {
				return
			}
			// plain copies: `source, err = hdr, nil`
			if len(as.Lhs) == len(as.Rhs) {
				for i, r := range as.Rhs {
					if ro := objOfIdent(info, r); ro != nil && side[ro] != 0 {
						if lo := objOfIdent(info, as.Lhs[i]); lo != nil && side[lo] == 0 {
							side[lo] = side[ro]
						}
					}
				}
			}
			if len(as.Rhs) != 1 {
				return
			}
			call, ok := ast.Unparen(as.Rhs[0]).(*ast.CallExpr)
			if !ok {
				return
			}
			s := 0
			for _, a := range call.Args {
				if o := objOfIdent(info, a); o != nil && side[o] != 0 {
					s = side[o]
				}
			}
			if s == 0 {
				return
			}
			if o := objOfIdent(info, as.Lhs[0]); o != nil && side[o] == 0 {
				if _, isErr := o.Type().Underlying().(*types.Interface); !isErr {
					side[o] = s
				}
			}
		})
	}
	sideOf := func(e ast.Expr) int {
		s := 0
		ast.Inspect(e, func(n ast.Node) bool {
			if id, ok := n.(*ast.Ident); ok {
				if o := info.Uses[id]; o != nil && side[o] != 0 {
					s |= side[o]
				}
			}
			return true
		})
		return s
	}
	isCmp := func(e ast.Expr) (*ast.BinaryExpr, bool) {
		b, ok := ast.Unparen(e).(*ast.BinaryExpr)
		if !ok || (b.Op != token.EQL && b.Op != token.NEQ) {
			return nil, false
		}
		// identity is a matter of names (strings); "same kind" (Typeflag) says nothing about being the same entry
		if tx, ok := info.Types[b.X]; !ok || !isStringType(tx.Type) {
			return nil, false
		}
		x, y := sideOf(b.X), sideOf(b.Y)
		return b, (x == 1 && y == 2) || (x == 2 && y == 1)
	}
	return sideOf, isCmp
}

func init() {
	extend("C02", ruleIndexRowNameFromRecord("C02.index-row-name-from-record"), ruleDeferredResultOverwrite("C02.deferred-result-overwrite"))
	extend("C13", ruleIndexRowNameFromRecord("C13.index-row-name-from-record"))
	extend("C04", ruleCeilOfRealQuotient("C04.ceil-of-real-quotient"))
	extend("C06", ruleCeilOfRealQuotient("C06.ceil-of-real-quotient"))
	extend("C08", ruleRawCopyOnlyNonRegular("C08.raw-copy-only-non-regular"), ruleDeferredResultOverwrite("C08.deferred-result-overwrite"))
	extend("C14", ruleWriteBufferDroppedAfterFlush("C14.write-buffer-dropped-after-flush"), ruleCacheBuffersFresh("C14.cache-buffers-fresh"))
	extend("C03", ruleCacheBuffersFresh("C03.cache-buffers-fresh"))
	extend("C15", ruleNoIndexAnswerCache("C15.no-index-answer-cache"), ruleReadOnlyOptionReachesSTFS("C15.read-only-option-reaches-stfs"))
	extend("C07", ruleNoIndexAnswerCache("C07.no-index-answer-cache"), ruleIndexReadsInsideArms("C07.index-reads-inside-arms"))
	extend("C01", ruleNoIndexAnswerCache("C01.no-index-answer-cache"))
	extend("C18", ruleReturnedKeyNotWiped("C18.returned-key-not-wiped"))
	extend("C11", ruleNoTryLock("C11.no-try-lock"))
	extend("C16", ruleReaderErrorNotDestructive("C16.reader-error-not-destructive"))
	extend("C03", ruleFlagBitsIndependent("C03.flag-bits-independent"))
	extend("C02", ruleFlagBitsIndependent("C02.flag-bits-independent"))
}

// ruleIndexRowNameFromRecord: the row a record is applied to is the one the record names. In indexHeader the headers
// handed to the persister come from converters.TarHeaderToDBHeader(..., hdr); overwriting their Name afterwards makes
// the record's metadata (including its PAX records, e.g. STFS.ReplacesName of a move record) land on another row, from
// where the next metadata update copies them onto the tape again.
func ruleIndexRowNameFromRecord(rule string) func(*Ctx) {
	return func(c *Ctx) {
		c.floor(rule, 3, "persister writes of converted headers in indexHeader")
		f := c.fn("pkg/recovery", "indexHeader")
		nameF := c.field("internal/db/sqlite/models/metadata", "Header", "Name")
		if f == nil || nameF == nil {
			return
		}
		info := f.Pkg.TypesInfo
		var writes []ast.Node
		walkOwn(f.Body(), func(nd ast.Node) {
			if as, ok := nd.(*ast.AssignStmt); ok {
				for _, l := range as.Lhs {
					if selField(info, l) == nameF {
						writes = append(writes, as)
					}
				}
			}
		})
		n := 0
		for _, cs := range f.calls {
			fn, ok := cs.Callee.(*types.Func)
			if !ok || (fn.Name() != "UpsertHeader" && fn.Name() != "UpdateHeaderMetadata") {
				continue
			}
			n++
			if len(writes) == 0 {
				c.ok(rule, f, fmt.Sprintf("%s#%d", fn.Name(), n), cs.Call.Pos(), true, "the stored header keeps the name of the record it was converted from")
				continue
			}
			fl := c.flow(f)
			hit := false
			for _, w := range writes {
				w := w
				if dom, reach := fl.dominatedBy(cs.Call, func(x ast.Node) bool { return x == w }, nil); reach && dom {
					hit = true
				} else if may := mayPrecede(fl, w, cs.Call); may {
					hit = true
				}
			}
			c.verdictIf(!hit, rule, f, fmt.Sprintf("%s#%d", fn.Name(), n), cs.Call.Pos(), "the stored header keeps the name of the record it was converted from",
				"the header handed to the persister had its Name overwritten after the conversion from the record: the record's metadata and PAX records (STFS.ReplacesName of a move) are stored under another row, and every later chmod/chown/chtimes of that entry copies them onto the tape as another move from the old name")
		}
	}
}

// mayPrecede: some path from the entry passes node a and later reaches node b.
func mayPrecede(fl *Flow, a, b ast.Node) bool {
	an := &Analysis{Must: false, Entry: 0, Node: func(n ast.Node, s State) State {
		if n == a || containsNode(n, a) {
			return s | 1
		}
		return s
	}}
	fl.solve(an)
	s, ok := fl.before(an, b)
	return ok && s&1 != 0
}

// ruleCeilOfRealQuotient: block positions are rounded UP to the next block (math.Ceil of a real quotient). Ceil of
// an integer-valued argument - float64(a / b) with integer a, b - is the identity: the quotient was already rounded
// DOWN, the retry position of the resynchronisation loop then lies before the partial block instead of behind it and
// the loop reads the same torn bytes forever.
func ruleCeilOfRealQuotient(rule string) func(*Ctx) {
	return func(c *Ctx) {
		c.floor(rule, 3, "math.Ceil calls in pkg/recovery")
		n := 0
		for _, f := range c.Funcs {
			if !strings.HasPrefix(f.RelPkg(), "pkg/") && !strings.HasPrefix(f.RelPkg(), "internal/") {
				continue
			}
			info := f.Pkg.TypesInfo
			k := 0
			for _, cs := range f.calls {
				if !isPkgFunc(cs.Callee, "math", "Ceil") || len(cs.Call.Args) != 1 {
					continue
				}
				n++
				k++
				arg := ast.Unparen(cs.Call.Args[0])
				integral := false
				// float64(<integer-typed expression>)
				if conv, ok := arg.(*ast.CallExpr); ok && len(conv.Args) == 1 {
					if tv, ok := info.Types[conv.Fun]; ok && tv.IsType() {
						if at, ok := info.Types[conv.Args[0]]; ok {
							if b, ok := at.Type.Underlying().(*types.Basic); ok && b.Info()&types.IsInteger != 0 {
								integral = true
							}
						}
					}
				}
				c.verdictIf(!integral, rule, f, fmt.Sprintf("Ceil#%d", k), cs.Call.Pos(), "rounds a real-valued quotient up", "math.Ceil is applied to a converted INTEGER expression ("+exprString(arg)+"): the division already rounded down, Ceil changes nothing, and a position inside a partial block is mapped to the block before it instead of the block after it (the resynchronisation loop then re-reads the same torn block forever)")
			}
		}
	}
}

// ruleRawCopyOnlyNonRegular: recovery.Fetch hands a member's bytes to the destination without the decode/verify
// chain only for entries that are not regular files (they have no content signature). Every copy whose source is the
// tar reader itself must therefore lie on an edge on which the entry is known not to be regular.
func ruleRawCopyOnlyNonRegular(rule string) func(*Ctx) {
	return func(c *Ctx) {
		c.floor(rule, 1, "copies in recovery.Fetch that read the tar reader directly")
		f := c.fn("pkg/recovery", "Fetch")
		if f == nil {
			return
		}
		info := f.Pkg.TypesInfo
		// the tar reader(s): locals of type *tar.Reader (created here or handed back by a positioning helper)
		trVars := map[types.Object]bool{}
		walkOwn(f.Body(), func(nd ast.Node) {
			id, ok := nd.(*ast.Ident)
			if !ok {
				return
			}
			o := info.Defs[id]
			if o == nil {
				return
			}
			if p, ok := o.Type().(*types.Pointer); ok {
				if n, ok := p.Elem().(*types.Named); ok && n.Obj().Pkg() != nil && n.Obj().Pkg().Path() == "archive/tar" && n.Obj().Name() == "Reader" {
					trVars[o] = true
				}
			}
		})
		if len(trVars) == 0 {
			c.unresolved("no tar reader variable in recovery.Fetch")
			return
		}
		fl := c.flow(f)
		n := 0
		for _, cs := range f.calls {
			fn, ok := cs.Callee.(*types.Func)
			if !ok || fn.Pkg() == nil || fn.Pkg().Path() != "io" || !strings.HasPrefix(fn.Name(), "Copy") || len(cs.Call.Args) < 2 {
				continue
			}
			if !trVars[objOfIdent(info, cs.Call.Args[1])] {
				continue
			}
			n++
			okk, reach := fl.guardedBy(cs.Call, func(ft Fact) bool {
				call, ok := ast.Unparen(ft.E).(*ast.CallExpr)
				if ok && isMethod(calleeObj(info, call), "io/fs", "FileMode", "IsRegular") {
					return !ft.Pos
				}
				return false
			}, nil)
			if !reach {
				continue
			}
			c.verdictIf(okk, rule, f, fmt.Sprintf("raw copy#%d", n), cs.Call.Pos(), "bytes bypass the decode/verify chain only for entries known not to be regular files",
				"content is copied from the tar reader straight to the destination on a path on which the entry may be a regular file: it never passes signature.Verify, so altered content of a signed archive is restored without an error")
		}
		if n == 0 {
			c.unresolved("recovery.Fetch has no direct copy from the tar reader (shape changed)")
		}
	}
}

// ruleDeferredResultOverwrite: a deferred closure that assigns to a named error result replaces whatever the function
// was about to return. Unless the assignment is conditional on the result still being nil, every error (a failed
// signature check, a short write) is replaced by the outcome of the clean-up, usually nil.
func ruleDeferredResultOverwrite(rule string) func(*Ctx) {
	return func(c *Ctx) {
		c.floor(rule, 1, "deferred closures assigning a named error result (expected none unguarded; matcher verified on a fixture)")
		scan := func(cc *Ctx, report func(f *FuncInfo, as *ast.AssignStmt, guarded bool)) {
			for _, f := range cc.Funcs {
				if f.Lit == nil || f.Outer == nil {
					continue
				}
				if cc == c && !strings.HasPrefix(f.RelPkg(), "pkg/") && !strings.HasPrefix(f.RelPkg(), "internal/") {
					continue
				}
				// deferred?
				deferred := false
				walkOwn(f.Outer.Body(), func(nd ast.Node) {
					if d, ok := nd.(*ast.DeferStmt); ok && ast.Unparen(d.Call.Fun) == ast.Expr(f.Lit) {
						deferred = true
					}
				})
				if !deferred {
					continue
				}
				// named error results of the enclosing declared function
				outer := f.Outer
				results := map[types.Object]bool{}
				if outer.Type().Results != nil {
					for _, fld := range outer.Type().Results.List {
						for _, nm := range fld.Names {
							if o := outer.Pkg.TypesInfo.Defs[nm]; o != nil && types.Identical(o.Type(), types.Universe.Lookup("error").Type()) {
								results[o] = true
							}
						}
					}
				}
				if len(results) == 0 {
					continue
				}
				info := f.Pkg.TypesInfo
				walkOwn(f.Body(), func(nd ast.Node) {
					as, ok := nd.(*ast.AssignStmt)
					if !ok || as.Tok != token.ASSIGN {
						return
					}
					for _, l := range as.Lhs {
						o := objOfIdent(info, l)
						if o == nil || !results[o] {
							continue
						}
						guarded := false
						for _, cl := range enclosingCondsFlow(info, f.Body(), as) {
							ast.Inspect(cl.e, func(m ast.Node) bool {
								if be, ok := m.(*ast.BinaryExpr); ok && (be.Op == token.EQL || be.Op == token.NEQ) {
									if (objOfIdent(info, be.X) == o && isNilIdent(info, be.Y)) || (objOfIdent(info, be.Y) == o && isNilIdent(info, be.X)) {
										guarded = true
									}
								}
								return true
							})
						}
						report(f, as, guarded)
					}
				})
			}
		}
		n := 0
		scan(c, func(f *FuncInfo, as *ast.AssignStmt, guarded bool) {
			n++
			c.verdictIf(guarded, rule, f.Outer, fmt.Sprintf("deferred result write#%d", n), as.Pos(), "the deferred clean-up sets the result only depending on whether it is still nil",
				"a deferred closure overwrites the function's named error result unconditionally: whatever the function was returning (a failed signature or checksum verification, a write error) is replaced by the outcome of the clean-up - usually nil - and the caller is told the call succeeded")
		})
		if n == 0 {
			fc, err := fixtureCtx("pkg/fixture", "package fixture\nfunc g() error { return nil }\nfunc f() (err error) {\n\tdefer func() { err = g() }()\n\treturn g()\n}\n")
			alive := false
			if err == nil {
				scan(fc, func(f *FuncInfo, as *ast.AssignStmt, guarded bool) { alive = alive || !guarded })
			}
			if !alive {
				c.unresolved("deferred-result-overwrite matcher failed its positive control")
			}
			c.ok(rule, nil, "no deferred result overwrite", token.NoPos, false, "no deferred closure in the library assigns a named error result (matcher verified on an embedded fixture)")
		}
	}
}

// ruleWriteBufferDroppedAfterFlush: a handle forgets its write cache only after the cache has been flushed to the tape
// (or when there is none). Dropping it on an error path - e.g. from a deferred reset - makes a retried Close succeed
// without writing anything: every Write was acknowledged, Close returns nil, the entry still has its old content.
func ruleWriteBufferDroppedAfterFlush(rule string) func(*Ctx) {
	return func(c *Ctx) {
		c.floor(rule, 1, "stores of nil to File.writeBuf")
		wb := c.field("pkg/fs", "File", "writeBuf")
		sync := c.fn("pkg/fs", "(*File).syncWithoutLocking")
		if wb == nil || sync == nil {
			return
		}
		n := 0
		for _, st := range c.storesTo(wb) {
			if st.Value == nil || st.In.RelPkg() != "pkg/fs" {
				continue
			}
			info := st.In.Pkg.TypesInfo
			if !isNilIdent(info, st.Value) {
				continue
			}
			if _, isKV := st.Node.(*ast.KeyValueExpr); isKV {
				continue
			}
			n++
			fl := c.flow(st.In)
			an := &Analysis{Must: true, Entry: 0,
				Node: func(nd ast.Node, s State) State { return s },
				Edge: func(b *cfg.Block, i int, s State) State {
					for _, ft := range fl.edgeFacts(b, i) {
						be, ok := ast.Unparen(ft.E).(*ast.BinaryExpr)
						if !ok || (be.Op != token.EQL && be.Op != token.NEQ) {
							continue
						}
						var x ast.Expr
						if isNilIdent(info, be.Y) {
							x = be.X
						} else if isNilIdent(info, be.X) {
							x = be.Y
						}
						if x == nil {
							continue
						}
						isNil := (be.Op == token.EQL) == ft.Pos
						if !isNil {
							continue
						}
						// there is no write cache
						if selField(info, x) == wb {
							return s | 1
						}
						// the flush succeeded: `err == nil` edge of a statement calling syncWithoutLocking
						for _, nd := range fl.condNodes(b) {
							if as, ok := nd.(*ast.AssignStmt); ok && len(as.Rhs) == 1 {
								if call, ok := ast.Unparen(as.Rhs[0]).(*ast.CallExpr); ok && calleeObj(info, call) == types.Object(sync.Obj) && objOfIdent(info, as.Lhs[len(as.Lhs)-1]) == objOfIdent(info, x) {
									return s | 1
								}
							}
						}
					}
					return s
				}}
			fl.solve(an)
			s, reach := fl.before(an, st.Node)
			if !reach {
				continue
			}
			c.verdictIf(s&1 != 0, rule, st.In, fmt.Sprintf("writeBuf dropped#%d", n), st.Node.Pos(), "the write cache is forgotten only after a successful flush, or when there is none",
				"the handle's write cache is dropped on a path on which it has not been flushed successfully (an error path of Close, a deferred reset): the data the caller was told had been written is gone, and a retried Close returns nil without writing anything")
		}
		if n == 0 {
			c.unresolved("no store of nil to File.writeBuf found")
		}
	}
}

// ruleCacheBuffersFresh: every write cache gets a buffer of its own. filebuffer.New adopts the slice it is given; a
// package-level (or otherwise shared) slice with spare capacity makes all handles write into one backing array.
func ruleCacheBuffersFresh(rule string) func(*Ctx) {
	return func(c *Ctx) {
		c.floor(rule, 1, "filebuffer.New call sites")
		n := 0
		for _, f := range c.Funcs {
			if !strings.HasPrefix(f.RelPkg(), "pkg/") && !strings.HasPrefix(f.RelPkg(), "internal/") {
				continue
			}
			info := f.Pkg.TypesInfo
			fresh := func(e ast.Expr) bool {
				e = ast.Unparen(e)
				switch x := e.(type) {
				case *ast.CompositeLit:
					return true
				case *ast.CallExpr:
					if id, ok := ast.Unparen(x.Fun).(*ast.Ident); ok {
						if b, ok := info.Uses[id].(*types.Builtin); ok && b.Name() == "make" {
							return true
						}
					}
					// []byte("...") conversion of a string allocates
					if tv, ok := info.Types[x.Fun]; ok && tv.IsType() && len(x.Args) == 1 {
						if at, ok := info.Types[x.Args[0]]; ok && isStringType(at.Type) {
							return true
						}
					}
				}
				return false
			}
			for _, cs := range f.calls {
				fn, ok := cs.Callee.(*types.Func)
				if !ok || fn.Pkg() == nil || !strings.HasSuffix(fn.Pkg().Path(), "filebuffer") || fn.Name() != "New" || len(cs.Call.Args) != 1 {
					continue
				}
				n++
				good := fresh(cs.Call.Args[0])
				if !good {
					if v, ok := objOfIdent(info, cs.Call.Args[0]).(*types.Var); ok && !v.IsField() && v.Parent() != v.Pkg().Scope() {
						if def := singleDefExpr(f, v); def != nil {
							good = fresh(def)
						}
					}
				}
				c.verdictIf(good, rule, f, fmt.Sprintf("filebuffer.New#%d", n), cs.Call.Pos(), "the buffer is allocated for this cache alone",
					"the write cache is built on a slice that is not allocated for it ("+exprString(cs.Call.Args[0])+"): filebuffer.New adopts the slice, so caches created from the same slice share one backing array and two open handles overwrite each other's bytes")
			}
			// the package's own in-memory cache: a struct of pkg/cache built with a slice element
			if f.RelPkg() != "pkg/cache" {
				continue
			}
			walkOwn(f.Body(), func(nd ast.Node) {
				cl, ok := nd.(*ast.CompositeLit)
				if !ok {
					return
				}
				st, ok := info.TypeOf(cl).Underlying().(*types.Struct)
				if !ok {
					return
				}
				if nt, ok := info.TypeOf(cl).(*types.Named); !ok || nt.Obj().Pkg() != f.Pkg.Types {
					return
				}
				hasSlice := false
				for i := 0; i < st.NumFields(); i++ {
					if sl, ok := st.Field(i).Type().Underlying().(*types.Slice); ok {
						if b, ok := sl.Elem().Underlying().(*types.Basic); ok && b.Kind() == types.Byte {
							hasSlice = true
						}
					}
				}
				if !hasSlice {
					return
				}
				n++
				good := true
				bad := ""
				for i, el := range cl.Elts {
					var val ast.Expr = el
					var ft types.Type
					if kv, ok := el.(*ast.KeyValueExpr); ok {
						val = kv.Value
						ft = info.TypeOf(kv.Value)
					} else if i < st.NumFields() {
						ft = st.Field(i).Type()
					}
					if ft == nil {
						continue
					}
					if _, ok := ft.Underlying().(*types.Slice); !ok {
						continue
					}
					if isNilIdent(info, val) {
						continue
					}
					okv := fresh(val)
					if !okv {
						if v, ok := objOfIdent(info, val).(*types.Var); ok && !v.IsField() && v.Parent() != v.Pkg().Scope() {
							if def := singleDefExpr(f, v); def != nil {
								okv = fresh(def)
							}
						}
					}
					if !okv {
						good, bad = false, exprString(val)
					}
				}
				c.verdictIf(good, rule, f, fmt.Sprintf("memory buffer#%d", n), cl.Pos(), "the buffer is allocated for this cache alone",
					"the write cache is built on a slice that is not allocated for it ("+bad+"): caches created from the same slice share one backing array, and two open handles overwrite each other's bytes")
			})
		}
	}
}

// ruleNoIndexAnswerCache: the filesystem and the metadata persister answer every lookup from the database. A field
// that remembers headers (a map or slice of them) is a second copy of index state: it goes stale when another
// instance or a replay changes the row (and OpenFile edits looked-up headers in place, so a remembered header is
// handed out already altered).
func ruleNoIndexAnswerCache(rule string) func(*Ctx) {
	return func(c *Ctx) {
		c.floor(rule, 8, "fields of fs.STFS and persisters.MetadataPersister")
		isHeader := func(t types.Type) bool {
			if p, ok := t.(*types.Pointer); ok {
				t = p.Elem()
			}
			n, ok := t.(*types.Named)
			if !ok || n.Obj().Pkg() == nil || n.Obj().Name() != "Header" {
				return false
			}
			pp := n.Obj().Pkg().Path()
			return pp == "archive/tar" || strings.HasPrefix(pp, modPath+"/")
		}
		var holds func(t types.Type, depth int) bool
		holds = func(t types.Type, depth int) bool {
			if depth > 4 {
				return false
			}
			switch x := t.Underlying().(type) {
			case *types.Map:
				return isHeader(x.Elem()) || holds(x.Elem(), depth+1)
			case *types.Slice:
				return isHeader(x.Elem()) || holds(x.Elem(), depth+1)
			case *types.Array:
				return isHeader(x.Elem()) || holds(x.Elem(), depth+1)
			}
			if n, ok := t.(*types.Named); ok && n.Obj().Pkg() != nil && (strings.HasSuffix(n.Obj().Pkg().Path(), "golang-lru") || n.Obj().Name() == "Map" && n.Obj().Pkg().Path() == "sync") {
				return true
			}
			return false
		}
		for _, tn := range [][2]string{{"pkg/fs", "STFS"}, {"pkg/persisters", "MetadataPersister"}} {
			nt := c.namedType(tn[0], tn[1])
			if nt == nil {
				continue
			}
			st, ok := nt.Underlying().(*types.Struct)
			if !ok {
				c.unresolved("%s.%s is not a struct", tn[0], tn[1])
				continue
			}
			for i := 0; i < st.NumFields(); i++ {
				fv := st.Field(i)
				direct := isHeader(fv.Type())
				c.verdictIf(!direct && !holds(fv.Type(), 0), rule, nil, tn[1]+"."+fv.Name(), fv.Pos(), "holds no remembered index answers",
					tn[1]+"."+fv.Name()+" ("+fv.Type().String()+") remembers headers outside the database: lookups answered from it no longer reflect the index when a row is changed by a replay, by another instance on the same database, or through a differently spelled name, and callers that edit a looked-up header edit the remembered copy")
			}
		}
	}
}

// ruleReadOnlyOptionReachesSTFS: a command that offers --read-only builds its filesystem with that option. The
// filesystem's own flag is what keeps Initialize, the write cache and every mutating call away from the tape;
// enforcing the option by wrapping the finished stack leaves Initialize (which appends a root to an empty drive)
// running on a writable instance.
func ruleReadOnlyOptionReachesSTFS(rule string) func(*Ctx) {
	return func(c *Ctx) {
		c.floor(rule, 1, "fs.NewSTFS calls in commands that register the read-only option")
		p := c.pkg("cmd/stfs/cmd")
		newSTFS := c.fn("pkg/fs", "NewSTFS")
		if p == nil || newSTFS == nil {
			return
		}
		key, _ := p.Types.Scope().Lookup("readOnlyFlag").(*types.Const)
		if key == nil {
			c.unresolved("constant readOnlyFlag in cmd/stfs/cmd")
			return
		}
		sig := newSTFS.Obj.Type().(*types.Signature)
		ri := -1
		for i := 0; i < sig.Params().Len(); i++ {
			if sig.Params().At(i).Name() == "readOnly" {
				ri = i
			}
		}
		if ri < 0 {
			c.unresolved("parameter readOnly of fs.NewSTFS")
			return
		}
		info := p.TypesInfo
		rootOf := func(f *FuncInfo) string {
			r := f
			for r.Outer != nil {
				r = r.Outer
			}
			return strings.Split(r.Name, "$")[0]
		}
		// commands (package-level command variables) on whose flag set the option is registered
		offers := map[string]bool{}
		for _, f := range c.Funcs {
			if f.RelPkg() != "cmd/stfs/cmd" {
				continue
			}
			for _, cs := range f.calls {
				if len(cs.Call.Args) == 0 || constOf(info, cs.Call.Args[0]) != key {
					continue
				}
				se, ok := ast.Unparen(cs.Call.Fun).(*ast.SelectorExpr)
				if !ok {
					continue
				}
				if inner, ok := ast.Unparen(se.X).(*ast.CallExpr); ok {
					if se2, ok := ast.Unparen(inner.Fun).(*ast.SelectorExpr); ok && (se2.Sel.Name == "PersistentFlags" || se2.Sel.Name == "Flags") {
						if o := objOfIdent(info, se2.X); o != nil {
							offers["var "+o.Name()] = true
						}
					}
				}
			}
		}
		readsOption := func(f *FuncInfo, e ast.Expr) bool {
			found := false
			var visit func(e ast.Expr, depth int)
			visit = func(e ast.Expr, depth int) {
				ast.Inspect(e, func(m ast.Node) bool {
					if call, ok := m.(*ast.CallExpr); ok && len(call.Args) == 1 && constOf(info, call.Args[0]) == key {
						if fn, ok := calleeObj(info, call).(*types.Func); ok && fn.Pkg() != nil && strings.HasSuffix(fn.Pkg().Path(), "spf13/viper") {
							found = true
						}
					}
					if id, ok := m.(*ast.Ident); ok && depth < 2 {
						if v, ok := info.Uses[id].(*types.Var); ok && !v.IsField() {
							for g := f; g != nil; g = g.Outer {
								if def := singleDefExpr(g, v); def != nil {
									visit(def, depth+1)
									break
								}
							}
						}
					}
					return !found
				})
			}
			visit(e, 0)
			return found
		}
		n := 0
		for _, f := range c.Funcs {
			if f.RelPkg() != "cmd/stfs/cmd" || !offers[rootOf(f)] {
				continue
			}
			for _, cs := range f.calls {
				if cs.Target != newSTFS || len(cs.Call.Args) <= ri {
					continue
				}
				n++
				c.verdictIf(readsOption(f, cs.Call.Args[ri]), rule, f, fmt.Sprintf("NewSTFS#%d readOnly", n), cs.Call.Args[ri].Pos(), "the filesystem is built with the command's --read-only option",
					"the command offers --read-only but builds its filesystem with readOnly="+exprString(cs.Call.Args[ri])+": the filesystem's own guard is off, so Initialize (and anything else below a wrapper) may write - started on an empty or mistyped drive, `--read-only` appends a root record and adds an index row")
			}
		}
		if n == 0 {
			c.unresolved("no fs.NewSTFS call in a command that registers the read-only option")
		}
	}
}

// ruleIndexReadsInsideArms: what a record does to the index is decided by the record alone (its PAX action and
// names). indexHeader consults the index only inside the action arms (the metadata-only update needs the old
// position); a lookup in the common prelude - before the action is dispatched - makes the interpretation of a record
// (e.g. whether its name loses the compression suffix) depend on rows that later records created, so replaying the
// tape into an index that is ahead of it diverges.
func ruleIndexReadsInsideArms(rule string) func(*Ctx) {
	return func(c *Ctx) {
		c.floor(rule, 4, "persister calls in indexHeader")
		f := c.fn("pkg/recovery", "indexHeader")
		if f == nil {
			return
		}
		info := f.Pkg.TypesInfo
		var mp *types.Var
		for _, v := range paramsWhere(f, func(v *types.Var) bool {
			n, ok := v.Type().(*types.Named)
			return ok && n.Obj().Name() == "MetadataPersister"
		}) {
			mp = v
		}
		if mp == nil {
			// the persister may travel inside a parameter struct: accept any selector of that type
		}
		isPersisterCall := func(call *ast.CallExpr) bool {
			se, ok := ast.Unparen(call.Fun).(*ast.SelectorExpr)
			if !ok {
				return false
			}
			tv, ok := info.Types[se.X]
			if !ok {
				return false
			}
			n, ok := tv.Type.(*types.Named)
			return ok && n.Obj().Name() == "MetadataPersister" && n.Obj().Pkg() != nil && strings.HasSuffix(n.Obj().Pkg().Path(), "pkg/config")
		}
		tables := dispatchTablesIn(f)
		n := 0
		for _, cs := range f.calls {
			if !isPersisterCall(cs.Call) {
				continue
			}
			n++
			inArm := false
			for _, dt := range tables {
				for _, arm := range dt.t.Arms {
					for _, st := range arm.Body {
						if containsNode(st, cs.Call) {
							inArm = true
						}
					}
				}
			}
			c.verdictIf(inArm, rule, f, fmt.Sprintf("persister call#%d %s", n, exprString(cs.Call.Fun)), cs.Call.Pos(), "the index is consulted only inside an action arm",
				"indexHeader consults the index ("+exprString(cs.Call.Fun)+") before the record's action is dispatched: how a record is read (its name, its size) then depends on rows created by later records, and replaying the tape over an index that already reflects it no longer converges")
		}
		if n == 0 {
			c.unresolved("no persister calls found in indexHeader")
		}
	}
}

// ruleReturnedKeyNotWiped: key material that a generator returns is still the caller's when the function's deferred
// clean-up runs. A deferred closure that overwrites a slice which a return statement hands out wipes the result: the
// caller receives zero bytes where the secret key should be.
func ruleReturnedKeyNotWiped(rule string) func(*Ctx) {
	return func(c *Ctx) {
		c.floor(rule, 4, "return statements of the key generators in pkg/utility")
		n := 0
		for _, f := range c.Funcs {
			if f.RelPkg() != "pkg/utility" || f.Decl == nil {
				continue
			}
			info := f.Pkg.TypesInfo
			// slices written by deferred closures of f
			wiped := map[types.Object]token.Pos{}
			for _, l := range c.litsIn(f) {
				deferred := false
				walkOwn(f.Body(), func(nd ast.Node) {
					if d, ok := nd.(*ast.DeferStmt); ok && ast.Unparen(d.Call.Fun) == ast.Expr(l.Lit) {
						deferred = true
					}
				})
				if !deferred {
					continue
				}
				walkOwn(l.Body(), func(nd ast.Node) {
					switch x := nd.(type) {
					case *ast.AssignStmt:
						for _, lh := range x.Lhs {
							if ix, ok := ast.Unparen(lh).(*ast.IndexExpr); ok {
								if o := objOfIdent(info, ix.X); o != nil {
									wiped[o] = x.Pos()
								}
							}
						}
					case *ast.CallExpr:
						if id, ok := ast.Unparen(x.Fun).(*ast.Ident); ok {
							if b, ok := info.Uses[id].(*types.Builtin); ok && (b.Name() == "copy" || b.Name() == "clear") && len(x.Args) > 0 {
								e := ast.Unparen(x.Args[0])
								if se, ok := e.(*ast.SliceExpr); ok {
									e = ast.Unparen(se.X)
								}
								if o := objOfIdent(info, e); o != nil {
									wiped[o] = x.Pos()
								}
							}
						}
					}
				})
			}
			for i, ret := range returnsIn(f) {
				returnsBytes := false
				var hit types.Object
				for _, r := range ret.Results {
					tv, ok := info.Types[r]
					if !ok {
						continue
					}
					if sl, ok := tv.Type.Underlying().(*types.Slice); ok {
						if b, ok := sl.Elem().Underlying().(*types.Basic); ok && b.Kind() == types.Byte {
							returnsBytes = true
						}
					}
					e := ast.Unparen(r)
					if se, ok := e.(*ast.SliceExpr); ok {
						e = ast.Unparen(se.X)
					}
					if o := objOfIdent(info, e); o != nil {
						if _, w := wiped[o]; w {
							hit = o
						}
					}
				}
				if !returnsBytes {
					continue
				}
				n++
				c.verdictIf(hit == nil, rule, f, fmt.Sprintf("return#%d", i+1), ret.Pos(), "no deferred closure writes to a slice this return hands out",
					"this return hands out a slice that a deferred closure of the same function overwrites: the deferred wipe runs after the result has been chosen and before the caller sees it, so the caller receives zero bytes instead of the key")
			}
		}
	}
}

// ruleNoTryLock: callers wait for the drive and for the filesystem lock. A TryLock turns "someone else is using it
// right now" into an error (or a skipped critical section): a call that merely overlaps another client's read fails
// although the same call would have succeeded a moment later.
func ruleNoTryLock(rule string) func(*Ctx) {
	return func(c *Ctx) {
		c.floor(rule, 1, "non-blocking mutex acquisitions in the library (expected none; matcher verified on a fixture)")
		isTry := func(o types.Object) bool {
			return isMethod(o, "sync", "Mutex", "TryLock") || isMethod(o, "sync", "RWMutex", "TryLock") || isMethod(o, "sync", "RWMutex", "TryRLock")
		}
		n := 0
		for _, f := range c.Funcs {
			if !strings.HasPrefix(f.RelPkg(), "pkg/") && !strings.HasPrefix(f.RelPkg(), "internal/") {
				continue
			}
			for _, cs := range f.calls {
				if isTry(cs.Callee) {
					n++
					c.bad(rule, f, fmt.Sprintf("try-lock#%d", n), cs.Call.Pos(), "%s: the call does not wait for the lock; a caller that merely overlaps another one (a write queued behind another client's read, whose streaming goroutine has not released the drive yet) is refused, or proceeds without the lock", exprString(cs.Call.Fun))
				}
			}
		}
		if n == 0 {
			fc, err := fixtureCtx("pkg/fixture", "package fixture\nimport \"sync\"\ntype T struct{ mu sync.Mutex }\nfunc (t *T) f() bool { return t.mu.TryLock() }\n")
			alive := false
			if err == nil {
				for _, g := range fc.Funcs {
					for _, cs := range g.calls {
						if isTry(cs.Callee) {
							alive = true
						}
					}
				}
			}
			if !alive {
				c.unresolved("try-lock matcher failed its positive control")
			}
			c.ok(rule, nil, "no try-lock", token.NoPos, false, "every mutex acquisition in the library blocks (matcher verified on an embedded fixture)")
		}
	}
}

// ruleReaderErrorNotDestructive: when the index is empty, Initialize opens the drive for reading to rebuild it. If
// that fails, only "the drive does not exist yet" allows starting from scratch; any other error (drive busy, too many
// open files, a damaged tail that a stricter open refuses) says nothing about the content, and creating a new root
// then appends to an existing tape.
func ruleReaderErrorNotDestructive(rule string) func(*Ctx) {
	return func(c *Ctx) {
		c.floor(rule, 1, "GetReader call in STFS.Initialize")
		f := c.fn("pkg/fs", "(*STFS).Initialize")
		notExist := c.extObj("os", "ErrNotExist")
		s := c.sinks()
		if f == nil || notExist == nil || s.getReader == nil {
			return
		}
		g := newROGuards(c)
		info := f.Pkg.TypesInfo
		fl := c.flow(f)
		sinkward := func(cs *CallSite) bool {
			return g.s.sinkOf(cs) != "" || (cs.Target != nil && g.s.reachesSink(cs.Target))
		}
		k := 0
		for _, cs := range f.calls {
			if v, ok := cs.Callee.(*types.Var); !ok || v != s.getReader {
				continue
			}
			k++
			const failed = 1
			an := &Analysis{Must: false, Entry: 0,
				Node: func(nd ast.Node, st State) State { return st },
				Edge: func(b *cfg.Block, i int, st State) State {
					for _, ft := range fl.edgeFacts(b, i) {
						be, ok := ast.Unparen(ft.E).(*ast.BinaryExpr)
						if !ok || !(isNilIdent(info, be.Y) || isNilIdent(info, be.X)) {
							continue
						}
						if !(be.Op == token.NEQ && ft.Pos || be.Op == token.EQL && !ft.Pos) {
							continue
						}
						for _, nd := range fl.condNodes(b) {
							if as, ok := nd.(*ast.AssignStmt); ok && len(as.Rhs) == 1 && ast.Unparen(as.Rhs[0]) == ast.Expr(cs.Call) {
								return st | failed
							}
						}
					}
					return st
				}}
			fl.solve(an)
			var hits []string
			for _, cs2 := range f.calls {
				if cs2 == cs || !sinkward(cs2) {
					continue
				}
				st, reach := fl.before(an, cs2.Call)
				if !reach || st&failed == 0 {
					continue
				}
				okk, _ := fl.guardedBy(cs2.Call, func(ft Fact) bool {
					known, equal := sentinelFact(info, ft, notExist)
					if known && equal {
						return true
					}
					if call, ok := ast.Unparen(ft.E).(*ast.CallExpr); ok && ft.Pos && isPkgFunc(calleeObj(info, call), "os", "IsNotExist") {
						return true
					}
					return false
				}, nil)
				if !okk {
					hits = append(hits, exprString(cs2.Call.Fun)+" at "+c.pos(cs2.Call.Pos()))
				}
			}
			c.verdictIf(len(hits) == 0, rule, f, fmt.Sprintf("GetReader#%d", k), cs.Call.Pos(), "a drive that cannot be opened for reading is started from scratch only when it does not exist",
				"when the drive cannot be opened for reading for ANY reason (busy, too many open files, an open that refuses a damaged tail) Initialize goes on to "+strings.Join(hits, ", ")+": a new root record is appended to a tape that already has content")
		}
		if k == 0 {
			c.unresolved("Initialize no longer opens the drive through BackendConfig.GetReader")
		}
	}
}

// singleDefExpr: the right-hand side of the only assignment to local variable v in f (nil when there is none, more
// than one, or the assignment is a multi-value one).
func singleDefExpr(f *FuncInfo, v types.Object) ast.Expr {
	st, _, _ := defOf(f, v)
	if st == nil || len(st.Lhs) != len(st.Rhs) {
		return nil
	}
	info := f.Pkg.TypesInfo
	for i, l := range st.Lhs {
		if id, ok := l.(*ast.Ident); ok && (info.Defs[id] == v || info.Uses[id] == v) {
			return st.Rhs[i]
		}
	}
	return nil
}

func init() {
	extend("C13", ruleDeleteRowByFullKey("C13.delete-row-by-full-key"))
	extend("C12", ruleSubtreeByLocation("C12.subtree-by-location"))
}

// headerColumnsIn: the models.HeaderColumns.<X> columns mentioned inside n (lower-cased).
func headerColumnsIn(n ast.Node) map[string]bool {
	cols := map[string]bool{}
	ast.Inspect(n, func(m ast.Node) bool {
		if s2, ok := m.(*ast.SelectorExpr); ok {
			if s1, ok := ast.Unparen(s2.X).(*ast.SelectorExpr); ok && s1.Sel.Name == "HeaderColumns" {
				cols[strings.ToLower(s2.Sel.Name)] = true
			}
		}
		return true
	})
	return cols
}

// ruleDeleteRowByFullKey: rows are keyed by (name, linkname), and the row of a symbolic link carries the name of its
// TARGET (the link's own path is in linkname). A delete record therefore names two rows whenever a link and its target
// both exist; DeleteHeader has to pick the row by the full key. Selecting by name alone tombstones whichever row the
// database returns first - removing a link removes the file it points to and leaves the link.
func ruleDeleteRowByFullKey(rule string) func(*Ctx) {
	return func(c *Ctx) {
		c.floor(rule, 1, "row lookup in MetadataPersister.DeleteHeader")
		f := c.fn("pkg/persisters", "(*MetadataPersister).DeleteHeader")
		if f == nil {
			return
		}
		info := f.Pkg.TypesInfo
		pk := c.primaryKeyColumns()
		n := 0
		for _, cs := range f.calls {
			fn, ok := cs.Callee.(*types.Func)
			if !ok || fn.Pkg() == nil || fn.Pkg().Path() != modelsPath || (fn.Name() != "One" && fn.Name() != "All" && fn.Name() != "UpdateAll") {
				continue
			}
			n++
			cols := headerColumnsIn(cs.Call)
			full := len(pk) > 0
			var missing []string
			for _, k := range pk {
				if !cols[k] {
					full = false
					missing = append(missing, k)
				}
			}
			_ = info
			c.verdictIf(full, rule, f, fmt.Sprintf("lookup#%d", n), cs.Call.Pos(), "the row to tombstone is selected by its full primary key",
				"DeleteHeader selects the row to tombstone without constraining "+strings.Join(missing, ", ")+" (the key is "+strings.Join(pk, ", ")+"): the row of a symbolic link is stored under its target's name, so the record that removes a link matches the target's row as well and the target is tombstoned instead (Remove(link) deletes the file and leaves the link)")
		}
		if n == 0 {
			c.unresolved("no row lookup found in MetadataPersister.DeleteHeader")
		}
	}
}

// ruleSubtreeByLocation: the rows beneath a directory are selected by where they ARE. A link's row is stored under
// its target's name, so a selection on the name column alone also returns links that live elsewhere and merely point
// into the subtree (and misses links inside it that point out): RemoveAll of a directory tombstones links outside it.
func ruleSubtreeByLocation(rule string) func(*Ctx) {
	return func(c *Ctx) {
		c.floor(rule, 1, "descendant selection in MetadataPersister.GetHeaderChildren")
		f := c.fn("pkg/persisters", "(*MetadataPersister).GetHeaderChildren")
		if f == nil {
			return
		}
		n := 0
		for _, cs := range f.calls {
			fn, ok := cs.Callee.(*types.Func)
			if !ok || fn.Pkg() == nil || fn.Pkg().Path() != modelsPath || (fn.Name() != "All" && fn.Name() != "One") {
				continue
			}
			n++
			cols := headerColumnsIn(cs.Call)
			// a later filter on the rows' Linkname in the function body counts as well
			filtered := cols["linkname"]
			walkOwn(f.Body(), func(nd ast.Node) {
				if se, ok := nd.(*ast.SelectorExpr); ok && se.Sel.Name == "Linkname" {
					filtered = true
				}
			})
			c.verdictIf(filtered, rule, f, fmt.Sprintf("selection#%d", n), cs.Call.Pos(), "descendants are selected by their own location",
				"the descendants of a directory are selected by the name column alone: the row of a symbolic link carries its TARGET's name, so a link that lives outside the directory but points into it is returned as a descendant - RemoveAll(dir) tombstones it - while links inside the directory that point elsewhere are not")
		}
		if n == 0 {
			c.unresolved("no descendant query found in MetadataPersister.GetHeaderChildren")
		}
	}
}

func init() {
	extend("C08", ruleWriteBufferAdoptedAfterLoad("C08.write-buffer-adopted-after-load"))
	extend("C03", ruleEmptyContentSkipsVerify("C03.empty-content-skips-verify"))
	extend("C05", ruleUpdateEntryLookup("C05.update-entry-lookup"))
	extend("C04", ruleUpdateEntryLookup("C04.update-entry-lookup"))
	extend("C02", ruleUpdateEntryLookup("C02.update-entry-lookup"))
	extend("C14", ruleErrorCountsAreZero("C14.error-counts-are-zero"))
	extend("C10", ruleErrorCountsAreZero("C10.error-counts-are-zero"))
}

// ruleWriteBufferAdoptedAfterLoad: a handle enters write mode by loading the entry's current content - through the
// verifying restore - into a fresh buffer. If the handle already holds that buffer (File.writeBuf) when the load
// fails, the failed Write leaves it holding bytes that did not verify: Read serves them and Close writes them back
// under a fresh signature. On every exit behind the failure edge of the load, the handle must not hold the buffer.
func ruleWriteBufferAdoptedAfterLoad(rule string) func(*Ctx) {
	return func(c *Ctx) {
		c.floor(rule, 1, "verifying loads into a write buffer in pkg/fs")
		wb := c.field("pkg/fs", "File", "writeBuf")
		restore := c.fn("pkg/operations", "(*Operations).Restore")
		f := c.fn("pkg/fs", "(*File).enterWriteMode")
		if wb == nil || restore == nil || f == nil {
			return
		}
		info := f.Pkg.TypesInfo
		fl := c.flow(f)
		n := 0
		for _, cs := range f.calls {
			if cs.Target != restore {
				continue
			}
			n++
			const adopted, failed = 1, 2
			an := &Analysis{Must: false, Entry: 0,
				Node: func(nd ast.Node, s State) State {
					if as, ok := nd.(*ast.AssignStmt); ok {
						for i, l := range as.Lhs {
							if selField(info, l) != wb {
								continue
							}
							if len(as.Lhs) == len(as.Rhs) && isNilIdent(info, as.Rhs[i]) {
								s &^= adopted
							} else {
								s |= adopted
							}
						}
					}
					return s
				},
				Edge: func(b *cfg.Block, i int, s State) State {
					for _, ft := range fl.edgeFacts(b, i) {
						be, ok := ast.Unparen(ft.E).(*ast.BinaryExpr)
						if !ok || !(isNilIdent(info, be.Y) || isNilIdent(info, be.X)) {
							continue
						}
						if !(be.Op == token.NEQ && ft.Pos || be.Op == token.EQL && !ft.Pos) {
							continue
						}
						for _, nd := range fl.condNodes(b) {
							if as, ok := nd.(*ast.AssignStmt); ok && len(as.Rhs) == 1 && ast.Unparen(as.Rhs[0]) == ast.Expr(cs.Call) {
								return s | failed
							}
						}
					}
					return s
				}}
			fl.solve(an)
			bad := token.NoPos
			fl.exits(an, func(ret *ast.ReturnStmt, ord int, s State) {
				if s&failed != 0 && s&adopted != 0 && ret != nil && bad == token.NoPos {
					bad = ret.Pos()
				}
			})
			p := cs.Call.Pos()
			if bad != token.NoPos {
				p = bad
			}
			c.verdictIf(bad == token.NoPos, rule, f, fmt.Sprintf("Restore#%d into the write buffer", n), p, "when the load fails the handle does not hold the buffer",
				"when loading the existing content fails (its signature does not verify) the handle already holds the write buffer with what was loaded: a later Read on the handle serves the unverified bytes, and Close writes them back under a fresh signature")
		}
		if n == 0 {
			c.unresolved("File.enterWriteMode no longer loads the existing content through Operations.Restore")
		}
	}
}

// ruleEmptyContentSkipsVerify: writer and reader agree on when a content signature exists. The writers run the
// sign/compress/encrypt chain only for entries WITH content, so a record of an empty file has no content signature;
// the reader must not demand one. Every path to signature.Verify in recovery.Fetch crosses an edge on which the
// (verified) header is known to announce content.
func ruleEmptyContentSkipsVerify(rule string) func(*Ctx) {
	return func(c *Ctx) {
		c.floor(rule, 1, "signature.Verify call in recovery.Fetch")
		f := c.fn("pkg/recovery", "Fetch")
		verify := c.fn("pkg/signature", "Verify")
		sizeF := c.extField("archive/tar", "Header", "Size")
		if f == nil || verify == nil || sizeF == nil {
			return
		}
		info := f.Pkg.TypesInfo
		fl := c.flow(f)
		n := 0
		for _, cs := range f.calls {
			if cs.Target != verify {
				continue
			}
			n++
			okk, reach := fl.guardedBy(cs.Call, func(ft Fact) bool {
				// a contradiction with the later "is regular" test: the path cannot reach the verifier
				if call, ok := ast.Unparen(ft.E).(*ast.CallExpr); ok && isMethod(calleeObj(info, call), "io/fs", "FileMode", "IsRegular") && !ft.Pos {
					return true
				}
				be, ok := ast.Unparen(ft.E).(*ast.BinaryExpr)
				if !ok {
					return false
				}
				var other ast.Expr
				op := be.Op
				if selField(info, be.X) == sizeF {
					other = be.Y
				} else if selField(info, be.Y) == sizeF {
					other = be.X
					switch op { // mirror
					case token.LSS:
						op = token.GTR
					case token.GTR:
						op = token.LSS
					case token.LEQ:
						op = token.GEQ
					case token.GEQ:
						op = token.LEQ
					}
				}
				if other == nil {
					return false
				}
				tv, ok := info.Types[other]
				if !ok || tv.Value == nil || tv.Value.String() != "0" {
					return false
				}
				switch op {
				case token.EQL, token.LEQ:
					return !ft.Pos
				case token.NEQ, token.GTR:
					return ft.Pos
				}
				return false
			}, nil)
			if !reach {
				continue
			}
			c.verdictIf(okk, rule, f, fmt.Sprintf("Verify#%d", n), cs.Call.Pos(), "content is verified only when the header announces content",
				"recovery.Fetch demands a content signature also for an entry whose header announces no content: the writers store nothing - and no content signature - for an empty file, so with signatures on every empty file fails to read or restore with 'signature invalid'")
		}
		if n == 0 {
			c.unresolved("recovery.Fetch no longer calls signature.Verify")
		}
	}
}

// ruleUpdateEntryLookup: like Delete and Move, Update appends a record only for an entry that the index knows. A
// record for an unknown name is accepted on replay but changes no row, so the index keeps reporting the record BEFORE
// it as the end of the tape; the next operation replays the stray record along with its own and fails, and so does
// every operation after it.
func ruleUpdateEntryLookup(rule string) func(*Ctx) {
	return func(c *Ctx) {
		c.floor(rule, 1, "WriteHeader sites in Operations.Update")
		getHeader := c.ifaceMethod("pkg/config", "MetadataPersister", "GetHeader")
		byLink := c.ifaceMethod("pkg/config", "MetadataPersister", "GetHeaderByLinkname")
		if getHeader == nil || byLink == nil {
			return
		}
		n := 0
		for _, ws := range writeHeaderSites(c) {
			f, info := ws.f, ws.f.Pkg.TypesInfo
			if f.Name != "(*Operations).Update" {
				continue
			}
			n++
			src := paramVar(f, "getSrc")
			fl := c.flow(f)
			okk, _ := c.successDominates(fl, ws.cs.Call, func(call *ast.CallExpr) bool {
				o := calleeObj(info, call)
				return o == types.Object(getHeader) || o == types.Object(byLink)
			}, func(nd ast.Node) bool {
				// a new member starts: what was looked up for the previous one does not count
				for _, call := range callsIn(nd) {
					if src != nil && calleeObj(info, call) == types.Object(src) {
						return true
					}
				}
				return false
			})
			c.verdictIf(okk, rule, f, fmt.Sprintf("WriteHeader#%d after entry lookup", ws.ord), ws.cs.Call.Pos(), "nothing is written unless the entry is in the index",
				"Update can append a record for a name the index does not know (e.g. written through a handle whose entry was renamed away): the record matches no row, the index keeps the record before it as the end of the tape, and every later operation fails with 'tar header missing'")
		}
		if n == 0 {
			c.unresolved("no WriteHeader site found in Operations.Update")
		}
	}
}

// ruleErrorCountsAreZero: the byte counts and offsets a handle reports are those of the reference file, also when the
// call fails: 0 together with the error. A negative count breaks the io.Reader/io.Writer contract (0 <= n <= len(p));
// io.ReadAll slices its buffer by the count and panics on -1, so a failing read crashes the caller.
func ruleErrorCountsAreZero(rule string) func(*Ctx) {
	return func(c *Ctx) {
		c.floor(rule, 15, "error returns of the counting methods of fs.File")
		n := 0
		for _, f := range c.Funcs {
			if f.RelPkg() != "pkg/fs" || f.Decl == nil || f.Decl.Recv == nil || !strings.HasPrefix(f.Name, "(*File).") {
				continue
			}
			res := f.Decl.Type.Results
			if res == nil || res.NumFields() != 2 {
				continue
			}
			info := f.Pkg.TypesInfo
			sig := f.Obj.Type().(*types.Signature)
			b, ok := sig.Results().At(0).Type().Underlying().(*types.Basic)
			if !ok || b.Info()&types.IsInteger == 0 || !types.Identical(sig.Results().At(1).Type(), types.Universe.Lookup("error").Type()) {
				continue
			}
			for i, ret := range returnsIn(f) {
				if len(ret.Results) != 2 || isNilIdent(info, ret.Results[1]) {
					continue
				}
				tv, ok := info.Types[ret.Results[0]]
				if !ok || tv.Value == nil {
					continue // a computed count (bytes actually transferred before the error)
				}
				n++
				neg := constant.Sign(tv.Value) < 0
				c.verdictIf(!neg, rule, f, fmt.Sprintf("return#%d", i+1), ret.Pos(), "a failing call reports a count of zero",
					"a failing call reports the count "+tv.Value.String()+": io.Reader/io.Writer require 0 <= n <= len(p); io.ReadAll (afero.ReadFile) slices its buffer by the count and panics, so an ordinary error (permission, failed verification) crashes the caller instead of being reported")
			}
		}
	}
}

func init() {
	extend("C10", ruleTransactionBracket("C10.transaction-bracket"))
}

// ruleTransactionBracket: the index database is opened with a single connection. A transaction that is begun and then
// left open on some exit (an early error return without Rollback) pins that connection: the call itself returns, the
// next call into the index blocks forever while holding the filesystem lock and the drive.
func ruleTransactionBracket(rule string) func(*Ctx) {
	return func(c *Ctx) {
		c.floor(rule, 1, "exits behind a database transaction begin in the library (none on the pinned tree; matcher verified on a fixture)")
		isBegin := func(o types.Object) bool {
			return isMethod(o, "database/sql", "DB", "BeginTx") || isMethod(o, "database/sql", "DB", "Begin") || isMethod(o, "database/sql", "Conn", "BeginTx")
		}
		isEnd := func(o types.Object) bool {
			return isMethod(o, "database/sql", "Tx", "Commit") || isMethod(o, "database/sql", "Tx", "Rollback")
		}
		scan := func(cc *Ctx, report func(f *FuncInfo, ret *ast.ReturnStmt, ord int, open bool)) int {
			n := 0
			for _, f := range cc.Funcs {
				if cc == c && !strings.HasPrefix(f.RelPkg(), "pkg/") && !strings.HasPrefix(f.RelPkg(), "internal/") {
					continue
				}
				begins := false
				for _, cs := range f.calls {
					if isBegin(cs.Callee) {
						begins = true
					}
				}
				if !begins {
					continue
				}
				info := f.Pkg.TypesInfo
				fl := cc.flow(f)
				const open, deferred = 1, 2
				an := &Analysis{Must: false, Entry: 0,
					Node: func(nd ast.Node, s State) State {
						if d, ok := nd.(*ast.DeferStmt); ok {
							ends := isEnd(calleeObj(info, d.Call))
							if lit, ok := d.Call.Fun.(*ast.FuncLit); ok {
								for _, call := range callsIn(lit.Body) {
									if isEnd(calleeObj(info, call)) {
										ends = true
									}
								}
							}
							if ends {
								return s | deferred
							}
							return s
						}
						for _, call := range callsIn(nd) {
							o := calleeObj(info, call)
							if isBegin(o) {
								s |= open
							}
							if isEnd(o) {
								s &^= open
							}
						}
						return s
					},
					Edge: func(b *cfg.Block, i int, s State) State {
						// on the failure edge of the begin itself no transaction exists
						for _, ft := range fl.edgeFacts(b, i) {
							be, ok := ast.Unparen(ft.E).(*ast.BinaryExpr)
							if !ok || !(isNilIdent(info, be.Y) || isNilIdent(info, be.X)) {
								continue
							}
							if !(be.Op == token.NEQ && ft.Pos || be.Op == token.EQL && !ft.Pos) {
								continue
							}
							for _, nd := range fl.condNodes(b) {
								if as, ok := nd.(*ast.AssignStmt); ok && len(as.Rhs) == 1 {
									if call, ok := ast.Unparen(as.Rhs[0]).(*ast.CallExpr); ok && isBegin(calleeObj(info, call)) {
										return s &^ open
									}
								}
							}
						}
						return s
					}}
				fl.solve(an)
				fl.exits(an, func(ret *ast.ReturnStmt, ord int, s State) {
					n++
					report(f, ret, ord, s&open != 0 && s&deferred == 0)
				})
			}
			return n
		}
		n := scan(c, func(f *FuncInfo, ret *ast.ReturnStmt, ord int, open bool) {
			p := f.Pos()
			if ret != nil {
				p = ret.Pos()
			}
			c.verdictIf(!open, rule, f, fmt.Sprintf("return#%d", ord), p, "no transaction is left open at this exit",
				"this exit can be reached with a database transaction begun and neither committed nor rolled back: the index database has a single connection, so the next call into the index blocks forever (holding the filesystem lock and the drive)")
		})
		if n == 0 {
			fc, err := fixtureCtx("pkg/fixture", "package fixture\nimport (\n\t\"context\"\n\t\"database/sql\"\n)\nfunc f(db *sql.DB, q string) error {\n\ttx, err := db.BeginTx(context.Background(), nil)\n\tif err != nil {\n\t\treturn err\n\t}\n\tif _, err := tx.Exec(q); err != nil {\n\t\treturn err\n\t}\n\treturn tx.Commit()\n}\n")
			alive := false
			if err == nil {
				scan(fc, func(f *FuncInfo, ret *ast.ReturnStmt, ord int, open bool) { alive = alive || open })
			}
			if !alive {
				c.unresolved("transaction-bracket matcher failed its positive control")
			}
			c.ok(rule, nil, "no transactions", token.NoPos, false, "the library begins no database transaction (matcher verified on an embedded fixture)")
		}
	}
}
