package main

import (
	"fmt"
	"go/ast"
	"go/constant"
	"go/token"
	"go/types"
	"sort"
	"strings"
)

func init() {
	register(&Property{
		ID:          "C04",
		Explanation: "Units and formula agreement of tape positions, decided from the source without evaluating any number: (units) every argument, field store and result that carries a position is classified by provenance - record axis (fields Record/Lastknownrecord, parameters so named, quotients by RecordSize, the --record flag, the drive's current record), block axis (fields Block/Lastknownblock, parameters, `n - record*RecordSize` remainders, the --block flag), and content vs last-known vs current - and must match the class of the slot it flows into at every call of the converters, indexHeader, the persister's Delete/Move, recovery.Index/Fetch/Query and SeekToRecordOnTape; the metadata-only update keeps the old content position; Restore fetches at the content position; GetLastIndexedRecordAndBlock returns the last-known pair; (seek-formula) every byte-offset expression in pkg/recovery that multiplies by the block size normalises (polynomial normalisation, purely syntactic) to 512*(RecordSize*record + block) or one of its three legitimate parts, and every re-derivation after a member is record = n / RecordSize, block = n - record*RecordSize with the same n; (advance-per-member) between two uses of (record, block) for a header both are re-assigned.",
		NotDecided:  "That the numbers are right for a given tape (512-rounding, records spanning boundaries, batched members), that Fetch at a position returns the current content, the off-by-one in the `block > RecordSize` correction.",
		Assumptions: []string{"parameter and field names record/block/lastknown* denote what they say (they are the repository's own vocabulary for the two axes)"},
		Rules:       []func(*Ctx){ruleC04Units, ruleC04SeekFormula, ruleC04Advance},
	})
}

type posClass struct {
	axis string // "rec", "blk", "neutral", "?" (unknown), "!" (conflict)
	age  string // "content", "lastknown", "current", "neutral", "?"
	why  string
}

func nameClass(name string) posClass {
	l := strings.ToLower(name)
	if strings.Contains(l, "recordsize") {
		return posClass{"?", "?", ""}
	}
	age := "content"
	if strings.Contains(l, "lastknown") || strings.Contains(l, "lastindexed") {
		age = "lastknown"
	}
	switch {
	case strings.Contains(l, "record"):
		return posClass{"rec", age, "named " + name}
	case strings.Contains(l, "block"):
		return posClass{"blk", age, "named " + name}
	}
	return posClass{"?", "?", ""}
}

func joinClass(a, b posClass) posClass {
	if a.axis == "" {
		return b
	}
	if b.axis == "" {
		return a
	}
	r := a
	if a.axis == "neutral" {
		r.axis = b.axis
		r.why = b.why
	} else if b.axis != "neutral" && a.axis != b.axis {
		r.axis = "!"
		r.why = a.why + " vs " + b.why
	}
	if a.age == "neutral" {
		r.age = b.age
	} else if b.age != "neutral" && a.age != b.age {
		// content/current/lastknown mixtures collapse to "current" only when one side is current
		if a.age == "current" || b.age == "current" {
			r.age = "current"
		} else {
			r.age = "!"
		}
	}
	return r
}

type classifier struct {
	c    *Ctx
	f    *FuncInfo
	busy map[types.Object]bool
}

func stripConv(info *types.Info, e ast.Expr) ast.Expr {
	for {
		e = ast.Unparen(e)
		call, ok := e.(*ast.CallExpr)
		if !ok || len(call.Args) != 1 {
			return e
		}
		if tv, ok := info.Types[call.Fun]; ok && tv.IsType() {
			e = call.Args[0]
			continue
		}
		return e
	}
}

func mentionsRecordSize(info *types.Info, e ast.Expr) bool {
	found := false
	ast.Inspect(e, func(n ast.Node) bool {
		if se, ok := n.(*ast.SelectorExpr); ok && se.Sel.Name == "RecordSize" {
			found = true
		}
		if id, ok := n.(*ast.Ident); ok && strings.EqualFold(id.Name, "recordSize") {
			found = true
		}
		return true
	})
	return found
}

func (k *classifier) classify(e ast.Expr) posClass {
	info := k.f.Pkg.TypesInfo
	e = stripConv(info, e)
	if tv, ok := info.Types[e]; ok && tv.Value != nil {
		return posClass{"neutral", "neutral", "constant " + tv.Value.String()}
	}
	switch x := e.(type) {
	case *ast.Ident:
		o := info.Uses[x]
		if o == nil {
			o = info.Defs[x]
		}
		v, ok := o.(*types.Var)
		if !ok {
			return posClass{"?", "?", ""}
		}
		// parameter of the enclosing function (or of an enclosing function for literals)
		for g := k.f; g != nil; g = g.Outer {
			for _, fl := range g.Type().Params.List {
				for _, id := range fl.Names {
					if g.Pkg.TypesInfo.Defs[id] == o {
						pc := nameClass(id.Name)
						if pc.axis != "?" && pc.age == "content" {
							pc.age = "current" // a position handed in: whatever the caller meant
						}
						pc.why = "parameter " + id.Name
						return pc
					}
				}
			}
		}
		if k.busy[o] {
			return posClass{"neutral", "neutral", ""}
		}
		k.busy[o] = true
		defer delete(k.busy, o)
		res := posClass{}
		root := k.f
		for root.Outer != nil {
			root = root.Outer
		}
		found := false
		visit := func(g *FuncInfo) {
			ginfo := g.Pkg.TypesInfo
			ast.Inspect(g.Body(), func(n ast.Node) bool {
				// `var startRecord int = record` (a binding the inliner makes for a renamed parameter)
				if vs, ok := n.(*ast.ValueSpec); ok {
					for i, nm := range vs.Names {
						if ginfo.Defs[nm] == types.Object(v) && i < len(vs.Values) {
							found = true
							sub := &classifier{c: k.c, f: g, busy: k.busy}
							res = joinClass(res, sub.classify(vs.Values[i]))
						}
					}
					return true
				}
				as, ok := n.(*ast.AssignStmt)
				if !ok {
					return true
				}
				for i, l := range as.Lhs {
					id, ok := l.(*ast.Ident)
					if !ok || (ginfo.Defs[id] != types.Object(v) && ginfo.Uses[id] != types.Object(v)) {
						continue
					}
					found = true
					if len(as.Rhs) == len(as.Lhs) {
						sub := &classifier{c: k.c, f: g, busy: k.busy}
						res = joinClass(res, sub.classify(as.Rhs[i]))
					} else if len(as.Rhs) == 1 {
						if call, ok := ast.Unparen(as.Rhs[0]).(*ast.CallExpr); ok {
							res = joinClass(res, k.classifyCallResult(ginfo, call, i))
						}
					}
				}
				return true
			})
		}
		visit(root)
		if !found {
			return posClass{"?", "?", "no definition of " + x.Name}
		}
		if res.axis == "" {
			return posClass{"?", "?", ""}
		}
		return res
	case *ast.SelectorExpr:
		if fv := selField(info, x); fv != nil {
			pc := nameClass(fv.Name())
			if pc.axis != "?" {
				pc.why = "field " + fv.Name()
			}
			return pc
		}
	case *ast.CallExpr:
		return k.classifyCallResult(info, x, 0)
	case *ast.BinaryExpr:
		switch x.Op {
		case token.QUO:
			if mentionsRecordSize(info, x.Y) {
				return posClass{"rec", "current", "quotient by RecordSize"}
			}
		case token.SUB:
			// n - record*RecordSize
			if be, ok := stripConv(info, x.Y).(*ast.BinaryExpr); ok && be.Op == token.MUL && mentionsRecordSize(info, be) {
				return posClass{"blk", "current", "remainder n - record*RecordSize"}
			}
			// RecordSize - 1 (resynchronisation correction)
			if mentionsRecordSize(info, x.X) {
				return posClass{"blk", "current", "RecordSize - k"}
			}
		case token.REM:
			if mentionsRecordSize(info, x.Y) {
				return posClass{"blk", "current", "remainder modulo RecordSize"}
			}
		case token.ADD:
			a, b := k.classify(x.X), k.classify(x.Y)
			return joinClass(a, b)
		}
	}
	return posClass{"?", "?", "unclassified " + types.ExprString(e)}
}

func (k *classifier) classifyCallResult(info *types.Info, call *ast.CallExpr, idx int) posClass {
	o := calleeObj(info, call)
	fn, ok := o.(*types.Func)
	if !ok {
		return posClass{"?", "?", ""}
	}
	switch fn.Name() {
	case "GetInt", "GetInt64", "GetInt32":
		if fn.Pkg() != nil && strings.HasSuffix(fn.Pkg().Path(), "spf13/viper") && len(call.Args) == 1 {
			if tv, ok := info.Types[call.Args[0]]; ok && tv.Value != nil && tv.Value.Kind() == constant.String {
				switch constant.StringVal(tv.Value) {
				case "record":
					return posClass{"rec", "current", "flag --record"}
				case "block":
					return posClass{"blk", "current", "flag --block"}
				}
			}
		}
	case "GetCurrentRecordFromTape":
		return posClass{"rec", "current", "drive's current record"}
	case "GetLastIndexedRecordAndBlock":
		if idx == 0 {
			return posClass{"rec", "lastknown", "GetLastIndexedRecordAndBlock result 0"}
		}
		if idx == 1 {
			return posClass{"blk", "lastknown", "GetLastIndexedRecordAndBlock result 1"}
		}
	}
	return posClass{"?", "?", "result of " + fn.Name()}
}

func ruleC04Units(c *Ctx) {
	const rule = "C04.units"
	c.floor(rule, 60, "position-carrying arguments, field stores and results")
	nsites := 0
	for _, f := range c.Funcs {
		rel := f.RelPkg()
		if strings.HasPrefix(rel, "internal/db/") || strings.HasPrefix(rel, "examples") {
			continue
		}
		info := f.Pkg.TypesInfo
		kl := &classifier{c: c, f: f, busy: map[types.Object]bool{}}
		ncall := map[string]int{}
		for _, cs := range f.calls {
			fn, ok := cs.Callee.(*types.Func)
			if !ok || !inRepo(fn) {
				continue
			}
			sig := fn.Type().(*types.Signature)
			if sig.Variadic() {
				continue
			}
			var slots []int
			for i := 0; i < sig.Params().Len() && i < len(cs.Call.Args); i++ {
				p := sig.Params().At(i)
				if b, ok := p.Type().Underlying().(*types.Basic); !ok || b.Info()&types.IsInteger == 0 {
					continue
				}
				if nameClass(p.Name()).axis != "?" {
					slots = append(slots, i)
				}
			}
			if len(slots) == 0 {
				continue
			}
			ncall[fn.Name()]++
			for _, i := range slots {
				p := sig.Params().At(i)
				want := nameClass(p.Name())
				got := kl.classify(cs.Call.Args[i])
				nsites++
				construct := fmt.Sprintf("%s#%d arg %s", fn.Name(), ncall[fn.Name()], p.Name())
				switch {
				case got.axis == "?":
					c.undecided(rule, f, construct, cs.Call.Args[i].Pos(), "cannot classify %s (%s) as record or block", exprString(cs.Call.Args[i]), got.why)
				case got.axis == "!":
					c.bad(rule, f, construct, cs.Call.Args[i].Pos(), "%s mixes record and block quantities (%s)", exprString(cs.Call.Args[i]), got.why)
				case got.axis != "neutral" && got.axis != want.axis:
					c.bad(rule, f, construct, cs.Call.Args[i].Pos(), "a %s quantity (%s: %s) is passed where the callee expects the %s (%s): positions written to the index would designate the wrong place on the tape", axisName(got.axis), exprString(cs.Call.Args[i]), got.why, axisName(want.axis), p.Name())
				case want.age == "content" && got.age == "lastknown" && !posPassThrough(fn.Name()):
					c.bad(rule, f, construct, cs.Call.Args[i].Pos(), "a last-known position (%s) is passed where the content position (%s) is expected: fetching would start at a record that does not carry the content", exprString(cs.Call.Args[i]), p.Name())
				case want.age == "lastknown" && got.age == "content":
					c.bad(rule, f, construct, cs.Call.Args[i].Pos(), "a stored content position (%s) is passed as last-known position (%s): the next incremental index pass would start too early/late", exprString(cs.Call.Args[i]), p.Name())
				default:
					c.ok(rule, f, construct, cs.Call.Args[i].Pos(), true, "%s is a %s/%s quantity (%s), slot %s", exprString(cs.Call.Args[i]), got.axis, got.age, got.why, p.Name())
				}
			}
		}
		// field stores
		nst := 0
		walkOwn(f.Body(), func(nd ast.Node) {
			as, ok := nd.(*ast.AssignStmt)
			if !ok || len(as.Lhs) != len(as.Rhs) {
				return
			}
			for i, l := range as.Lhs {
				fv := selField(info, l)
				if fv == nil {
					continue
				}
				want := nameClass(fv.Name())
				if want.axis == "?" {
					continue
				}
				if b, ok := fv.Type().Underlying().(*types.Basic); !ok || b.Info()&types.IsInteger == 0 {
					continue
				}
				nst++
				nsites++
				got := kl.classify(as.Rhs[i])
				construct := fmt.Sprintf("store %s#%d", fv.Name(), nst)
				good := got.axis == "neutral" || got.axis == want.axis
				if good && want.age == "lastknown" && got.age == "content" {
					good = false
				}
				if good && want.age == "content" && got.age == "lastknown" {
					good = false
				}
				if got.axis == "?" {
					c.undecided(rule, f, construct, as.Pos(), "cannot classify %s", exprString(as.Rhs[i]))
					continue
				}
				c.verdictIf(good, rule, f, construct, as.Pos(), fmt.Sprintf("%s <- %s/%s (%s)", fv.Name(), got.axis, got.age, got.why),
					fmt.Sprintf("field %s is assigned a %s/%s quantity (%s)", fv.Name(), axisName(got.axis), got.age, exprString(as.Rhs[i])))
			}
		})
		// composite literals of header structs with position fields (converters)
		walkOwn(f.Body(), func(nd ast.Node) {
			cl, ok := nd.(*ast.CompositeLit)
			if !ok {
				return
			}
			for _, e := range cl.Elts {
				kv, ok := e.(*ast.KeyValueExpr)
				if !ok {
					continue
				}
				id, ok := kv.Key.(*ast.Ident)
				if !ok {
					continue
				}
				fv, ok := info.Uses[id].(*types.Var)
				if !ok || !fv.IsField() {
					continue
				}
				want := nameClass(fv.Name())
				if want.axis == "?" {
					continue
				}
				if b, ok := fv.Type().Underlying().(*types.Basic); !ok || b.Info()&types.IsInteger == 0 {
					continue
				}
				// the content/last-known distinction exists only in the header models, which carry both positions
				if st, ok := info.Types[cl].Type.Underlying().(*types.Struct); ok {
					both := false
					for j := 0; j < st.NumFields(); j++ {
						if nameClass(st.Field(j).Name()).age == "lastknown" {
							both = true
						}
					}
					if !both {
						want.age = ""
					}
				}
				nsites++
				got := kl.classify(kv.Value)
				construct := "literal field " + fv.Name()
				if got.axis == "?" {
					c.undecided(rule, f, construct, kv.Pos(), "cannot classify %s", exprString(kv.Value))
					continue
				}
				good := (got.axis == "neutral" || got.axis == want.axis) && !(want.age == "lastknown" && got.age == "content") && !(want.age == "content" && got.age == "lastknown")
				c.verdictIf(good, rule, f, construct, kv.Pos(), fmt.Sprintf("%s <- %s/%s (%s)", fv.Name(), got.axis, got.age, got.why),
					fmt.Sprintf("field %s is initialised from a %s/%s quantity (%s)", fv.Name(), axisName(got.axis), got.age, exprString(kv.Value)))
			}
		})
	}
	// results of GetLastIndexedRecordAndBlock: (record/lastknown, block/lastknown)
	if f := c.fn("pkg/persisters", "(*MetadataPersister).GetLastIndexedRecordAndBlock"); f != nil {
		kl := &classifier{c: c, f: f, busy: map[types.Object]bool{}}
		info := f.Pkg.TypesInfo
		n := 0
		for i, ret := range returnsIn(f) {
			if len(ret.Results) != 3 || !returnsNil(info, ret) {
				continue
			}
			a, b := kl.classify(ret.Results[0]), kl.classify(ret.Results[1])
			if a.axis == "neutral" && b.axis == "neutral" {
				continue
			}
			n++
			good := a.axis == "rec" && b.axis == "blk" && a.age == "lastknown" && b.age == "lastknown"
			c.verdictIf(good, rule, f, fmt.Sprintf("return#%d", i+1), ret.Pos(), "returns (last-known record, last-known block)", fmt.Sprintf("returns (%s/%s, %s/%s) instead of (record/lastknown, block/lastknown)", a.axis, a.age, b.axis, b.age))
		}
		if n == 0 {
			c.unresolved("no value-returning success return in GetLastIndexedRecordAndBlock")
		}
	}
	// frozen from indexHeader: the metadata-only update keeps the old content position
	if ih0 := c.fn("pkg/recovery", "indexHeader"); ih0 != nil {
		conv := c.fn("internal/converters", "TarHeaderToDBHeader")
		// indexHeader and the same-package helpers it hands (record, block) to (an arm moved into a function)
		type scope struct {
			f          *FuncInfo
			recP, blkP *types.Var
		}
		scopes := []scope{{ih0, paramVar(ih0, "record"), paramVar(ih0, "block")}}
		for i := 0; i < len(scopes) && i < 8; i++ {
			sc := scopes[i]
			info := sc.f.Pkg.TypesInfo
			for _, cs := range sc.f.calls {
				g := cs.Target
				if g == nil || g.Pkg != sc.f.Pkg || g.Obj == nil || g.Body() == nil {
					continue
				}
				dup := false
				for _, o := range scopes {
					if o.f == g {
						dup = true
					}
				}
				if dup {
					continue
				}
				sig := g.Obj.Type().(*types.Signature)
				var r, b *types.Var
				for j, a := range cs.Call.Args {
					if j >= sig.Params().Len() {
						break
					}
					if sc.recP != nil && objOfIdent(info, a) == types.Object(sc.recP) {
						r = sig.Params().At(j)
					}
					if sc.blkP != nil && objOfIdent(info, a) == types.Object(sc.blkP) {
						b = sig.Params().At(j)
					}
				}
				if r != nil && b != nil {
					scopes = append(scopes, scope{g, r, b})
				}
			}
		}
		nOld := 0
		for _, sc := range scopes {
			ih, recP, blkP := sc.f, sc.recP, sc.blkP
			info := ih.Pkg.TypesInfo
			for _, cs := range ih.calls {
				if cs.Target != conv || len(cs.Call.Args) != 5 {
					continue
				}
				a := cs.Call.Args
				if fv := selField(info, a[0]); fv != nil {
					nOld++
					se0 := ast.Unparen(a[0]).(*ast.SelectorExpr)
					se2, ok2 := ast.Unparen(a[2]).(*ast.SelectorExpr)
					good := fv.Name() == "Record" && ok2 && se2.Sel.Name == "Block" && objOfIdent(info, se0.X) == objOfIdent(info, se2.X) &&
						objOfIdent(info, a[1]) == types.Object(recP) && objOfIdent(info, a[3]) == types.Object(blkP)
					c.verdictIf(good, rule, ih0, "metadata-only update positions", cs.Call.Pos(), "keeps the old row's (Record, Block) as content position and advances last-known to the current record", "the metadata-only update does not pass (old.Record, current record, old.Block, current block)")
				} else if objOfIdent(info, a[0]) == types.Object(recP) {
					tv1 := info.Types[a[1]]
					good := (objOfIdent(info, a[1]) == types.Object(recP) || tv1.Value != nil) && objOfIdent(info, a[2]) == types.Object(blkP)
					c.verdictIf(good, rule, ih0, fmt.Sprintf("current-position conversion@%s", exprString(a[1])), cs.Call.Pos(), "content position = position of the record being replayed", "a CREATE/content-UPDATE conversion does not use the current (record, block) for the content position")
				}
			}
		}
		if nOld == 0 {
			// alternative shape: the row is built for the current position and then patched field by field
			var recFrom, blkFrom types.Object
			for _, sc := range scopes {
				info := sc.f.Pkg.TypesInfo
				walkOwn(sc.f.Body(), func(nd ast.Node) {
					as, ok := nd.(*ast.AssignStmt)
					if !ok || len(as.Lhs) != 1 || len(as.Rhs) != 1 {
						return
					}
					l, ok1 := ast.Unparen(as.Lhs[0]).(*ast.SelectorExpr)
					r, ok2 := ast.Unparen(as.Rhs[0]).(*ast.SelectorExpr)
					if !ok1 || !ok2 || l.Sel.Name != r.Sel.Name {
						return
					}
					switch l.Sel.Name {
					case "Record":
						recFrom = objOfIdent(info, r.X)
					case "Block":
						blkFrom = objOfIdent(info, r.X)
					}
				})
			}
			c.verdictIf(recFrom != nil && recFrom == blkFrom, rule, ih0, "metadata-only update positions", ih0.Decl.Pos(), "the old row's Record and Block are both carried over",
				"the metadata-only update does not keep the old row's content position as a (Record, Block) pair: after a chmod/chtimes the entry points at a place on the tape that is not the start of its content record")
		}
	}
	if nsites < half(40) {
		c.unresolved("only %d position-carrying sites classified (expected >= 40)", nsites)
	}
}

// posPassThrough: callees whose record/block parameters are plain "a position", not specifically the content one.
func posPassThrough(name string) bool {
	switch name {
	case "Index", "Query", "indexHeader", "SeekToRecordOnTape":
		return true
	}
	return false
}

func axisName(a string) string {
	switch a {
	case "rec":
		return "record"
	case "blk":
		return "block"
	}
	return a
}

// ---- polynomial normalisation ----

type poly map[string]int

func (k *classifier) atom(e ast.Expr) string {
	info := k.f.Pkg.TypesInfo
	e = stripConv(info, e)
	if tv, ok := info.Types[e]; ok && tv.Value != nil {
		if tv.Value.String() == "512" {
			return "BS"
		}
		return "#" + tv.Value.String()
	}
	if se, ok := e.(*ast.SelectorExpr); ok && se.Sel.Name == "RecordSize" {
		return "RS"
	}
	if id, ok := e.(*ast.Ident); ok && strings.EqualFold(id.Name, "recordSize") {
		return "RS"
	}
	pc := k.classify(e)
	switch pc.axis {
	case "rec":
		return "rec"
	case "blk":
		return "blk"
	}
	return "{" + types.ExprString(e) + "}"
}

func (k *classifier) polyOf(e ast.Expr) poly {
	info := k.f.Pkg.TypesInfo
	e = stripConv(info, e)
	if be, ok := e.(*ast.BinaryExpr); ok {
		switch be.Op {
		case token.ADD, token.SUB:
			a, b := k.polyOf(be.X), k.polyOf(be.Y)
			out := poly{}
			for m, cf := range a {
				out[m] += cf
			}
			for m, cf := range b {
				if be.Op == token.SUB {
					cf = -cf
				}
				out[m] += cf
			}
			return out
		case token.MUL:
			a, b := k.polyOf(be.X), k.polyOf(be.Y)
			out := poly{}
			for ma, ca := range a {
				for mb, cb := range b {
					atoms := append(strings.Split(ma, "*"), strings.Split(mb, "*")...)
					var keep []string
					coef := ca * cb
					for _, at := range atoms {
						if at == "" || at == "#1" {
							continue
						}
						keep = append(keep, at)
					}
					sort.Strings(keep)
					out[strings.Join(keep, "*")] += coef
				}
			}
			return out
		}
	}
	return poly{k.atom(e): 1}
}

func (p poly) String() string {
	var ms []string
	for m, cf := range p {
		if cf == 0 {
			continue
		}
		ms = append(ms, fmt.Sprintf("%+d·%s", cf, m))
	}
	sort.Strings(ms)
	return strings.Join(ms, " ")
}

func ruleC04SeekFormula(c *Ctx) {
	const rule = "C04.seek-formula"
	c.floor(rule, 16, "byte-offset expressions and re-derivations in pkg/recovery")
	allowed := map[string]string{
		"+1·BS*RS*rec +1·BS*blk": "512*(RecordSize*record + block): absolute byte offset of a position",
		"+1·BS*RS*rec":           "512*RecordSize*record: start of a record (block 0)",
		"+1·BS*RS":               "512*RecordSize: one record (buffer size)",
		"+1·BS*blk":              "512*block: bytes to skip inside a record",
	}
	n := 0
	for _, name := range []string{"Index", "Fetch", "Query"} {
		f := c.fn("pkg/recovery", name)
		if f == nil {
			continue
		}
		info := f.Pkg.TypesInfo
		kl := &classifier{c: c, f: f, busy: map[types.Object]bool{}}
		seen := map[ast.Expr]bool{}
		k := 0
		walkOwn(f.Body(), func(nd ast.Node) {
			e, ok := nd.(ast.Expr)
			if !ok {
				return
			}
			be, ok := ast.Unparen(e).(*ast.BinaryExpr)
			if !ok || (be.Op != token.ADD && be.Op != token.MUL) {
				return
			}
			// outermost arithmetic expressions only
			for s := range seen {
				if containsNode(s, be) {
					return
				}
			}
			mentionsBS := false
			ast.Inspect(be, func(m ast.Node) bool {
				if x, ok := m.(ast.Expr); ok {
					if k0 := constOf(info, x); k0 != nil && k0.Name() == "MagneticTapeBlockSize" {
						mentionsBS = true
					}
				}
				return true
			})
			if !mentionsBS {
				return
			}
			seen[be] = true
			p := kl.polyOf(be).String()
			if !strings.Contains(p, "rec") && !strings.Contains(p, "blk") && !strings.Contains(p, "RS") {
				return // a plain multiple of the block size (e.g. the two trailer blocks), not a position
			}
			k++
			n++
			why, ok := allowed[p]
			c.verdictIf(ok, rule, f, fmt.Sprintf("offset-expr#%d", k), be.Pos(), exprString(be)+" normalises to "+p+" = "+why,
				exprString(be)+" normalises to "+p+", which is none of the legitimate position formulas (512*(RecordSize*record+block) and its parts): the reader would seek to a different place than the position denotes")
		})
		// re-derivations: record = n / RS ; block = n - record*RS
		var recAssigns, blkAssigns []*ast.AssignStmt
		walkOwn(f.Body(), func(nd ast.Node) {
			as, ok := nd.(*ast.AssignStmt)
			if !ok || len(as.Lhs) != 1 || len(as.Rhs) != 1 || as.Tok != token.ASSIGN {
				return
			}
			r := stripConv(info, as.Rhs[0])
			be, ok := r.(*ast.BinaryExpr)
			if !ok {
				return
			}
			lc := kl.classify(as.Lhs[0])
			if be.Op == token.QUO && lc.axis == "rec" {
				recAssigns = append(recAssigns, as)
			}
			if be.Op == token.SUB && lc.axis == "blk" && mentionsRecordSize(info, be.Y) {
				blkAssigns = append(blkAssigns, as)
			}
		})
		for i, ra := range recAssigns {
			n++
			construct := fmt.Sprintf("re-derivation#%d", i+1)
			if i >= len(blkAssigns) {
				c.bad(rule, f, construct, ra.Pos(), "record is re-derived from the reader position but block is not")
				continue
			}
			ba := blkAssigns[i]
			q := stripConv(info, ra.Rhs[0]).(*ast.BinaryExpr)
			s := stripConv(info, ba.Rhs[0]).(*ast.BinaryExpr)
			num := exprString(stripConv(info, q.X))
			minuend := exprString(stripConv(info, s.X))
			mul, _ := stripConv(info, s.Y).(*ast.BinaryExpr)
			good := mentionsRecordSize(info, q.Y) && num == minuend && mul != nil && mul.Op == token.MUL &&
				(kl.classify(mul.X).axis == "rec" || kl.classify(mul.Y).axis == "rec") && ba.Pos() > ra.Pos()
			c.verdictIf(good, rule, f, construct, ra.Pos(), "record = n / RecordSize; block = n - record*RecordSize with the same n ("+num+")",
				"the (record, block) pair is not derived as n / RecordSize and n - record*RecordSize from one and the same block count")
		}
	}
	if n < half(12) {
		c.unresolved("only %d offset expressions / re-derivations found in pkg/recovery", n)
	}
}

func ruleC04Advance(c *Ctx) {
	const rule = "C04.advance-per-member"
	c.floor(rule, 4, "header-position uses inside the Index and Query loops")
	for _, name := range []string{"Index", "Query"} {
		f := c.fn("pkg/recovery", name)
		if f == nil {
			continue
		}
		info := f.Pkg.TypesInfo
		kl := &classifier{c: c, f: f, busy: map[types.Object]bool{}}
		fl := c.flow(f)
		// uses: calls that receive both a rec-class and a blk-class local (indexHeader / TarHeaderToDBHeader)
		isUse := func(call *ast.CallExpr) bool {
			fn, ok := calleeObj(info, call).(*types.Func)
			if !ok || (fn.Name() != "indexHeader" && fn.Name() != "TarHeaderToDBHeader") {
				return false
			}
			return true
		}
		const freshR, freshB = 1, 2
		an := &Analysis{Must: true, Entry: freshR | freshB, Node: func(n ast.Node, s State) State {
			if as, ok := n.(*ast.AssignStmt); ok {
				for _, l := range as.Lhs {
					if _, isIdent := l.(*ast.Ident); !isIdent {
						continue
					}
					switch kl.classify(l).axis {
					case "rec":
						s |= freshR
					case "blk":
						s |= freshB
					}
				}
			}
			for _, call := range callsIn(n) {
				if isUse(call) {
					s &^= freshR | freshB
				}
			}
			return s
		}}
		fl.solve(an)
		k := 0
		for _, cs := range f.calls {
			if !isUse(cs.Call) {
				continue
			}
			k++
			s, reach := fl.before(an, cs.Call)
			if !reach {
				continue
			}
			c.verdictIf(s&freshR != 0 && s&freshB != 0, rule, f, fmt.Sprintf("position use#%d", k), cs.Call.Pos(),
				"(record, block) were both re-assigned since the previous header was indexed", "a header can be indexed with the (record, block) of the previous member: on some path the position is not advanced between two members")
		}
		if k < half(2) {
			c.unresolved("only %d position uses in %s", k, name)
		}
	}
}

// ruleC04Paired: record and block always travel as a pair from one origin - at calls with a (record, block) slot
// pair and at field stores.
func ruleC04Paired(c *Ctx) {
	const rule = "C04.record-block-paired"
	c.floor(rule, 20, "(record, block) argument pairs and field-store pairs")
	origin := func(info *types.Info, e ast.Expr) string {
		e = stripConv(info, e)
		if tv, ok := info.Types[e]; ok && tv.Value != nil {
			return "const"
		}
		switch x := e.(type) {
		case *ast.SelectorExpr:
			if o := objOfIdent(info, x.X); o != nil {
				return fmt.Sprintf("field of %s@%d", o.Name(), o.Pos())
			}
			return "field of " + types.ExprString(x.X)
		case *ast.Ident:
			return "variable"
		case *ast.CallExpr:
			return "call " + types.ExprString(x.Fun)
		}
		return "expr"
	}
	n := 0
	for _, f := range c.Funcs {
		if strings.HasPrefix(f.RelPkg(), "internal/db/") || strings.HasPrefix(f.RelPkg(), "examples") {
			continue
		}
		info := f.Pkg.TypesInfo
		k := 0
		for _, cs := range f.calls {
			fn, ok := cs.Callee.(*types.Func)
			if !ok || !inRepo(fn) {
				continue
			}
			sig := fn.Type().(*types.Signature)
			idx := map[string]int{}
			for i := 0; i < sig.Params().Len() && i < len(cs.Call.Args); i++ {
				idx[strings.ToLower(sig.Params().At(i).Name())] = i + 1
			}
			for _, pr := range [][2]string{{"record", "block"}, {"lastknownrecord", "lastknownblock"}} {
				ri, bi := idx[pr[0]], idx[pr[1]]
				if ri == 0 || bi == 0 {
					continue
				}
				n++
				k++
				a, b := origin(info, cs.Call.Args[ri-1]), origin(info, cs.Call.Args[bi-1])
				c.verdictIf(a == b, rule, f, fmt.Sprintf("%s#%d (%s,%s)", fn.Name(), k, pr[0], pr[1]), cs.Call.Pos(),
					"both halves of the position come from the same origin ("+a+")", fmt.Sprintf("the %s argument comes from a %s but the %s argument from a %s: the two halves of a tape position must describe the same record", pr[0], a, pr[1], b))
			}
		}
		// field stores: per base object, Block <-> Record and Lastknownblock <-> Lastknownrecord
		type key struct {
			base types.Object
			name string
		}
		stores := map[key]string{}
		pos := map[key]token.Pos{}
		walkOwn(f.Body(), func(nd ast.Node) {
			as, ok := nd.(*ast.AssignStmt)
			if !ok || len(as.Lhs) != len(as.Rhs) {
				return
			}
			for i, l := range as.Lhs {
				se, ok := ast.Unparen(l).(*ast.SelectorExpr)
				if !ok {
					continue
				}
				switch se.Sel.Name {
				case "Record", "Block", "Lastknownrecord", "Lastknownblock":
					if b := objOfIdent(info, se.X); b != nil {
						kk := key{b, se.Sel.Name}
						stores[kk] = origin(info, as.Rhs[i])
						pos[kk] = as.Pos()
					}
				}
			}
		})
		for kk, org := range stores {
			var other string
			switch kk.name {
			case "Block":
				other = "Record"
			case "Lastknownblock":
				other = "Lastknownrecord"
			default:
				continue
			}
			n++
			o2, ok := stores[key{kk.base, other}]
			c.verdictIf(ok && o2 == org, rule, f, fmt.Sprintf("store pair %s.%s/%s", kk.base.Name(), other, kk.name), pos[kk],
				"both halves are stored from the same origin", fmt.Sprintf("%s.%s is overwritten (from a %s) without %s.%s being overwritten from the same origin: the stored position no longer designates one record", kk.base.Name(), kk.name, org, kk.base.Name(), other))
		}
	}
	if n < half(20) {
		c.unresolved("only %d record/block pairs found", n)
	}
}

// ruleC04LastPositionQuery: the last indexed position is the (record, block) pair of ONE row - the row with the
// greatest combined location - never two independent aggregates.
func ruleC04LastPositionQuery(c *Ctx) {
	const rule = "C04.last-position-single-row"
	c.floor(rule, 1, "the query of GetLastIndexedRecordAndBlock")
	f := c.fn("pkg/persisters", "(*MetadataPersister).GetLastIndexedRecordAndBlock")
	if f == nil {
		return
	}
	n := 0
	for _, cs := range f.calls {
		fn, ok := cs.Callee.(*types.Func)
		if !ok || fn.Name() != "Raw" || fn.Pkg() == nil || fn.Pkg().Path() != queriesPath || len(cs.Call.Args) == 0 {
			continue
		}
		n++
		text := strings.ToLower(sqlTextOf(f, cs.Call.Args[0], 0))
		single := strings.Contains(text, "order by") && strings.Contains(text, "limit 1") && !strings.Contains(text, "max(") && !strings.Contains(text, "min(")
		c.verdictIf(single, rule, f, fmt.Sprintf("query#%d", n), cs.Call.Pos(), "one row is selected by ordering on the combined location (order by ... limit 1)",
			"the last indexed (record, block) is not taken from a single row ordered by its combined location (e.g. independent max() aggregates): the pair can name a position where no record starts, so the next incremental index pass skips or re-reads records")
	}
	if n == 0 {
		c.bad(rule, f, "query#1", f.Decl.Pos(), "GetLastIndexedRecordAndBlock no longer issues its raw query")
	}
}

func init() {
	extend("C04", ruleC04Paired, ruleC04LastPositionQuery)
}
