package main

import (
	"fmt"
	"go/ast"
	"go/token"
	"go/types"
	"strings"

	"golang.org/x/tools/go/cfg"
)

func init() {
	register(&Property{
		ID:          "C16",
		Explanation: "Destructive-path gating of opening a filesystem, decided on every path of STFS.Initialize and of the drive constructors: (no-append-when-root-exists) every call in Initialize that can reach a tape- or index-changing sink (including the rebuild itself and the root-creating closure) is reachable only across the edge on which GetRootPath returned ErrNoRootDirectory; (rebuild-error-not-destructive) on the failure edge of recovery.Index no call that reaches PurgeAllHeaders or GetWriter may follow; (no-truncate-on-open) the overwrite argument of tape.NewTapeManager is the constant false everywhere except the two whitelisted commands (operation initialize: constant true; operation archive: its --overwrite flag), NewTapeManager is never called from pkg/, and inside pkg/tape truncation and rewinding are control-dependent on the overwrite parameter while every regular open for writing carries O_APPEND.",
		NotDecided:  "Faithfulness of what is shown after opening, stale-index handling, off-grid appends after an unaligned cut, behaviour on tapes no successful run produces.",
		Assumptions: []string{"viper flag values are whatever the user passed; only their provenance (which flag) is checked"},
		Rules:       []func(*Ctx){ruleC16InitializeGating, ruleOverwriteProvenance("C16.no-truncate-on-open")},
	})
}

func ruleC16InitializeGating(c *Ctx) {
	const rule = "C16.no-append-when-root-exists"
	const rule2 = "C16.rebuild-error-not-destructive"
	c.floor(rule, 3, "sink-reaching calls in STFS.Initialize")
	c.floor(rule2, 1, "recovery.Index call in STFS.Initialize")
	f := c.fn("pkg/fs", "(*STFS).Initialize")
	index := c.fn("pkg/recovery", "Index")
	noRoot := c.extObjRepo("pkg/config", "ErrNoRootDirectory")
	if f == nil || index == nil || noRoot == nil {
		return
	}
	g := newROGuards(c)
	info := f.Pkg.TypesInfo
	fl := c.flow(f)
	sinkward := func(cs *CallSite) bool {
		return g.s.sinkOf(cs) != "" || (cs.Target != nil && g.s.reachesSink(cs.Target))
	}
	isNoRootFact := func(ft Fact) bool {
		known, equal := sentinelFact(info, ft, noRoot)
		return known && equal
	}
	n := 0
	for _, cs := range f.calls {
		if !sinkward(cs) {
			continue
		}
		n++
		okk, reach := fl.guardedBy(cs.Call, isNoRootFact, nil)
		if !reach {
			continue
		}
		name := exprString(cs.Call.Fun)
		c.verdictIf(okk, rule, f, fmt.Sprintf("sinkward call#%d %s", n, name), cs.Call.Pos(),
			"reachable only when the index has no root (GetRootPath returned ErrNoRootDirectory)", "a tape/index-changing call ("+name+") is reachable although a root already exists: opening would append to or rebuild over an initialised filesystem")
	}
	if n < half(3) {
		c.unresolved("only %d sink-reaching calls in Initialize (expected the rebuild and two root creations)", n)
	}
	// failure edge of recovery.Index must not lead to a destructive call
	k := 0
	for _, cs := range f.calls {
		if cs.Target != index {
			continue
		}
		k++
		const failed = 1
		an := &Analysis{Must: false, Entry: 0,
			Node: func(nd ast.Node, s State) State { return s },
			Edge: func(b *cfg.Block, i int, s State) State {
				for _, ft := range fl.edgeFacts(b, i) {
					be, ok := ast.Unparen(ft.E).(*ast.BinaryExpr)
					if !ok || !(isNilIdent(info, be.Y) || isNilIdent(info, be.X)) {
						continue
					}
					if !(be.Op == token.NEQ && ft.Pos || be.Op == token.EQL && !ft.Pos) {
						continue
					}
					for _, nd := range fl.condNodes(b) {
						if as, ok := nd.(*ast.AssignStmt); ok && len(as.Rhs) == 1 && ast.Unparen(as.Rhs[0]) == ast.Expr(cs.Call) {
							return s | failed
						}
					}
				}
				return s
			}}
		fl.solve(an)
		var hits []string
		for _, cs2 := range f.calls {
			if cs2 == cs || !sinkward(cs2) {
				continue
			}
			s, reach := fl.before(an, cs2.Call)
			if reach && s&failed != 0 {
				hits = append(hits, exprString(cs2.Call.Fun)+" at "+c.pos(cs2.Call.Pos()))
			}
		}
		// Part of the damage can be excluded structurally: when the drive is a regular file that already has content, a
		// failed rebuild must end the call. Decided as: every destructive call behind the failure edge is also behind the
		// false edge of a boolean that is set only on a path on which the drive is known to be a regular file.
		if len(hits) > 0 {
			isRegField := c.field("pkg/config", "DriveReaderConfig", "DriveIsRegular")
			guards := map[types.Object]bool{}
			walkOwn(f.Body(), func(nd ast.Node) {
				as, ok := nd.(*ast.AssignStmt)
				if !ok || len(as.Lhs) != 1 || len(as.Rhs) != 1 {
					return
				}
				if tv := info.Types[as.Rhs[0]]; tv.Value == nil || tv.Value.String() != "true" {
					return
				}
				o := objOfIdent(info, as.Lhs[0])
				if o == nil {
					return
				}
				onRegular, _ := fl.guardedBy(as, func(ft Fact) bool { return isRegField != nil && selField(info, ft.E) == isRegField && ft.Pos }, nil)
				if onRegular {
					guards[o] = true
				}
			})
			allMitigated := len(guards) > 0
			for _, cs2 := range f.calls {
				if cs2 == cs || !sinkward(cs2) {
					continue
				}
				st, reach := fl.before(an, cs2.Call)
				if !reach || st&failed == 0 {
					continue
				}
				ok2, _ := fl.guardedBy(cs2.Call, func(ft Fact) bool { return guards[objOfIdent(info, ft.E)] && !ft.Pos }, nil)
				if !ok2 {
					allMitigated = false
				}
			}
			c.verdictIf(allMitigated, rule2, f, fmt.Sprintf("recovery.Index#%d regular drive with content", k), cs.Call.Pos(),
				"on a regular drive file that already has content a failed rebuild ends Initialize with that error", "when the rebuild fails on a tar FILE that already has content (cut short, or written with other keys) Initialize still goes on to create a new root: it appends to the file and discards what had been indexed")
		}
		c.verdictIf(len(hits) == 0, rule2, f, fmt.Sprintf("recovery.Index#%d", k), cs.Call.Pos(),
			"a failed rebuild is reported, nothing destructive follows", "when rebuilding the index from the tape fails (e.g. a tape cut inside content) the error is discarded and "+strings.Join(hits, ", ")+" runs with overwrite semantics: the index view is wiped down to a newly appended root")
	}
	if k == 0 {
		c.unresolved("Initialize no longer calls recovery.Index")
	}
}

// extObjRepo looks up a package-level object of a repository package.
func (c *Ctx) extObjRepo(rel, name string) types.Object {
	p := c.byPath[modPath+"/"+rel]
	if p == nil {
		c.unresolved("package %s", rel)
		return nil
	}
	o := p.Types.Scope().Lookup(name)
	if o == nil {
		c.unresolved("object %s.%s", rel, name)
	}
	return o
}

// ruleOverwriteProvenance: shared by C05 (drive ownership iv) and C16 (no truncate on open).
func ruleOverwriteProvenance(rule string) func(*Ctx) {
	return func(c *Ctx) {
		c.floor(rule, 10, "NewTapeManager call sites and the destructive operations inside pkg/tape")
		newTM := c.fn("pkg/tape", "NewTapeManager")
		openW := c.fn("pkg/tape", "OpenTapeWriteOnly")
		if newTM == nil || openW == nil {
			return
		}
		// whitelist: which command may pass what (one line of reason each)
		allowTrue := map[string]string{"var operationInitializeCmd": "`operation initialize` exists to start a fresh tape"}
		allowFlag := map[string]string{"var operationArchiveCmd": "`operation archive --overwrite` is the explicit overwrite"}
		n := 0
		for _, f := range c.Funcs {
			info := f.Pkg.TypesInfo
			root := f
			for root.Outer != nil {
				root = root.Outer
			}
			rootName := strings.Split(root.Name, "$")[0]
			k := 0
			for _, cs := range f.calls {
				if cs.Target != newTM || len(cs.Call.Args) != 4 {
					continue
				}
				n++
				k++
				construct := fmt.Sprintf("NewTapeManager#%d overwrite", k)
				if strings.HasPrefix(f.RelPkg(), "pkg/") || strings.HasPrefix(f.RelPkg(), "internal/") {
					c.bad(rule, f, construct, cs.Call.Pos(), "library code constructs a tape manager itself: the caller's choice of overwrite semantics is bypassed")
					continue
				}
				arg := cs.Call.Args[3]
				tv := info.Types[arg]
				switch {
				case tv.Value != nil && tv.Value.String() == "false":
					c.ok(rule, f, construct, cs.Call.Pos(), true, "constant false: this entry point can never truncate or rewind the tape")
				case tv.Value != nil && tv.Value.String() == "true":
					why, ok := allowTrue[rootName]
					c.verdictIf(ok, rule, f, construct, cs.Call.Pos(), "constant true, whitelisted: "+why, "overwrite=true is hard-wired in "+rootName+", which is not an explicit overwrite/initialise command: opening would truncate the tape")
				default:
					why, ok := allowFlag[rootName]
					c.verdictIf(ok, rule, f, construct, cs.Call.Pos(), "flag-controlled, whitelisted: "+why, "overwrite is taken from "+exprString(arg)+" in "+rootName+", which is not an explicit overwrite command")
				}
			}
		}
		if n < half(10) {
			c.unresolved("only %d NewTapeManager call sites found (expected 10)", n)
		}
		// inside OpenTapeWriteOnly: Truncate / SeekToRecordOnTape(…, 0) / opens without O_APPEND are control-dependent on `overwrite`
		{
			f := openW
			ow := roleVar(f, "overwrite")
			if ow == nil {
				c.unresolved("parameter overwrite of OpenTapeWriteOnly")
				return
			}
			k := 0
			visited := map[*FuncInfo]bool{}
			for _, st := range c.destructiveSites(f, ow, 0, visited) {
				k++
				if st.appendOpen {
					c.ok(rule, f, fmt.Sprintf("open#%d", k), st.pos, true, "opened with O_APPEND")
					continue
				}
				if !st.reach {
					continue
				}
				c.verdictIf(st.guarded, rule, f, fmt.Sprintf("open#%d", k), st.pos, st.what+" only when overwrite was requested", st.what+" is reachable without overwrite having been requested: existing tape content can be destroyed on open")
			}
			// helpers that truncate/rewind are called from nowhere else
			for _, g := range c.Funcs {
				if visited[g] {
					continue
				}
				for _, cs := range g.calls {
					if cs.Target != nil && cs.Target != f && visited[cs.Target] {
						var dummy = map[*FuncInfo]bool{}
						if len(c.destructiveSites(cs.Target, nil, 1, dummy)) > 0 {
							c.bad(rule, g, "calls "+cs.Target.Name, cs.Call.Pos(), "%s truncates or rewinds the drive and is called from outside OpenTapeWriteOnly's overwrite branch", cs.Target.Name)
						}
					}
				}
			}
			if k < half(4) {
				c.unresolved("only %d open/truncate sites classified in OpenTapeWriteOnly", k)
			}
		}
		// the manager forwards its own overwrite field (first writer only)
		if gw := c.fn("pkg/tape", "(*TapeManager).GetWriter"); gw != nil {
			info := gw.Pkg.TypesInfo
			owField := c.field("pkg/tape", "TapeManager", "overwrite")
			for _, cs := range gw.calls {
				if cs.Target != openW || len(cs.Call.Args) != 4 {
					continue
				}
				src := objOfIdent(info, cs.Call.Args[3])
				good := false
				// the configured flag, possibly narrowed: `m.overwrite`, `m.overwrite && <anything>` (a conjunction can only
				// turn overwriting off), or the constant false
				var fromField func(e ast.Expr) bool
				fromField = func(e ast.Expr) bool {
					e = ast.Unparen(e)
					if selField(info, e) == owField {
						return true
					}
					if tv := info.Types[e]; tv.Value != nil && tv.Value.String() == "false" {
						return true
					}
					if be, ok := e.(*ast.BinaryExpr); ok && be.Op == token.LAND {
						return fromField(be.X) || fromField(be.Y)
					}
					return false
				}
				if src == nil && fromField(cs.Call.Args[3]) {
					good = true
				}
				if src != nil {
					if st, _, _ := defOf(gw, src); st == nil {
						// assigned more than once: initial value from the field, later only the constant false
						good = true
						walkOwn(gw.Body(), func(nd ast.Node) {
							as, ok := nd.(*ast.AssignStmt)
							if !ok {
								return
							}
							for i, l := range as.Lhs {
								if objOfIdent(info, l) != src || i >= len(as.Rhs) {
									continue
								}
								if fromField(as.Rhs[i]) {
									continue
								}
								good = false
							}
						})
					} else if len(st.Rhs) == 1 && fromField(st.Rhs[0]) {
						good = true
					}
				}
				c.verdictIf(good, rule, gw, "forwarded overwrite", cs.Call.Pos(), "the manager passes on its configured overwrite (or false after the first writer)", "GetWriter passes an overwrite value that is not the manager's configured one")
			}
			// "only the first writer overwrites" is a latch: outside the constructor the marker is only ever set to true
			if ow := c.field("pkg/tape", "TapeManager", "overwrote"); ow != nil {
				k := 0
				for _, st := range c.storesTo(ow) {
					if _, isKV := st.Node.(*ast.KeyValueExpr); isKV {
						continue
					}
					k++
					sinfo := st.In.Pkg.TypesInfo
					latched := false
					if st.Value != nil {
						if tv := sinfo.Types[st.Value]; tv.Value != nil && tv.Value.String() == "true" {
							latched = true
						}
					}
					c.verdictIf(latched, rule, st.In, fmt.Sprintf("overwrote latch#%d", k), st.Node.Pos(), "the first-writer marker is only ever set",
						"the marker that keeps later writers from overwriting is assigned a computed value instead of being latched to true: a writer that did not overwrite clears it again, and the writer after that truncates (or rewinds) the drive underneath the live index")
				}
				if k == 0 {
					c.unresolved("no store to TapeManager.overwrote found")
				}
			}
		}
	}
}

type destructiveSite struct {
	pos        token.Pos
	what       string
	guarded    bool // control-dependent on the overwrite flag being true
	reach      bool
	appendOpen bool
}

// destructiveSites lists, for f and (two levels of) the same-package helpers it calls, the operations that can destroy
// existing drive content (Truncate, Seek/WriteAt, SeekToRecordOnTape, write-opens without O_APPEND, os.Create), each with
// whether it is control-dependent on `ow` (the overwrite flag, re-bound across helper calls that receive it) being true.
func (c *Ctx) destructiveSites(f *FuncInfo, ow *types.Var, depth int, visited map[*FuncInfo]bool) []destructiveSite {
	visited[f] = true
	info := f.Pkg.TypesInfo
	fl := c.flow(f)
	guard := func(n ast.Node) (bool, bool) {
		if ow == nil {
			_, reach := fl.guardedBy(n, func(Fact) bool { return false }, nil)
			return false, reach
		}
		return fl.guardedBy(n, func(ft Fact) bool { return objOfIdent(info, ft.E) == types.Object(ow) && ft.Pos }, nil)
	}
	var out []destructiveSite
	for _, cs := range f.calls {
		destructive := ""
		o := cs.Callee
		switch {
		case isMethod(o, "os", "File", "Truncate"):
			destructive = "Truncate"
		case isMethod(o, "os", "File", "Seek") || isMethod(o, "os", "File", "WriteAt"):
			destructive = o.Name()
		case o != nil && o.Name() == "SeekToRecordOnTape":
			destructive = "SeekToRecordOnTape"
		case isPkgFunc(o, "os", "OpenFile") && len(cs.Call.Args) == 3:
			flags := exprString(cs.Call.Args[1])
			if strings.Contains(flags, "O_WRONLY") || strings.Contains(flags, "O_RDWR") {
				if !strings.Contains(flags, "O_APPEND") {
					destructive = "OpenFile without O_APPEND"
				} else {
					out = append(out, destructiveSite{pos: cs.Call.Pos(), appendOpen: true, reach: true})
					continue
				}
			}
		case isPkgFunc(o, "os", "Create") || isPkgFunc(o, "os", "Truncate") || isPkgFunc(o, "os", "Remove") || isPkgFunc(o, "os", "WriteFile"):
			destructive = "os." + o.Name()
		}
		if destructive != "" {
			g, reach := guard(cs.Call)
			out = append(out, destructiveSite{pos: cs.Call.Pos(), what: destructive, guarded: g, reach: reach})
			continue
		}
		// same-package helper: its unguarded destructive operations happen at this call
		if cs.Target == nil || cs.Target == f || cs.Target.Pkg != f.Pkg || cs.Target.Body() == nil || depth >= 2 {
			continue
		}
		var bound *types.Var
		if ow != nil {
			sig := cs.Target.Obj.Type().(*types.Signature)
			for i, a := range cs.Call.Args {
				if i < sig.Params().Len() && objOfIdent(info, a) == types.Object(ow) {
					bound = sig.Params().At(i)
				}
			}
		}
		gHere, reach := guard(cs.Call)
		for _, st := range c.destructiveSites(cs.Target, bound, depth+1, visited) {
			if st.appendOpen {
				out = append(out, destructiveSite{pos: cs.Call.Pos(), appendOpen: true, reach: reach})
				continue
			}
			if !st.reach {
				continue
			}
			out = append(out, destructiveSite{pos: cs.Call.Pos(), what: cs.Target.Name + " -> " + st.what, guarded: gHere || st.guarded, reach: reach})
		}
	}
	return out
}
