package main

import (
	"fmt"
	"go/ast"
	"go/token"
	"go/types"
	"sort"
	"strings"

	"golang.org/x/tools/go/cfg"
)

func init() {
	register(&Property{
		ID:          "C11",
		Explanation: "Static lockset and lock-order analysis over every call path from the concurrent entry points (exported methods of *fs.STFS and *fs.File, and every goroutine they start), context-sensitive on the set of mutexes held: (lockset) for each field of shared mutable state (File.{readOpReader,readOpWriter,writeBuf,cleanWriteBuf,info}, FileInfo.{size,name} written through f.info, TapeManager.{reader,readerIsRegular,closer,overwrote}) every access must share at least one held mutex with every write of that field (Eraser's discipline, decided statically; the drive mutex handed out by GetWriter/GetReader counts as held until Close*); (lock-order) the acquired-while-held graph over ioLock, diskOperationLock[read ops], diskOperationLock[write ops], readerLock, physicalLock - plus the wait-for edge of a goroutine that writes into an io.Pipe whose reader is drained under ioLock while it holds other mutexes - must be acyclic and contain the documented order; (single-connection) the SQLite handle is limited to one connection in the loaded build variant; (shared-lock) every file handle is created with the filesystem's own ioLock.",
		NotDecided:  "The cached root of the index store (MetadataPersister.root/rootIsEmptyString): its writes are all init-once (guarded by root==\"\") or happen in Initialize's no-root branch, which no rule in reach separates from steady-state use, so tracking it raised alarms for which no schedule can be shown; a dynamic race detector is the right tool for it. Linearizability, completion under all interleavings beyond lock-order cycles, races inside dependencies (sqlite, afero), races on FileInfo values already returned to callers.",
		Assumptions: []string{"sync.Mutex semantics", "BackendConfig callbacks are the TapeManager methods (C10.backend-binding)", "user callbacks (onHeader) take no STFS lock"},
		Rules:       []func(*Ctx){ruleC11Concurrency, ruleC11SingleConnection},
	})
}

type lockID uint8

const (
	lkIO lockID = iota
	lkDiskR
	lkDiskW
	lkDiskAny
	lkReader
	lkPhys
	nLocks
)

var lockNames = [...]string{"ioLock", "diskOperationLock[readOps]", "diskOperationLock[writeOps]", "diskOperationLock[?]", "readerLock", "physicalLock"}

func heldString(h uint8) string {
	var s []string
	for i := lockID(0); i < nLocks; i++ {
		if h&(1<<i) != 0 {
			s = append(s, lockNames[i])
		}
	}
	if len(s) == 0 {
		return "{}"
	}
	return "{" + strings.Join(s, ", ") + "}"
}

type accessRec struct {
	field *types.Var
	fn    *FuncInfo
	pos   token.Pos
	write bool
	held  uint8
	root  string
}

type conc struct {
	c                                        *Ctx
	s                                        *sinkInfo
	ioS, ioF, disk, readerL, phys            *types.Var
	readOpsS, readOpsF, writeOpsS, writeOpsF *types.Var
	tracked                                  map[*types.Var]bool
	tmGetWriter, tmGetReader, tmClose        *FuncInfo
	fetch                                    *FuncInfo
	memo                                     map[string]bool
	accesses                                 []accessRec
	edges                                    map[[2]lockID]string
	retHeld                                  map[*FuncInfo]uint8
	pipeHeld                                 map[uint8]string // held sets at recovery.Fetch calls inside goroutines that feed a pipe
	curRoot                                  string
	reentrant                                map[string]string // site -> mutex acquired while already held
	depth                                    int
}

func (k *conc) lockOf(info *types.Info, x ast.Expr, ops int) (lockID, bool) {
	fv := selField(info, x)
	if fv == nil {
		// `f.ioLock` where ioLock is a *sync.Mutex field: selection again
		return 0, false
	}
	switch fv {
	case k.ioS, k.ioF:
		return lkIO, true
	case k.disk:
		switch ops {
		case 1:
			return lkDiskR, true
		case 2:
			return lkDiskW, true
		}
		return lkDiskAny, true
	case k.readerL:
		return lkReader, true
	case k.phys:
		return lkPhys, true
	}
	return 0, false
}

func (k *conc) addEdges(held uint8, to lockID, where string) {
	// sync.Mutex is not re-entrant: acquiring a mutex that is definitely held on this path blocks forever
	if held&(1<<to) != 0 && to != lkDiskAny {
		if k.reentrant == nil {
			k.reentrant = map[string]string{}
		}
		if _, ok := k.reentrant[where]; !ok {
			k.reentrant[where] = lockNames[to] + " (entry point " + k.curRoot + ")"
		}
	}
	for i := lockID(0); i < nLocks; i++ {
		if held&(1<<i) != 0 && i != to {
			e := [2]lockID{i, to}
			if _, ok := k.edges[e]; !ok {
				k.edges[e] = where
			}
		}
	}
}

// explore analyses f entered with the given must-held set; ops: 0 unknown, 1 readOps, 2 writeOps.
func (k *conc) explore(f *FuncInfo, held uint8, ops int, inGo bool) {
	if f == nil || f.Body() == nil {
		return
	}
	key := fmt.Sprintf("%p|%d|%d|%v", f, held, ops, inGo)
	if k.memo[key] {
		return
	}
	k.memo[key] = true
	if k.depth > 40 {
		return
	}
	k.depth++
	defer func() { k.depth-- }()
	info := f.Pkg.TypesInfo
	fl := k.c.flow(f)
	csOf := map[*ast.CallExpr]*CallSite{}
	for _, cs := range f.calls {
		csOf[cs.Call] = cs
	}
	// pure transfer: effect of one call on the held set
	effect := func(call *ast.CallExpr, s uint8, deferred bool) uint8 {
		if mv, op := mutexField(info, call); mv != nil {
			se := ast.Unparen(call.Fun).(*ast.SelectorExpr)
			if id, ok := k.lockOf(info, se.X, ops); ok {
				switch op {
				case "Lock", "RLock":
					s |= 1 << id
				case "Unlock", "RUnlock":
					if !deferred {
						s &^= 1 << id
					}
				}
			}
			return s
		}
		cs := csOf[call]
		if cs == nil {
			return s
		}
		if v, ok := cs.Callee.(*types.Var); ok {
			switch v {
			case k.s.getWriter, k.s.getReader:
				s |= 1 << lkPhys
			case k.s.closeWriter, k.s.closeReader:
				if !deferred {
					s &^= 1 << lkPhys
				}
			}
		}
		if cs.Target != nil && cs.Target.Decl != nil {
			s |= k.returnsHeld(cs.Target, ops)
		}
		return s
	}
	an := &Analysis{Must: true, Entry: State(held), Node: func(n ast.Node, st State) State {
		s := uint8(st)
		if d, ok := n.(*ast.DeferStmt); ok {
			return State(effect(d.Call, s, true))
		}
		if _, ok := n.(*ast.GoStmt); ok {
			return st
		}
		for _, call := range callsIn(n) {
			s = effect(call, s, false)
		}
		return State(s)
	}, Edge: func(b *cfg.Block, i int, st State) State {
		// on the `err != nil` edge of an acquiring statement nothing was acquired
		s := uint8(st)
		for _, ft := range fl.edgeFacts(b, i) {
			be, ok := ast.Unparen(ft.E).(*ast.BinaryExpr)
			if !ok || !(isNilIdent(info, be.Y) || isNilIdent(info, be.X)) {
				continue
			}
			if !(be.Op == token.NEQ && ft.Pos || be.Op == token.EQL && !ft.Pos) {
				continue
			}
			for _, nd := range b.Nodes {
				var rhs ast.Expr
				switch x := nd.(type) {
				case *ast.AssignStmt:
					if len(x.Rhs) == 1 {
						rhs = x.Rhs[0]
					}
				}
				call, ok := ast.Unparen(rhs).(*ast.CallExpr)
				if rhs == nil || !ok {
					continue
				}
				before := effect(call, 0, false)
				if before != 0 && (csOf[call] != nil) {
					if _, isMutex := mutexField(info, call); isMutex == "" {
						s &^= before
					}
				}
			}
		}
		return State(s)
	}}
	fl.solve(an)
	type defUnlock struct {
		pos token.Pos
		id  lockID
	}
	var deferredUnlocks []defUnlock
	walkOwn(f.Body(), func(nd ast.Node) {
		d, ok := nd.(*ast.DeferStmt)
		if !ok {
			return
		}
		if mv, op := mutexField(info, d.Call); mv != nil && (op == "Unlock" || op == "RUnlock") {
			se := ast.Unparen(d.Call.Fun).(*ast.SelectorExpr)
			if id, ok := k.lockOf(info, se.X, ops); ok {
				deferredUnlocks = append(deferredUnlocks, defUnlock{d.Pos(), id})
			}
		}
	})
	// final pass: record accesses and descend into callees with the exact held sets
	for _, b := range fl.G.Blocks {
		st := an.in[b]
		if st == unreached || !b.Live {
			continue
		}
		s := uint8(st)
		for _, n := range b.Nodes {
			k.recordAccesses(f, n, s)
			switch x := n.(type) {
			case *ast.GoStmt:
				if lit, ok := x.Call.Fun.(*ast.FuncLit); ok {
					saved := k.curRoot
					k.curRoot = "goroutine started in " + f.Name
					k.explore(k.c.byLit[lit], 0, ops, true)
					k.curRoot = saved
				}
				continue
			case *ast.DeferStmt:
				// deferred calls run at exit in LIFO order: a deferred call registered BEFORE a `defer X.Unlock()` runs
				// AFTER that unlock, i.e. without X
				run := s
				for _, d := range deferredUnlocks {
					if d.pos > x.Pos() {
						run &^= 1 << d.id
					}
				}
				if lit, ok := x.Call.Fun.(*ast.FuncLit); ok {
					k.explore(k.c.byLit[lit], run, ops, inGo)
				} else {
					k.descend(f, x.Call, csOf, run, ops, inGo)
				}
				s = effect(x.Call, s, true)
				continue
			}
			for _, call := range callsIn(n) {
				k.descend(f, call, csOf, s, ops, inGo)
				s = effect(call, s, false)
			}
		}
	}
}

// returnsHeld: mutexes a function may still hold when it returns successfully (acquired, not released, no
// deferred release) - the "returns with the lock held" summary of wrappers such as openOrReuseReader.
func (k *conc) returnsHeld(f *FuncInfo, ops int) uint8 {
	if v, ok := k.retHeld[f]; ok {
		return v
	}
	k.retHeld[f] = 0
	info := f.Pkg.TypesInfo
	locks := false
	for _, cs := range f.calls {
		if mv, _ := mutexField(info, cs.Call); mv != nil {
			locks = true
		}
	}
	if !locks {
		return 0
	}
	fl := k.c.flow(f)
	an := &Analysis{Must: false, Entry: 0, Node: func(n ast.Node, st State) State {
		s := uint8(st)
		if d, ok := n.(*ast.DeferStmt); ok {
			if mv, op := mutexField(info, d.Call); mv != nil && (op == "Unlock" || op == "RUnlock") {
				se := ast.Unparen(d.Call.Fun).(*ast.SelectorExpr)
				if id, ok := k.lockOf(info, se.X, ops); ok {
					s |= 1 << (id + 8 - 8) // keep bit; mark deferred below
					return State(uint64(s) | uint64(1)<<(8+id))
				}
			}
			return st
		}
		hi := uint64(st) &^ 0xff
		for _, call := range callsIn(n) {
			if mv, op := mutexField(info, call); mv != nil {
				se := ast.Unparen(call.Fun).(*ast.SelectorExpr)
				if id, ok := k.lockOf(info, se.X, ops); ok {
					switch op {
					case "Lock", "RLock":
						s |= 1 << id
					case "Unlock", "RUnlock":
						s &^= 1 << id
					}
				}
			}
		}
		return State(uint64(s) | hi)
	}}
	fl.solve(an)
	var res uint8
	fl.exits(an, func(ret *ast.ReturnStmt, ord int, st State) {
		if ret != nil && len(ret.Results) > 0 && !returnsNil(info, ret) {
			return // error exit
		}
		h := uint8(st)
		deferred := uint8(uint64(st) >> 8)
		res |= h &^ deferred
	})
	k.retHeld[f] = res
	return res
}

func (k *conc) descend(f *FuncInfo, call *ast.CallExpr, csOf map[*ast.CallExpr]*CallSite, s uint8, ops int, inGo bool) {
	info := f.Pkg.TypesInfo
	where := k.c.pos(call.Pos())
	if mv, op := mutexField(info, call); mv != nil {
		se := ast.Unparen(call.Fun).(*ast.SelectorExpr)
		if id, ok := k.lockOf(info, se.X, ops); ok && (op == "Lock" || op == "RLock") {
			k.addEdges(s, id, where)
		}
		return
	}
	cs := csOf[call]
	if cs == nil {
		return
	}
	// callbacks passed as literals run with at least the caller's locks
	for _, a := range call.Args {
		if lit, ok := ast.Unparen(a).(*ast.FuncLit); ok {
			k.explore(k.c.byLit[lit], s, ops, inGo)
		}
	}
	if v, ok := cs.Callee.(*types.Var); ok {
		switch v {
		case k.s.getWriter:
			k.explore(k.tmGetWriter, s, ops, inGo)
			return
		case k.s.getReader:
			k.explore(k.tmGetReader, s, ops, inGo)
			return
		case k.s.closeWriter, k.s.closeReader:
			k.explore(k.tmClose, s, ops, inGo)
			return
		}
	}
	if fn, ok := cs.Callee.(*types.Func); ok {
		// interface dispatch to the single persister implementation
		sig := fn.Type().(*types.Signature)
		if sig.Recv() != nil {
			if _, isIface := sig.Recv().Type().Underlying().(*types.Interface); isIface {
				if impl := k.c.fnOpt("pkg/persisters", "(*MetadataPersister)."+fn.Name()); impl != nil {
					k.explore(impl, s, ops, inGo)
				}
				return
			}
		}
	}
	if cs.Target == nil {
		return
	}
	nops := ops
	if se, ok := ast.Unparen(call.Fun).(*ast.SelectorExpr); ok {
		switch selField(info, se.X) {
		case k.readOpsS, k.readOpsF:
			nops = 1
		case k.writeOpsS, k.writeOpsF:
			nops = 2
		}
	}
	if cs.Target == k.fetch && inGo {
		if _, ok := k.pipeHeld[s]; !ok {
			k.pipeHeld[s] = where + " (" + k.curRoot + ")"
		}
	}
	k.explore(cs.Target, s, nops, inGo)
}

func (k *conc) recordAccesses(f *FuncInfo, n ast.Node, held uint8) {
	info := f.Pkg.TypesInfo
	writes := map[ast.Expr]bool{}
	switch s := n.(type) {
	case *ast.AssignStmt:
		for _, l := range s.Lhs {
			writes[ast.Unparen(l)] = true
		}
	case *ast.IncDecStmt:
		writes[ast.Unparen(s.X)] = true
	}
	ast.Inspect(n, func(m ast.Node) bool {
		if _, ok := m.(*ast.FuncLit); ok {
			return false
		}
		e, ok := m.(ast.Expr)
		if !ok {
			return true
		}
		fv := selField(info, e)
		if fv == nil || !k.tracked[fv] {
			return true
		}
		k.accesses = append(k.accesses, accessRec{fv, f, e.Pos(), writes[ast.Unparen(e)], held, k.curRoot})
		return true
	})
}

func ruleC11Concurrency(c *Ctx) {
	const ruleLS = "C11.lockset"
	const ruleLO = "C11.lock-order"
	const ruleSL = "C11.shared-lock"
	c.floor(ruleLS, 40, "(entry point, tracked field) pairs reachable from the concurrent entry points")
	c.floor(ruleLO, 5, "lock-order edges and the acyclicity verdict")
	k := &conc{c: c, s: c.sinks(), tracked: map[*types.Var]bool{}, memo: map[string]bool{}, edges: map[[2]lockID]string{}, pipeHeld: map[uint8]string{}, retHeld: map[*FuncInfo]uint8{}}
	k.ioS, k.ioF = c.mutex("fs.STFS"), c.mutex("fs.File")
	k.disk = c.mutex("operations")
	k.readerL, k.phys = c.mutex("tape.reader"), c.mutex("tape.physical")
	k.readOpsS, k.readOpsF = c.field("pkg/fs", "STFS", "readOps"), c.field("pkg/fs", "File", "readOps")
	k.writeOpsS, k.writeOpsF = c.field("pkg/fs", "STFS", "writeOps"), c.field("pkg/fs", "File", "writeOps")
	k.tmGetWriter, k.tmGetReader, k.tmClose = c.fn("pkg/tape", "(*TapeManager).GetWriter"), c.fn("pkg/tape", "(*TapeManager).GetReader"), c.fn("pkg/tape", "(*TapeManager).Close")
	k.fetch = c.fn("pkg/recovery", "Fetch")
	if k.ioS == nil || k.ioF == nil || k.disk == nil || k.readerL == nil || k.phys == nil || k.tmGetWriter == nil || k.tmGetReader == nil || k.tmClose == nil || k.fetch == nil {
		return
	}
	for _, t := range [][]string{
		{"pkg/fs", "File", "readOpReader", "readOpWriter", "writeBuf", "cleanWriteBuf", "info"},
		{"pkg/fs", "FileInfo", "size", "name"},
	} {
		for _, fn := range t[2:] {
			if fv := c.field(t[0], t[1], fn); fv != nil {
				k.tracked[fv] = true
			}
		}
	}
	// the tape manager's mutable state: every field that is assigned outside a composite literal (whatever the
	// fields are called or how they are grouped), except the mutexes themselves
	if tm := c.namedType("pkg/tape", "TapeManager"); tm != nil {
		if st, ok := tm.Underlying().(*types.Struct); ok {
			nt := 0
			for i := 0; i < st.NumFields(); i++ {
				fv := st.Field(i)
				if strings.HasPrefix(fv.Type().String(), "sync.") {
					continue
				}
				for _, sto := range c.storesTo(fv) {
					if _, isKV := sto.Node.(*ast.KeyValueExpr); !isKV {
						k.tracked[fv] = true
					}
				}
				if k.tracked[fv] {
					nt++
				}
			}
			if nt < 2 {
				c.unresolved("only %d mutable fields of tape.TapeManager found (expected the reader state, the closer and the overwrite marker)", nt)
			}
		}
	}
	// shared-lock: every NewFile call passes the address of the filesystem's own ioLock
	newFile := c.fn("pkg/fs", "NewFile")
	if newFile != nil {
		n := 0
		for _, f := range c.Funcs {
			for _, cs := range f.calls {
				if cs.Target != newFile {
					continue
				}
				n++
				good := false
				sig := newFile.Obj.Type().(*types.Signature)
				for i := 0; i < sig.Params().Len() && i < len(cs.Call.Args); i++ {
					if pt, ok := sig.Params().At(i).Type().(*types.Pointer); ok && pt.Elem().String() == "sync.Mutex" {
						if u, ok := ast.Unparen(cs.Call.Args[i]).(*ast.UnaryExpr); ok && u.Op == token.AND && selField(f.Pkg.TypesInfo, u.X) == k.ioS {
							good = true
						}
					}
				}
				c.verdictIf(good, ruleSL, f, fmt.Sprintf("NewFile#%d", n), cs.Call.Pos(), "handle shares the filesystem's ioLock", "a file handle is created with a mutex other than the filesystem's ioLock: its operations would not be serialised with the filesystem's")
			}
		}
		if n == 0 {
			c.unresolved("no NewFile call found")
		}
	}
	// explore from the concurrent entry points
	roots := append(exportedMethods(c, "pkg/fs", "STFS"), exportedMethods(c, "pkg/fs", "File")...)
	for _, r := range roots {
		k.curRoot = r.Name
		k.explore(r, 0, 0, false)
	}
	// ---- lockset ----
	// guard table, frozen from what the accesses of each type do (confirmed by reading): one line of reason each
	guardOf := func(fv *types.Var) (uint8, string) {
		switch fv.Pkg().Path() {
		case modPath + "/pkg/tape":
			return 1<<lkPhys | 1<<lkReader, "physicalLock or readerLock (manager state changes only while the drive is held)"
		default:
			return 1 << lkIO, "ioLock (every filesystem and file method serialises on it)"
		}
	}
	writesOf := map[*types.Var][]accessRec{}
	for _, a := range k.accesses {
		if a.write {
			writesOf[a.field] = append(writesOf[a.field], a)
		}
	}
	type ek struct {
		root string
		fv   *types.Var
	}
	verdicts := map[ek]string{}
	first := map[ek]accessRec{}
	var eorder []ek
	for _, a := range k.accesses {
		key := ek{a.root, a.field}
		if _, ok := first[key]; !ok {
			first[key] = a
			eorder = append(eorder, key)
		}
		g, _ := guardOf(a.field)
		if a.held&g != 0 {
			continue
		}
		for _, w := range writesOf[a.field] {
			if a.held&w.held == 0 && verdicts[key] == "" {
				kind := "reads"
				if a.write {
					kind = "writes"
				}
				verdicts[key] = fmt.Sprintf("%s %s at %s (in %s) holding %s, while the write at %s (reached from %s) holds %s", kind, a.field.Name(), c.pos(a.pos), a.fn.Name, heldString(a.held), c.pos(w.pos), w.root, heldString(w.held))
			}
		}
	}
	sort.Slice(eorder, func(i, j int) bool {
		if eorder[i].root != eorder[j].root {
			return eorder[i].root < eorder[j].root
		}
		return eorder[i].fv.Name() < eorder[j].fv.Name()
	})
	for _, key := range eorder {
		a := first[key]
		_, gname := guardOf(key.fv)
		owner := ""
		if recv := key.fv.Pkg(); recv != nil {
			owner = recv.Name() + "."
		}
		var fn *FuncInfo
		for _, r := range roots {
			if r.Name == key.root || "goroutine started in "+r.Name == key.root {
				fn = r
			}
		}
		construct := "field " + owner + key.fv.Name()
		if strings.HasPrefix(key.root, "goroutine") {
			construct = "goroutine: field " + owner + key.fv.Name()
		}
		if fn == nil {
			// goroutine started in a non-exported helper
			for _, f := range c.Funcs {
				if "goroutine started in "+f.Name == key.root {
					fn = f
				}
			}
		}
		if v := verdicts[key]; v != "" {
			c.bad(ruleLS, fn, construct, a.pos, "%s %s without its guard %s: a data race by the Go memory model when another goroutine is inside the write", key.root, v, gname)
		} else {
			c.ok(ruleLS, fn, construct, a.pos, true, "every access to %s on paths from %s holds %s or shares a mutex with every write", key.fv.Name(), key.root, gname)
		}
	}
	if len(eorder) < half(40) {
		c.unresolved("only %d (entry point, field) pairs reached (expected >= 40)", len(eorder))
	}
	// ---- lock order ----
	// pipe wait-for edges: a goroutine blocked writing into a pipe (inside recovery.Fetch) needs its consumer,
	// which drains the pipe only while holding ioLock (File.Read / seekWithoutLocking read f.readOpReader under it)
	consumerHeld := uint8(0xff)
	readOpReader := c.field("pkg/fs", "File", "readOpReader")
	for _, a := range k.accesses {
		if a.field == readOpReader && !a.write {
			consumerHeld &= a.held
		}
	}
	if consumerHeld != 0xff {
		for h, where := range k.pipeHeld {
			for i := lockID(0); i < nLocks; i++ {
				if consumerHeld&(1<<i) != 0 {
					for j := lockID(0); j < nLocks; j++ {
						if h&(1<<j) != 0 && j != i {
							e := [2]lockID{j, i}
							if _, ok := k.edges[e]; !ok {
								k.edges[e] = "pipe wait-for: streaming goroutine blocks in recovery.Fetch at " + where + " holding " + lockNames[j] + " until a consumer drains the pipe under " + lockNames[i]
							}
						}
					}
				}
			}
		}
	}
	var es [][2]lockID
	for e := range k.edges {
		es = append(es, e)
	}
	sort.Slice(es, func(i, j int) bool {
		if es[i][0] != es[j][0] {
			return es[i][0] < es[j][0]
		}
		return es[i][1] < es[j][1]
	})
	// documented order present
	want := [][2]lockID{{lkIO, lkDiskW}, {lkIO, lkDiskR}, {lkDiskW, lkPhys}, {lkDiskR, lkReader}, {lkDiskR, lkPhys}}
	for _, w := range want {
		_, ok := k.edges[w]
		c.verdictIf(ok, ruleLO, nil, "edge "+lockNames[w[0]]+" -> "+lockNames[w[1]], token.NoPos, "documented acquisition order observed at "+k.edges[w], "the documented acquisition "+lockNames[w[0]]+" -> "+lockNames[w[1]]+" is no longer observed: the lock model is out of date")
	}
	// cycles: report each elementary back edge found by DFS
	adj := map[lockID][]lockID{}
	for _, e := range es {
		adj[e[0]] = append(adj[e[0]], e[1])
	}
	color := map[lockID]int{}
	var stack []lockID
	var cycles []string
	var dfs func(u lockID)
	dfs = func(u lockID) {
		color[u] = 1
		stack = append(stack, u)
		for _, v := range adj[u] {
			if color[v] == 1 {
				// cycle v ... u -> v
				var names []string
				start := 0
				for i, x := range stack {
					if x == v {
						start = i
					}
				}
				for _, x := range stack[start:] {
					names = append(names, lockNames[x])
				}
				names = append(names, lockNames[v])
				cycles = append(cycles, strings.Join(names, " -> ")+" (closing edge: "+k.edges[[2]lockID{u, v}]+")")
			} else if color[v] == 0 {
				dfs(v)
			}
		}
		stack = stack[:len(stack)-1]
		color[u] = 2
	}
	for i := lockID(0); i < nLocks; i++ {
		if color[i] == 0 {
			dfs(i)
		}
	}
	for _, e := range es {
		c.note("lock-order edge %s -> %s (%s)", lockNames[e[0]], lockNames[e[1]], k.edges[e])
	}
	// self-deadlocks: a mutex acquired on a path on which it is already held
	{
		var sites []string
		for w := range k.reentrant {
			sites = append(sites, w)
		}
		sort.Strings(sites)
		for i, w := range sites {
			c.bad(ruleLO, nil, fmt.Sprintf("re-entrant acquisition#%d %s", i+1, strings.Split(k.reentrant[w], " ")[0]), token.NoPos, "%s is acquired at %s on a call path on which it is already held: %s; sync.Mutex is not re-entrant, so the call never returns and every other caller of the instance blocks behind it", strings.Split(k.reentrant[w], " ")[0], w, k.reentrant[w])
		}
		if len(sites) == 0 {
			c.ok(ruleLO, nil, "no re-entrant acquisition", token.NoPos, true, "no mutex is acquired on a path on which it is definitely held")
		}
	}
	// one obligation per distinct cycle signature (by the set of locks), so that a new cycle is a new violation
	seen := map[string]bool{}
	for _, cy := range cycles {
		sig := cycleSignature(cy)
		if seen[sig] {
			continue
		}
		seen[sig] = true
		c.bad(ruleLO, nil, "cycle "+sig, token.NoPos, "lock-order cycle: %s - two callers taking these in opposite order deadlock the whole instance", cy)
	}
	if len(cycles) == 0 {
		c.ok(ruleLO, nil, "acyclic", token.NoPos, true, "the acquired-while-held graph (%d edges, incl. pipe wait-for edges) has no cycle", len(es))
	}
}

func cycleSignature(cy string) string {
	head := strings.SplitN(cy, " (closing", 2)[0]
	parts := strings.Split(head, " -> ")
	if len(parts) > 1 {
		parts = parts[:len(parts)-1]
	}
	// rotate so the smallest name is first
	min := 0
	for i := range parts {
		if parts[i] < parts[min] {
			min = i
		}
	}
	rot := append(append([]string{}, parts[min:]...), parts[:min]...)
	return strings.Join(rot, ">")
}

func ruleC11SingleConnection(c *Ctx) {
	const rule = "C11.single-connection"
	c.floor(rule, 1, "SQLite open function of the loaded build variant")
	f := c.fn("internal/persisters", "(*SQLite).Open")
	if f == nil {
		return
	}
	info := f.Pkg.TypesInfo
	found := false
	for _, cs := range f.calls {
		if isMethod(cs.Callee, "database/sql", "DB", "SetMaxOpenConns") && len(cs.Call.Args) == 1 {
			if tv := info.Types[cs.Call.Args[0]]; tv.Value != nil && tv.Value.String() == "1" {
				found = true
			}
		}
	}
	c.verdictIf(found, rule, f, "SetMaxOpenConns(1)", f.Decl.Pos(), "the database handle is limited to a single connection", "the SQLite handle is not limited to one connection: concurrent statements hit 'database is locked' / see inconsistent snapshots")
	_ = cfg.KindBody
}
