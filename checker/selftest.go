package main

type selftestResult struct {
	Name   string `json:"name"`
	Rule   string `json:"rule"`
	Status string `json:"status"` // caught | missed | skipped | broken
	Detail string `json:"detail"`
}

func runSelftest(p *Property, repo, verif string) int { return 0 }

func selftestSummary(p *Property, repo, verif string) []selftestResult { return nil }
