package main

import (
	"encoding/json"
	"fmt"
	"io"
	"io/fs"
	"os"
	"os/exec"
	"path/filepath"
	"sort"
	"strings"
	"sync"
)

// The sensitivity corpus: scratch variants of /repo in which one rule instance is broken. Each variant must still
// type-check and must be reported by the named rule. This is checker self-validation (run by the thorough tier and
// by -selftest); the verdict of a check is always the analysis of the unmodified working tree.

type selftestResult struct {
	Name   string `json:"name"`
	Rule   string `json:"rule"`
	Status string `json:"status"` // caught | missed | skipped | broken
	Detail string `json:"detail"`
}

type edit struct {
	File  string
	After string // optional marker: the replacement applies to the first occurrence of Old after this text
	Old   string
	New   string
}

type variant struct {
	Name  string
	Prop  string
	Rule  string // a reported obligation key must start with this
	Edits []edit
}

var corpus = []variant{
	// C01
	{"C01-direct-index-write", "C01", "C01.single-writer", []edit{{"pkg/operations/delete.go", "", "	// Append deletion hdrs to the tape or tar file\n", "	if _, err := o.metadata.Metadata.DeleteHeader(context.Background(), name, lastIndexedRecord, lastIndexedBlock); err != nil {\n		return err\n	}\n\n	// Append deletion hdrs to the tape or tar file\n"}}},
	{"C01-store-after-snapshot", "C01", "C01.snapshot-window", []edit{{"pkg/operations/archive.go", "", "		hdrs = append(hdrs, &hdrToAppend)\n", "		hdrs = append(hdrs, &hdrToAppend)\n		hdr.Uname = \"\"\n"}}},
	{"C01-success-exit-without-index", "C01", "C01.append-then-index", []edit{{"pkg/operations/delete.go", "	reader, err := o.backend.GetReader()\n", "		return err\n", "		return nil\n"}}},
	{"C01-crossed-converter-field", "C01", "C01.converters", []edit{{"internal/converters/header.go", "", "		Gid:        int(dbhdr.Gid),\n", "		Gid:        int(dbhdr.UID),\n"}}},
	// C02
	{"C02-crossed-converter-field", "C02", "C02.converters", []edit{{"internal/converters/header.go", "", "		Uname:           tarhdr.Uname,\n", "		Uname:           tarhdr.Gname,\n"}}},
	{"C02-parent-check-on-wrong-name", "C02", "C02.precondition-before-append", []edit{{"pkg/fs/filesystem.go", "func (f *STFS) Mkdir(", "		filepath.Dir(name),\n", "		name,\n"}}},
	// C03
	{"C03-suffix-mismatch", "C03", "C03.format-tables", []edit{{"internal/suffix/remove.go", "", "		name = strings.TrimSuffix(name, CompressionFormatLZ4Suffix)\n", "		name = strings.TrimSuffix(name, CompressionFormatZStandardSuffix)\n"}}},
	{"C03-write-pass-other-level", "C03", "C03.two-pass-agreement", []edit{{"pkg/operations/archive.go", "		// Compress and write the file\n", "			compressionLevel,\n", "			config.CompressionLevelFastestKey,\n"}}},
	{"C03-missing-flush", "C03", "C03.finish-order", []edit{{"pkg/operations/archive.go", "		// Compress and write the file\n", "		if err := compressor.Flush(); err != nil {\n			return []*tar.Header{}, err\n		}\n\n", ""}}},
	{"C03-decompress-before-decrypt", "C03", "C03.nesting-inverse", []edit{{"pkg/recovery/fetch.go", "", "compression.Decompress(decryptor, pipes.Compression)", "compression.Decompress(tr, pipes.Compression)"}}},
	{"C03-logical-size-not-restored", "C03", "C03.logical-size", []edit{{"pkg/recovery/index.go", "", "		hdr.Size = int64(size)\n", "		_ = size\n"}}},
	{"C03-level-arm-dropped", "C03", "C03.format-tables", []edit{{"pkg/compression/compress.go", "	case config.CompressionFormatZStandardKey:\n", "		case config.CompressionLevelBalancedKey:\n			l = zstd.SpeedDefault\n", ""}}},
	// C04
	{"C04-lastknown-as-content", "C04", "C04.units", []edit{{"pkg/recovery/index.go", "", "converters.TarHeaderToDBHeader(oldHdr.Record, record, oldHdr.Block, block, hdr)", "converters.TarHeaderToDBHeader(oldHdr.Lastknownrecord, record, oldHdr.Lastknownblock, block, hdr)"}}},
	{"C04-record-block-swapped-store", "C04", "C04.units", []edit{{"pkg/persisters/metadata.go", "func (p *MetadataPersister) DeleteHeader(", "	hdr.Lastknownrecord = lastknownrecord\n	hdr.Lastknownblock = lastknownblock\n", "	hdr.Lastknownrecord = lastknownblock\n	hdr.Lastknownblock = lastknownrecord\n"}}},
	{"C04-seek-formula-swapped", "C04", "C04.seek-formula", []edit{{"pkg/recovery/fetch.go", "", "(pipes.RecordSize*config.MagneticTapeBlockSize*record)+block*config.MagneticTapeBlockSize", "(pipes.RecordSize*config.MagneticTapeBlockSize*block)+record*config.MagneticTapeBlockSize"}}},
	{"C04-restore-uses-lastknown", "C04", "C04.units", []edit{{"pkg/operations/restore.go", "", "			int(dbhdr.Record),\n			int(dbhdr.Block),\n", "			int(dbhdr.Lastknownrecord),\n			int(dbhdr.Lastknownblock),\n"}}},
	// C05
	{"C05-open-without-append", "C05", "C05.overwrite-provenance", []edit{{"pkg/tape/write.go", "	if isRegular {\n		f, err = os.OpenFile(", "os.O_APPEND|os.O_WRONLY|os.O_CREATE", "os.O_WRONLY|os.O_CREATE"}}},
	{"C05-dirty-not-set", "C05", "C05.trailer", []edit{{"pkg/operations/delete.go", "		if err := tw.WriteHeader(hdr); err != nil {\n", "		dirty = true\n", ""}}},
	{"C05-lookup-after-write", "C05", "C05.lookups-before-append", []edit{{"pkg/operations/move.go", "", "		dirty = true\n	}\n", "		dirty = true\n\n		if _, err := o.metadata.Metadata.GetHeader(context.Background(), hdr.Name); err == nil {\n			return config.ErrNotImplemented\n		}\n	}\n"}}},
	// C06
	{"C06-skip-before-index", "C06", "C06.header-before-content", []edit{{"pkg/recovery/index.go", "", "			if i >= offset {\n				if err := decryptHeader(hdr, i-offset); err != nil {", "			if _, err := io.Copy(ioutil.Discard, tr); err != nil {\n				return err\n			}\n\n			if i >= offset {\n				if err := decryptHeader(hdr, i-offset); err != nil {"}}},
	{"C06-parse-error-escapes", "C06", "C06.resync-exits", []edit{{"pkg/recovery/index.go", "					hdr, err = tr.Next()\n					if err != nil {\n						if err == io.EOF {\n							// EOF\n							break\n						}\n\n", "						continue\n", "						return err\n"}}},
	{"C06-skip-error-swallowed", "C06", "C06.content-error-surfaces", []edit{{"pkg/recovery/index.go", "", "			if _, err := io.Copy(ioutil.Discard, tr); err != nil {\n				return err\n			}\n\n			currAndSize, err := reader.Drive.Seek(0, io.SeekCurrent)", "			_, _ = io.Copy(ioutil.Discard, tr)\n\n			currAndSize, err := reader.Drive.Seek(0, io.SeekCurrent)"}}},
	// C07
	{"C07-unguarded-insert", "C07", "C07.guarded-insert", []edit{{"pkg/persisters/metadata.go", "func (p *MetadataPersister) UpsertHeader(", "		if err == sql.ErrNoRows {\n", "		if err != nil {\n"}}},
	// C08
	{"C08-invalid-signature-tolerated", "C08", "C08.", []edit{{"pkg/signature/verify.go", "func VerifyHeader(", "recipient, signature); err != nil {\n", "recipient, signature); err != nil && err != config.ErrSignatureInvalid {\n"}}},
	{"C08-query-skips-verification", "C08", "C08.verify-before-use", []edit{{"pkg/recovery/query.go", "", "			if err := signature.VerifyHeader(hdr, reader.DriveIsRegular, pipes.Signature, crypto.Recipient); err != nil {\n				return []*tar.Header{}, err\n			}\n\n", ""}}},
	{"C08-minisign-verify-result-ignored", "C08", "C08.fail-closed", []edit{{"pkg/signature/verify.go", "func VerifyString(", "		if minisign.Verify(recipient, []byte(src), decodedSignature) {\n			return nil\n		}\n\n		return config.ErrSignatureInvalid\n", "		_ = minisign.Verify(recipient, []byte(src), decodedSignature)\n\n		return nil\n"}}},
	// C09
	{"C09-move-header-not-encrypted", "C09", "C09.header-wrapped", []edit{{"pkg/operations/move.go", "", "encryption.EncryptHeader(hdr, o.pipes.Encryption, o.crypto.Recipient)", "encryption.EncryptHeader(hdr, config.NoneKey, o.crypto.Recipient)"}}},
	{"C09-wrapper-leaks-name", "C09", "C09.wrapper-shape", []edit{{"pkg/encryption/encrypt.go", "func EncryptHeader(", "		Size:       hdr.Size,\n", "		Size:       hdr.Size,\n		Name:       hdr.Name,\n"}}},
	{"C09-content-bypasses-encryptor", "C09", "C09.content-wrapped", []edit{{"pkg/operations/update.go", "			// Compress and write the file\n", "				if _, err := io.Copy(compressor, f); err != nil {\n", "				if _, err := io.Copy(tw, f); err != nil {\n"}}},
	// C10
	{"C10-writer-leak-on-error", "C10", "C10.drive-bracket", []edit{
		{"pkg/operations/delete.go", "", "\n	// Free the drive if we return before the writer has been closed\n	writerOpen := true\n	defer func() {\n		if writerOpen {\n			_ = o.backend.CloseWriter()\n		}\n	}()\n", "\n"},
		{"pkg/operations/delete.go", "", "	writerOpen = false\n", ""}}},
	{"C10-manager-keeps-mutex-on-error", "C10", "C10.manager-typestate", []edit{{"pkg/tape/manager.go", "func (m *TapeManager) GetWriter()", "		m.physicalLock.Unlock()\n\n", ""}}},
	{"C10-unpaired-lock", "C10", "C10.lock-pairs", []edit{{"pkg/fs/filesystem.go", "func (f *STFS) Remove(", "	defer f.ioLock.Unlock()\n", ""}}},
	{"C10-must-compile", "C10", "C10.no-crash-site", []edit{{"pkg/inventory/find.go", "", "	exp, err := regexp.Compile(expression)\n	if err != nil {\n		return []*tar.Header{}, err\n	}\n", "	exp := regexp.MustCompile(expression)\n"}}},
	{"C10-goroutine-drops-error", "C10", "C10.no-crash-site", []edit{{"pkg/fs/file.go", "func (f *File) Read(p []byte)", "				_ = writer.CloseWithError(err)\n", "				return\n"}}},
	// C11
	{"C11-unlocked-stat", "C11", "C11.lockset", []edit{{"pkg/fs/file.go", "func (f *File) Stat()", "	f.ioLock.Lock()\n	defer f.ioLock.Unlock()\n\n", ""}}},
	{"C11-new-lock-order-cycle", "C11", "C11.lock-order", []edit{{"pkg/tape/manager.go", "func (m *TapeManager) Close()", "	defer m.physicalLock.Unlock()\n", "	defer m.physicalLock.Unlock()\n\n	m.readerLock.Lock()\n	defer m.readerLock.Unlock()\n"}}},
	// C12
	{"C14-trunc-without-rewind", "C14", "C14.write-cursor-after-load", []edit{{"pkg/fs/file.go", "func (f *File) enterWriteMode()", "			// Loading the existing content left the cursor behind it; the emptied buffer starts at zero, also when appending\n			if _, err := f.writeBuf.Seek(0, io.SeekStart); err != nil {\n				return err\n			}\n", ""}}},
	{"C13-update-revives-tombstone", "C13", "C13.create-resets-all-columns", []edit{{"pkg/persisters/metadata.go", "func (p *MetadataPersister) UpdateHeaderMetadata(", "boil.Blacklist(models.HeaderColumns.Deleted)", "boil.Infer()"}}},
	{"C05-delete-record-not-pax", "C05", "C05.pax", []edit{{"pkg/operations/delete.go", "func (o *Operations) Delete(", "		hdr.Format = tar.FormatPAX // The STFS records below need PAX, whatever format the entry was archived in\n", ""}}},
	{"C16-regular-file-falls-back", "C16", "C16.rebuild-error-not-destructive", []edit{{"pkg/fs/filesystem.go", "func (f *STFS) Initialize(", "			if inUse {\n				return \"\", err\n			}\n\n", "			_ = inUse\n\n"}}},
	{"C13-depth-by-replace", "C13", "C13.no-sql-replace-by-parameter", []edit{{"pkg/persisters/metadata.go", "", "    length(substr(%v, length(?) + 1)) - length(replace(substr(%v, length(?) + 1), '/', '')) as depth", "    length(replace(%v, ?, '')) - length(replace(replace(%v, ?, ''), '/', '')) as depth"}}},
	{"C12-root-rename-by-spelling", "C12", "C12.root-rename-refused", []edit{{"pkg/fs/filesystem.go", "func (f *STFS) Rename(", " || pathext.IsRoot(oldname, false) {", " {"}}},
	{"C08-buffer-adopted-before-load", "C08", "C08.write-buffer-adopted-after-load", []edit{{"pkg/fs/file.go", "func (f *File) enterWriteMode()", "		// Read existing file into buffer\n", "		f.writeBuf = writeBuf\n\n		// Read existing file into buffer\n"}}},
	{"C03-empty-file-demands-signature", "C03", "C03.empty-content-skips-verify", []edit{{"pkg/recovery/fetch.go", "", "		if hdr.FileInfo().Mode().IsRegular() && hdr.Size == 0 {\n			return dstFile.Close()\n		}\n\n", ""}}},
	{"C05-update-without-lookup", "C05", "C05.update-entry-lookup", []edit{{"pkg/operations/update.go", "", "		existing, err := o.metadata.Metadata.GetHeader(context.Background(), file.Path)\n		if err != nil {\n			return []*tar.Header{}, err\n		}\n", "		existing := &config.Header{Typeflag: int64(tar.TypeReg)}\n		if file.Info.IsDir() {\n			existing.Typeflag = int64(tar.TypeDir)\n		}\n"}}},
	{"C14-negative-count-on-error", "C14", "C14.error-counts-are-zero", []edit{{"pkg/fs/file.go", "func (f *File) Read(p []byte)", "	if !f.flags.Read {\n		return 0, os.ErrPermission\n	}\n", "	if !f.flags.Read {\n		return -1, os.ErrPermission\n	}\n"}}},
	{"C16-any-reader-error-starts-over", "C16", "C16.reader-error-not-destructive", []edit{{"pkg/fs/filesystem.go", "func (f *STFS) Initialize(", "			if !errors.Is(err, os.ErrNotExist) {\n				return \"\", err\n			}\n\n", "			_ = errors.Is\n\n"}}},
	{"C14-write-mode-rewinds", "C14", "C14.write-mode-keeps-read-cursor", []edit{{"pkg/fs/file.go", "func (f *File) enterWriteMode()", "		position = int64(f.readOpReader.BytesRead)\n", "		position = 0\n"}}},
	{"C13-update-kind-unchecked", "C13", "C13.update-kind-checked", []edit{{"pkg/operations/update.go", "", "		if (existing.Typeflag == tar.TypeDir) != file.Info.IsDir() {\n			if file.Info.IsDir() {\n				return []*tar.Header{}, config.ErrIsFile\n			}\n\n			return []*tar.Header{}, config.ErrIsDirectory\n		}\n", "		_ = existing\n"}}},
	{"C06-restored-length-unchecked", "C06", "C06.restored-length-checked", []edit{{"pkg/recovery/fetch.go", "", "		if uncompressedSize, ok := hdr.PAXRecords[records.STFSRecordUncompressedSize]; ok {\n			if size, err := strconv.ParseInt(uncompressedSize, 10, 64); err == nil && restored != size {\n				return io.ErrUnexpectedEOF\n			}\n		}\n", "		_, _ = restored, strconv.Itoa\n"}}},
	{"C02-write-drops-owner", "C02", "C02.write-record-carries-owner", []edit{{"pkg/fs/file.go", "func (f *File) syncWithoutLocking()", "					Info: hdr.FileInfo(),\n", "					Info: f.info,\n"}}},
	{"C11-create-checks-parent-unlocked", "C11", "C11.fs-index-reads-under-lock", []edit{{"pkg/fs/filesystem.go", "func (f *STFS) Create(", "	// `OpenFile` checks the parent directory while it holds the I/O lock\n", "	if _, err := inventory.Stat(f.metadata, filepath.Dir(name), false, f.onHeader); err != nil {\n		return nil, os.ErrNotExist\n	}\n\n"}}},
	{"C11-stat-returns-live-info", "C11", "C11.handle-info-not-shared", []edit{{"pkg/fs/file.go", "func (f *File) Stat()", "	info := *f.info\n	if f.link != \"\" {\n		info.name = path.Base(f.link)\n	}\n\n	return &info, nil\n", "	_ = path.Base\n\n	return f.info, nil\n"}}},
	{"C14-negative-read-seek-accepted", "C14", "C14.negative-seek-refused", []edit{{"pkg/fs/file.go", "func (f *File) seekWithoutLocking(", "	// There is nothing in front of the first byte\n	if dst < 0 {\n		return 0, os.ErrInvalid\n	}\n\n	if f.readOpReader == nil", "	if f.readOpReader == nil"}}},
	{"C10-indexed-callback-unguarded", "C10", "C10.optional-callback-guarded", []edit{{"pkg/operations/delete.go", "func (o *Operations) Delete(", "			if o.onHeader != nil {\n				o.onHeader(&config.HeaderEvent{\n					Type:    config.HeaderEventTypeDelete,\n					Indexed: true,\n					Header:  hdr,\n				})\n			}\n", "			o.onHeader(&config.HeaderEvent{\n				Type:    config.HeaderEventTypeDelete,\n				Indexed: true,\n				Header:  hdr,\n			})\n"}}},
	{"C02-write-reverts-attributes", "C02", "C02.write-record-attributes-current", []edit{{"pkg/fs/file.go", "func (f *File) syncWithoutLocking()", "		); err == nil {\n			f.info = NewFileInfoFromTarHeader(current, f.log)\n		}\n", "		); err == nil {\n			_ = current\n		}\n"}}},
	{"C14-sync-hands-over-the-buffer", "C14", "C14.sync-keeps-buffer-open", []edit{{"pkg/fs/file.go", "func (f *File) syncWithoutLocking()", "						return keepOpen{f.writeBuf}, nil\n", "						return f.writeBuf, nil\n"}}},
	{"C14-sync-leaves-cursor-at-end", "C14", "C14.sync-keeps-buffer-open", []edit{{"pkg/fs/file.go", "func (f *File) syncWithoutLocking()", "		if _, err := f.writeBuf.Seek(position, io.SeekStart); err != nil {\n			return err\n		}\n", "		_ = position\n"}}},
	{"C02-excl-never-creates", "C02", "C02.exclusive-create", []edit{{"pkg/fs/filesystem.go", "func (f *STFS) OpenFile(", "				if !f.readOnly && flag&os.O_CREATE != 0 {\n", "				if !f.readOnly && flag&os.O_CREATE != 0 && flag&os.O_EXCL == 0 {\n"}}},
	{"C02-excl-opens-existing", "C02", "C02.exclusive-create", []edit{{"pkg/fs/filesystem.go", "func (f *STFS) OpenFile(", "	if err == nil && flag&os.O_CREATE != 0 && flag&os.O_EXCL != 0 {\n		// `O_EXCL` asks for an entry that does not exist yet\n		return nil, os.ErrExist\n	}\n\n", ""}}},
	{"C05-padding-only-below-one-record", "C05", "C05.tape-padding-modulo-record", []edit{{"internal/tarext/write.go", "", "				if rest := counter.BytesRead % (config.MagneticTapeBlockSize * recordSize); rest > 0 {\n", "				if rest := counter.BytesRead; config.MagneticTapeBlockSize*recordSize-rest > 0 {\n"}}},
	{"C13-limit-inside-like-statement", "C13", "C13.limit-after-filter", []edit{{"pkg/persisters/metadata.go", "func (p *MetadataPersister) GetHeaderDirectChildren(", "		if err := queries.Raw(\n			query,\n			prefix,\n			prefix,\n			prefix+\"%\",\n			rootDepth,\n			rootDepth+1,\n		).Bind(", "		if err := queries.Raw(\n			query+`limit ?`,\n			prefix,\n			prefix,\n			prefix+\"%\",\n			rootDepth,\n			rootDepth+1,\n			limit+1,\n		).Bind("}}},
	{"C06-cut-member-reads-as-empty", "C06", "C06.missing-member-is-an-error", []edit{{"pkg/recovery/fetch.go", "", "		if err == io.EOF {\n			return io.ErrUnexpectedEOF\n		}\n\n", ""}}},
	{"C01-size-zeroed-behind-snapshot-without-record", "C01", "C01.snapshot-window", []edit{
		{"pkg/operations/update.go", "", "			hdr.PAXRecords[records.STFSRecordUncompressedSize] = strconv.Itoa(int(hdr.Size))\n			hdr.Size = 0 // Don't try to seek after the record\n", "			hdrToAppend := *hdr\n			hdrs = append(hdrs, &hdrToAppend)\n"},
		{"pkg/operations/update.go", "hdr.PAXRecords[records.STFSRecordReplacesContent] = records.STFSRecordReplacesContentFalse", "			hdrToAppend := *hdr\n			hdrs = append(hdrs, &hdrToAppend)\n\n			if err := signature.SignHeader(", "			hdr.Size = 0\n\n			if err := signature.SignHeader("},
	}},
	{"C08-hollow-signature-eof-string", "C08", "C08.hollow-signature-is-invalid", []edit{{"pkg/signature/verify.go", "", "\t\t\t// A signature that holds no packet at all is invalid, not the end of anything: io.EOF would read as a clean end\n\t\t\t// of the content further up\n\t\t\tif err == io.EOF {\n\t\t\t\treturn config.ErrSignatureInvalid\n\t\t\t}\n\n", ""}}},
	{"C18-hollow-signature-eof-stream", "C18", "C18.hollow-signature-is-invalid", []edit{{"pkg/signature/verify.go", "", "\t\t\t// A signature that holds no packet at all is invalid, not the end of anything: io.EOF would read as a clean end\n\t\t\t// of the content further up\n\t\t\tif err == io.EOF {\n\t\t\t\treturn nil, nil, config.ErrSignatureInvalid\n\t\t\t}\n\n", ""}}},
	{"C11-readat-two-critical-sections", "C11", "C11.handle-calls-are-one-critical-section", []edit{{"pkg/fs/file.go", "", "\t// One critical section: another call on this handle must not move the cursor between the seek and the read\n\tf.ioLock.Lock()\n\tdefer f.ioLock.Unlock()\n\n\tif f.info.IsDir() {\n\t\treturn 0, config.ErrIsDirectory\n\t}\n\n\tif _, err := f.seekWithoutLocking(off, io.SeekStart); err != nil {\n\t\treturn 0, err\n\t}\n\n\treturn f.readWithoutLocking(p)\n}\n", "\tf.ioLock.Lock()\n\tisDir := f.info.IsDir()\n\tf.ioLock.Unlock()\n\n\tif isDir {\n\t\treturn 0, config.ErrIsDirectory\n\t}\n\n\tif _, err := f.Seek(off, io.SeekStart); err != nil {\n\t\treturn 0, err\n\t}\n\n\treturn f.Read(p)\n}\n"}}},
	{"C14-readat-two-critical-sections", "C14", "C14.handle-calls-are-one-critical-section", []edit{{"pkg/fs/file.go", "", "\t// One critical section: another call on this handle must not move the cursor between the seek and the read\n\tf.ioLock.Lock()\n\tdefer f.ioLock.Unlock()\n\n\tif f.info.IsDir() {\n\t\treturn 0, config.ErrIsDirectory\n\t}\n\n\tif _, err := f.seekWithoutLocking(off, io.SeekStart); err != nil {\n\t\treturn 0, err\n\t}\n\n\treturn f.readWithoutLocking(p)\n}\n", "\tf.ioLock.Lock()\n\tisDir := f.info.IsDir()\n\tf.ioLock.Unlock()\n\n\tif isDir {\n\t\treturn 0, config.ErrIsDirectory\n\t}\n\n\tif _, err := f.Seek(off, io.SeekStart); err != nil {\n\t\treturn 0, err\n\t}\n\n\treturn f.Read(p)\n}\n"}}},
	{"C10-decoded-pax-map-unguarded", "C10", "C10.pax-records-map-present", []edit{{"internal/converters/header.go", "", "\tif paxRecords == nil {\n\t\tpaxRecords = map[string]string{}\n\t}\n", ""}}},
	{"C05-decoded-pax-map-unguarded", "C05", "C05.pax-records-map-present", []edit{{"internal/converters/header.go", "", "\tif paxRecords == nil {\n\t\tpaxRecords = map[string]string{}\n\t}\n", ""}}},
	{"C09-cli-encryption-from-signature-flag", "C09", "C09.cli-pipe-config-from-its-flags", []edit{{"cmd/stfs/cmd/operation_archive.go", "", "Encryption:  viper.GetString(encryptionFlag),", "Encryption:  viper.GetString(signatureFlag),"}}},
	{"C14-positioned-read-skips-seek", "C14", "C14.positioned-ops-seek-first", []edit{{"pkg/fs/file.go", "", "\tif _, err := f.seekWithoutLocking(off, io.SeekStart); err != nil {\n\t\treturn 0, err\n\t}\n\n\treturn f.readWithoutLocking(p)\n", "\tif off != 0 {\n\t\tif _, err := f.seekWithoutLocking(off, io.SeekStart); err != nil {\n\t\t\treturn 0, err\n\t\t}\n\t}\n\n\treturn f.readWithoutLocking(p)\n"}}},
	{"C15-open-purges-tombstones", "C15", "C15.only-the-mutators-write-rows", []edit{{"pkg/persisters/metadata.go", "func (p *MetadataPersister) Open() error {", "	root, err := p.GetRootPath(context.Background())\n", "	if _, err := queries.Raw(\"delete from headers where deleted = 1\").Exec(p.sqlite.DB); err != nil {\n		return err\n	}\n\n	root, err := p.GetRootPath(context.Background())\n"}}},
	{"C17-metadata-update-zeroes-size", "C17", "C17.metadata-update-keeps-size", []edit{{"pkg/operations/update.go", "", "			hdr.PAXRecords[records.STFSRecordUncompressedSize] = strconv.Itoa(int(hdr.Size))\n			hdr.Size = 0 // Don't try to seek after the record\n", "			hdr.Size = 0 // Don't try to seek after the record\n"}}},
	{"C14-truncate-empties-before-growing", "C14", "C14.truncate-preserves-content", []edit{{"pkg/fs/file.go", "func (f *File) Truncate(", "	if err := f.writeBuf.Truncate(size); err != nil {\n", "	if err := f.writeBuf.Truncate(0); err != nil {\n"}}},
	{"C14-truncation-only-on-first-write", "C14", "C14.truncate-at-open", []edit{{"pkg/fs/filesystem.go", "func (f *STFS) OpenFile(", "	if flags.Truncate && flags.Write && hdr.Typeflag != tar.TypeDir && hdr.Size > 0 {\n		if err := file.enterWriteMode(); err != nil {\n			return nil, err\n		}\n	}\n", ""}}},
	{"C02-rename-onto-itself", "C02", "C02.rename-onto-itself-kept", []edit{{"pkg/fs/filesystem.go", "func (f *STFS) Rename(", "		if target.Name == source.Name && target.Linkname == source.Linkname {\n			return nil\n		}\n\n", ""}}},
	{"C12-like-filter-removed", "C12", "C12.like-safety", []edit{{"pkg/persisters/metadata.go", "func (p *MetadataPersister) GetHeaderChildren(", "		if !strings.HasPrefix(hdr.Name, childPrefix) {\n			continue\n		}\n\n", ""}}},
	{"C12-ancestry-guard-removed", "C12", "C12.ancestry-guard", []edit{{"pkg/fs/filesystem.go", "", "	if strings.HasPrefix(\n\t\tstrings.TrimPrefix(newname, string(filepath.Separator)),\n\t\tstrings.TrimPrefix(strings.TrimSuffix(oldname, string(filepath.Separator)), string(filepath.Separator))+string(filepath.Separator),\n\t) {\n\t\treturn os.ErrInvalid\n\t}\n", "	_ = strings.TrimSuffix\n"}}},
	{"C12-ancestry-guard-textual", "C12", "C12.ancestry-guard", []edit{{"pkg/fs/filesystem.go", "", "		strings.TrimPrefix(newname, string(filepath.Separator)),\n\t\tstrings.TrimPrefix(strings.TrimSuffix(oldname, string(filepath.Separator)), string(filepath.Separator))+string(filepath.Separator),\n", "		newname,\n\t\tstrings.TrimSuffix(oldname, string(filepath.Separator))+string(filepath.Separator),\n"}}},
	{"C12-descendants-not-moved", "C12", "C12.subtree-coverage", []edit{{"pkg/operations/move.go", "", "		headersToMove = append(headersToMove, dbhdrs...)\n", "		_ = dbhdrs\n"}}},
	// C13
	{"C13-parent-kind-unchecked", "C13", "C13.parent-is-directory", []edit{{"pkg/fs/filesystem.go", "func (f *STFS) Mkdir(", "	} else if parent.Typeflag != tar.TypeDir {\n", "	} else if parent == nil {\n"}}},
	{"C13-tombstones-in-link-lookup", "C13", "C13.live-filter", []edit{{"pkg/persisters/metadata.go", "func (p *MetadataPersister) GetHeaderByLinkname(", "		qm.Where(models.HeaderColumns.Deleted+\" != 1\"),\n", ""}}},
	{"C13-self-in-listing", "C13", "C13.no-self-in-listing", []edit{{"pkg/persisters/metadata.go", "func (p *MetadataPersister) GetHeaderChildren(", "		if name != prefix && name != prefix+\"/\" {\n", "		if name != prefix {\n"}}},
	{"C13-mkdirall-splitlist", "C13", "C13.all-ancestors", []edit{{"pkg/fs/filesystem.go", "", "	parts := strings.Split(path, string(filepath.Separator))\n", "	parts := filepath.SplitList(path)\n"}}},
	// C14
	{"C14-seek-end-sign", "C14", "C14.whence-algebra", []edit{{"pkg/fs/file.go", "", "		dst = f.info.Size() + offset\n", "		dst = f.info.Size() - offset\n"}}},
	{"C14-write-without-flag", "C14", "C14.access-gating", []edit{{"pkg/fs/file.go", "func (f *File) Write(p []byte)", "	if !f.flags.Write {\n		return 0, os.ErrPermission\n	}\n\n", ""}}},
	{"C14-flush-skips-empty", "C14", "C14.flush-on-close", []edit{{"pkg/fs/file.go", "func (f *File) syncWithoutLocking()", "			true,\n			true,\n		); err != nil {\n", "			true,\n			false,\n		); err != nil {\n"}}},
	{"C14-seek-returns-count", "C14", "C14.seek-returns-position", []edit{{"pkg/fs/file.go", "", "	_, err := io.CopyN(io.Discard, f.readOpReader, dst-int64(f.readOpReader.BytesRead))\n", "	n, err := io.CopyN(io.Discard, f.readOpReader, dst-int64(f.readOpReader.BytesRead))\n"}, {"pkg/fs/file.go", "", "	return dst, nil\n}\n\n// Inventory", "	return n, nil\n}\n\n// Inventory"}}},
	// C15
	{"C15-removeall-unguarded", "C15", "C15.guarded-reach", []edit{{"pkg/fs/filesystem.go", "func (f *STFS) RemoveAll(", "	if f.readOnly {\n		return os.ErrPermission\n	}\n\n", ""}}},
	{"C15-readonly-grants-write", "C15", "C15.flag-integrity", []edit{{"pkg/fs/filesystem.go", "func (f *STFS) OpenFile(", "			flags.Read = true\n", "			flags.Read = true\n			flags.Write = (flag & O_ACCMODE) == os.O_RDWR\n"}}},
	{"C15-wrong-error-class", "C15", "C15.permission-error", []edit{{"pkg/fs/filesystem.go", "func (f *STFS) Chown(", "		return os.ErrPermission\n", "		return os.ErrInvalid\n"}}},
	// C16
	{"C16-rebuild-when-root-differs", "C16", "C16.no-append-when-root-exists", []edit{{"pkg/fs/filesystem.go", "func (f *STFS) Initialize(", "	if err == config.ErrNoRootDirectory {\n", "	if err == config.ErrNoRootDirectory || existingRoot != rootProposal {\n"}}},
	{"C16-serve-overwrites", "C16", "C16.no-truncate-on-open", []edit{{"cmd/stfs/cmd/serve_http.go", "tape.NewTapeManager(", "			false,\n", "			true,\n"}}},
	// C17
	{"C17-unsanitised-linkname", "C17", "C17.sanitise-before-query", []edit{{"pkg/persisters/metadata.go", "func (p *MetadataPersister) GetHeaderByLinkname(", "	linkname = p.getSanitizedPath(ctx, linkname)\n\n", ""}}},
	{"C17-new-root-spelling", "C17", "C17.root-shape-agreement", []edit{{"internal/pathext/path.go", "", "path == \"./\"", "path == \"./\" || path == \"..\""}}},
	// C18
	{"C18-pointer-vs-value-key", "C18", "C18.role-tables", []edit{{"pkg/keys/recipient.go", "func ParseSignerRecipient(", "		return recipient, nil\n", "		return &recipient, nil\n"}}},
	{"C18-password-ignored", "C18", "C18.password-flow", []edit{{"pkg/keys/identity.go", "func ParseSignerIdentity(", "minisign.DecryptKey(password, privkey)", "minisign.DecryptKey(\"\", privkey)"}}},
}

func copyTree(src, dst string) error {
	return filepath.WalkDir(src, func(p string, d fs.DirEntry, err error) error {
		if err != nil {
			return err
		}
		rel, _ := filepath.Rel(src, p)
		if d.IsDir() {
			if d.Name() == ".git" {
				return filepath.SkipDir
			}
			return os.MkdirAll(filepath.Join(dst, rel), 0o755)
		}
		if !d.Type().IsRegular() {
			return nil
		}
		in, err := os.Open(p)
		if err != nil {
			return err
		}
		defer in.Close()
		out, err := os.Create(filepath.Join(dst, rel))
		if err != nil {
			return err
		}
		defer out.Close()
		_, err = io.Copy(out, in)
		return err
	})
}

func applyEdit(root string, e edit) (bool, error) {
	path := filepath.Join(root, e.File)
	b, err := os.ReadFile(path)
	if err != nil {
		return false, nil // anchor file gone: skipped
	}
	s := string(b)
	start := 0
	if e.After != "" {
		i := strings.Index(s, e.After)
		if i < 0 {
			return false, nil
		}
		start = i
	}
	j := strings.Index(s[start:], e.Old)
	if j < 0 {
		return false, nil
	}
	j += start
	s = s[:j] + e.New + s[j+len(e.Old):]
	return true, os.WriteFile(path, []byte(s), 0o644)
}

func runVariant(v variant, repo, verif string) selftestResult {
	res := selftestResult{Name: v.Name, Rule: v.Rule}
	tmp, err := os.MkdirTemp("", "stfs-verif-")
	if err != nil {
		res.Status, res.Detail = "broken", err.Error()
		return res
	}
	defer os.RemoveAll(tmp)
	scratch := filepath.Join(tmp, "repo")
	tverif := filepath.Join(tmp, "verif")
	os.MkdirAll(filepath.Join(tverif, "evidence"), 0o755)
	if b, err := os.ReadFile(filepath.Join(verif, "known_findings.json")); err == nil {
		os.WriteFile(filepath.Join(tverif, "known_findings.json"), b, 0o644)
	}
	if err := copyTree(repo, scratch); err != nil {
		res.Status, res.Detail = "broken", err.Error()
		return res
	}
	for _, e := range v.Edits {
		ok, err := applyEdit(scratch, e)
		if err != nil {
			res.Status, res.Detail = "broken", err.Error()
			return res
		}
		if !ok {
			res.Status, res.Detail = "skipped", "anchor text of this variant no longer exists in "+e.File
			return res
		}
	}
	exe, _ := os.Executable()
	cmd := exec.Command(exe, "-p", v.Prop, "-tier", "quick", "-repo", scratch, "-verif", tverif)
	out, _ := cmd.CombinedOutput()
	text := string(out)
	if strings.Contains(text, "BROKEN: type/load errors") || strings.Contains(text, "BROKEN: analyzer panic") {
		res.Status = "skipped"
		if strings.Contains(text, "analyzer panic") {
			res.Status = "broken"
		}
		res.Detail = "variant does not load: " + firstLine(text, "BROKEN")
		return res
	}
	for _, line := range strings.Split(text, "\n") {
		t := strings.TrimSpace(line)
		if strings.HasPrefix(t, "VIOLATED ") || strings.HasPrefix(t, "UNDECIDED ") {
			key := strings.Fields(t)[1]
			if strings.HasPrefix(key, v.Rule) {
				res.Status, res.Detail = "caught", truncate(t, 200)
				return res
			}
		}
	}
	res.Status, res.Detail = "missed", "no obligation of rule "+v.Rule+" was reported; checker said: "+firstLine(text, "result ")
	return res
}

func firstLine(text, prefix string) string {
	for _, l := range strings.Split(text, "\n") {
		if strings.HasPrefix(l, prefix) {
			return truncate(l, 300)
		}
	}
	return ""
}

// selftestWorkers: the corpora run as sub-processes on scratch copies; this many at a time.
const selftestWorkers = 8

func selftestSummary(p *Property, repo, verif string) []selftestResult {
	var tasks []func() selftestResult
	for _, v := range corpus {
		if v.Prop != p.ID {
			continue
		}
		v := v
		tasks = append(tasks, func() selftestResult { return runVariant(v, repo, verif) })
	}
	if os.Getenv("STFS_SELFTEST") != "variants" { // development aid: the anchored text variants only
		tasks = append(tasks, seededTasks(p, repo, verif)...)
		tasks = append(tasks, benignTasks(p, repo, verif)...)
	}
	out := make([]selftestResult, len(tasks))
	sem := make(chan struct{}, selftestWorkers)
	var wg sync.WaitGroup
	for i, t := range tasks {
		wg.Add(1)
		sem <- struct{}{}
		go func(i int, t func() selftestResult) {
			defer wg.Done()
			defer func() { <-sem }()
			out[i] = t()
		}(i, t)
	}
	wg.Wait()
	for _, r := range out {
		fmt.Printf("sensitivity %-40s %-8s %s\n", r.Name, r.Status, r.Detail)
	}
	return out
}

// benignRegression applies every behaviour-preserving refactoring under <verif>/benign to a scratch copy and requires
// this property's check to stay silent (exit 0): a report there is a false alarm of the checker.
func benignTasks(p *Property, repo, verif string) []func() selftestResult {
	var out []func() selftestResult
	patches, _ := filepath.Glob(filepath.Join(verif, "benign", "*", "patch.diff"))
	sort.Strings(patches)
	for _, pf := range patches {
		pf := pf
		out = append(out, func() selftestResult { return benignOne(p, repo, verif, pf) })
	}
	return out
}

func benignOne(p *Property, repo, verif, pf string) selftestResult {
	{
		name := "benign/" + filepath.Base(filepath.Dir(pf))
		res := selftestResult{Name: name, Rule: p.ID + " must stay silent"}
		tmp, err := os.MkdirTemp("", "stfs-verif-")
		if err != nil {
			res.Status, res.Detail = "broken", err.Error()
			return res
		}
		scratch := filepath.Join(tmp, "repo")
		tverif := filepath.Join(tmp, "verif")
		os.MkdirAll(filepath.Join(tverif, "evidence"), 0o755)
		if kb, err := os.ReadFile(filepath.Join(verif, "known_findings.json")); err == nil {
			os.WriteFile(filepath.Join(tverif, "known_findings.json"), kb, 0o644)
		}
		if err := copyTree(repo, scratch); err != nil {
			res.Status, res.Detail = "broken", err.Error()
		} else {
			ap := exec.Command("git", "apply", pf)
			ap.Dir = scratch
			if o, err := ap.CombinedOutput(); err != nil {
				res.Status, res.Detail = "skipped", "patch no longer applies: "+truncate(strings.TrimSpace(string(o)), 120)
			} else {
				exe, _ := os.Executable()
				cmd := exec.Command(exe, "-p", p.ID, "-tier", "quick", "-repo", scratch, "-verif", tverif)
				o, err := cmd.CombinedOutput()
				text := string(o)
				switch {
				case strings.Contains(text, "BROKEN: type/load errors"):
					res.Status, res.Detail = "skipped", "patched tree does not load"
				case err == nil:
					res.Status, res.Detail = "caught", "silent on a behaviour-preserving refactoring" // "caught" = expectation met
				default:
					res.Status = "missed" // expectation not met: the checker raised an alarm
					for _, l := range strings.Split(text, "\n") {
						t := strings.TrimSpace(l)
						if strings.HasPrefix(t, "VIOLATED ") || strings.HasPrefix(t, "UNDECIDED ") || strings.HasPrefix(t, "UNRESOLVED ") || strings.HasPrefix(t, "BROKEN") {
							res.Detail = "FALSE ALARM on a behaviour-preserving refactoring: " + truncate(t, 200)
							break
						}
					}
				}
			}
		}
		os.RemoveAll(tmp)
		return res
	}
}

// seededRegression re-applies every independently seeded change under <verif>/seeded that this property's check is
// recorded to report (meta.json caught_by) to a scratch copy of the repository and requires it to be reported again.
func seededTasks(p *Property, repo, verif string) []func() selftestResult {
	var out []func() selftestResult
	dirs, _ := filepath.Glob(filepath.Join(verif, "seeded", "*", "meta.json"))
	sort.Strings(dirs)
	for _, mf := range dirs {
		b, err := os.ReadFile(mf)
		if err != nil {
			continue
		}
		var meta struct {
			CaughtBy []string `json:"caught_by"`
		}
		if json.Unmarshal(b, &meta) != nil {
			continue
		}
		mine := false
		for _, c := range meta.CaughtBy {
			if c == p.ID {
				mine = true
			}
		}
		if !mine {
			continue
		}
		mf := mf
		out = append(out, func() selftestResult { return seededOne(p, repo, verif, mf) })
	}
	return out
}

func seededOne(p *Property, repo, verif, mf string) selftestResult {
	{
		name := "seeded/" + filepath.Base(filepath.Dir(mf))
		res := selftestResult{Name: name, Rule: p.ID}
		tmp, err := os.MkdirTemp("", "stfs-verif-")
		if err != nil {
			res.Status, res.Detail = "broken", err.Error()
			return res
		}
		scratch := filepath.Join(tmp, "repo")
		tverif := filepath.Join(tmp, "verif")
		os.MkdirAll(filepath.Join(tverif, "evidence"), 0o755)
		if kb, err := os.ReadFile(filepath.Join(verif, "known_findings.json")); err == nil {
			os.WriteFile(filepath.Join(tverif, "known_findings.json"), kb, 0o644)
		}
		if err := copyTree(repo, scratch); err != nil {
			res.Status, res.Detail = "broken", err.Error()
		} else {
			ap := exec.Command("git", "apply", filepath.Join(filepath.Dir(mf), "patch.diff"))
			ap.Dir = scratch
			if o, err := ap.CombinedOutput(); err != nil {
				res.Status, res.Detail = "skipped", "patch no longer applies: "+truncate(strings.TrimSpace(string(o)), 120)
			} else {
				exe, _ := os.Executable()
				cmd := exec.Command(exe, "-p", p.ID, "-tier", "quick", "-repo", scratch, "-verif", tverif)
				o, _ := cmd.CombinedOutput()
				text := string(o)
				switch {
				case strings.Contains(text, "BROKEN: type/load errors"):
					res.Status, res.Detail = "skipped", "patched tree does not load"
				case strings.Contains(text, "\nVIOLATION property="+p.ID) || strings.Contains(text, "UNRESOLVED anchor"):
					res.Status = "caught"
					for _, l := range strings.Split(text, "\n") {
						t := strings.TrimSpace(l)
						if strings.HasPrefix(t, "VIOLATED ") || strings.HasPrefix(t, "UNDECIDED ") || strings.HasPrefix(t, "UNRESOLVED ") {
							res.Detail = truncate(t, 200)
							break
						}
					}
				default:
					res.Status, res.Detail = "missed", "seeded change no longer reported: "+firstLine(text, "result ")
				}
			}
		}
		os.RemoveAll(tmp)
		return res
	}
}

func runSelftest(p *Property, repo, verif string) int {
	rc := 0
	for _, r := range selftestSummary(p, repo, verif) {
		if r.Status == "missed" || r.Status == "broken" {
			rc = 2
		}
	}
	return rc
}
