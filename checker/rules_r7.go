package main

// Rules added after the seventh round of independently seeded changes (see DESIGN.md §7.9).

import (
	"fmt"
	"go/ast"
	"go/constant"
	"go/token"
	"go/types"
	"strings"

	"golang.org/x/tools/go/cfg"
)

func init() {
	extend("C05", ruleAppendSeeksToEnd("C05.append-seeks-to-end"), ruleNoUnflushedBuffer("C05.no-unflushed-buffer"))
	extend("C03", ruleNoUnflushedBuffer("C03.no-unflushed-buffer"))
	extend("C14", ruleReadStreamClosedBeforeLoad("C14.read-stream-closed-before-load"))
	extend("C10", ruleReadStreamClosedBeforeLoad("C10.read-stream-closed-before-load"))
	extend("C13", ruleListingUnfiltered("C13.listing-unfiltered"))
	extend("C06", ruleContentOnlyThroughTarReader("C06.content-only-through-tar-reader"))
	extend("C08", ruleContentOnlyThroughTarReader("C08.content-only-through-tar-reader"))
	extend("C18", ruleNoLengthGateOnSignatures("C18.no-length-gate-on-signatures"))
	extend("C04", ruleMoveNoopAfterNormalisation("C04.move-noop-after-normalisation"), ruleTombstonePositionUnconditional("C04.tombstone-position-unconditional"))
	extend("C01", ruleTombstonePositionUnconditional("C01.tombstone-position-unconditional"))
	extend("C07", ruleUpdateAppliedWhenRowFound("C07.update-applied-when-row-found"))
	extend("C14", ruleWriteModeKeepsReadCursor("C14.write-mode-keeps-read-cursor"))
	extend("C13", ruleUpdateKindChecked("C13.update-kind-checked"))
	extend("C02", ruleUpdateKindChecked("C02.update-kind-checked"))
}

// ruleWriteModeKeepsReadCursor: a handle has one cursor. When it turns from reading to writing, the write buffer is
// positioned where the read stream stood: the absolute seek that positions the buffer of a non-appending handle takes
// its offset from the read stream's byte count, not from a constant.
func ruleWriteModeKeepsReadCursor(rule string) func(*Ctx) {
	return func(c *Ctx) {
		c.floor(rule, 1, "the positioning seek of File.enterWriteMode")
		f := c.fn("pkg/fs", "(*File).enterWriteMode")
		writeBuf := c.field("pkg/fs", "File", "writeBuf")
		appendField := c.field("pkg/fs", "FileFlags", "Append")
		if f == nil || writeBuf == nil || appendField == nil {
			return
		}
		info := f.Pkg.TypesInfo
		n := 0
		for _, cs := range f.calls {
			se, ok := ast.Unparen(cs.Call.Fun).(*ast.SelectorExpr)
			if !ok || se.Sel.Name != "Seek" || selField(info, se.X) != writeBuf || len(cs.Call.Args) != 2 {
				continue
			}
			// the seek for handles that do not append: under a condition on flags.Append being false
			nonAppend := false
			for _, cl := range enclosingCondsFlow(info, f.Body(), cs.Call) {
				if selField(info, cl.e) == appendField && !cl.pos {
					nonAppend = true
				}
				if u, ok := ast.Unparen(cl.e).(*ast.UnaryExpr); ok && u.Op == token.NOT && selField(info, u.X) == appendField && cl.pos {
					nonAppend = true
				}
			}
			if !nonAppend {
				continue
			}
			n++
			fromStream := false
			// the offset, or some assignment to the variable it names, mentions the read stream's byte count
			var offsetObj types.Object = objOfIdent(info, cs.Call.Args[0])
			check := func(e ast.Node) {
				ast.Inspect(e, func(m ast.Node) bool {
					if s2, ok := m.(*ast.SelectorExpr); ok && s2.Sel.Name == "BytesRead" {
						fromStream = true
					}
					return !fromStream
				})
			}
			check(cs.Call.Args[0])
			// every value the offset variable is given, following copies of other locals (`var p = position`)
			seenObj := map[types.Object]bool{}
			var follow func(o types.Object, depth int)
			follow = func(o types.Object, depth int) {
				if o == nil || seenObj[o] || depth > 3 {
					return
				}
				seenObj[o] = true
				src := func(e ast.Expr) {
					check(e)
					if ro := objOfIdent(info, e); ro != nil {
						follow(ro, depth+1)
					}
				}
				walkOwn(f.Body(), func(nd ast.Node) {
					switch x := nd.(type) {
					case *ast.AssignStmt:
						if len(x.Lhs) == len(x.Rhs) {
							for i, l := range x.Lhs {
								if objOfIdent(info, l) == o {
									src(x.Rhs[i])
								}
							}
						}
					case *ast.ValueSpec:
						for i, nm := range x.Names {
							if info.Defs[nm] == o && i < len(x.Values) {
								src(x.Values[i])
							}
						}
					}
				})
			}
			follow(offsetObj, 0)
			c.verdictIf(fromStream, rule, f, fmt.Sprintf("positioning seek#%d", n), cs.Call.Pos(), "the write buffer is positioned where the read stream stood",
				"entering write mode positions the buffer of a non-appending handle at "+exprString(cs.Call.Args[0])+", whatever the handle's position was: Read(3) or Seek(3) followed by Write overwrites the first bytes of the file instead of those at offset 3, and writing after reading to the end overwrites the file from the start")
		}
		if n == 0 {
			c.unresolved("no positioning seek for non-appending handles found in File.enterWriteMode")
		}
	}
}

// ruleUpdateKindChecked: Update replaces an entry only by a record of the entry's own kind: between the lookup of the
// member and the first WriteHeader the looked-up row's type flag is tested. Without it a handle that is still open on
// a removed file writes its content over the directory that has taken its place.
func ruleUpdateKindChecked(rule string) func(*Ctx) {
	return func(c *Ctx) {
		c.floor(rule, 1, "WriteHeader sites in Operations.Update")
		n := 0
		for _, ws := range writeHeaderSites(c) {
			f, info := ws.f, ws.f.Pkg.TypesInfo
			if f.Name != "(*Operations).Update" {
				continue
			}
			n++
			// rows looked up from the index in this function
			rows := map[types.Object]bool{}
			walkOwn(f.Body(), func(nd ast.Node) {
				as, ok := nd.(*ast.AssignStmt)
				if !ok || len(as.Rhs) != 1 || len(as.Lhs) < 2 {
					return
				}
				if call, ok := ast.Unparen(as.Rhs[0]).(*ast.CallExpr); ok {
					if fn, ok := calleeObj(info, call).(*types.Func); ok && strings.HasPrefix(fn.Name(), "GetHeader") {
						if o := objOfIdent(info, as.Lhs[0]); o != nil {
							rows[o] = true
						}
					}
				}
			})
			fl := c.flow(f)
			okk, _ := fl.dominatedBy(ws.cs.Call, func(nd ast.Node) bool {
				e, ok := nd.(ast.Expr)
				if !ok {
					return false
				}
				found := false
				ast.Inspect(e, func(m ast.Node) bool {
					if s2, ok := m.(*ast.SelectorExpr); ok && s2.Sel.Name == "Typeflag" && rows[objOfIdent(info, s2.X)] {
						found = true
					}
					return !found
				})
				return found
			}, nil)
			c.verdictIf(okk, rule, f, fmt.Sprintf("WriteHeader#%d kind checked", ws.ord), ws.cs.Call.Pos(), "the entry's kind is compared with the record's before anything is written",
				"Update writes its record without comparing the kind of the entry it found with the kind of what it writes: a handle still open on a removed file whose path has meanwhile become a directory turns that directory into a regular file, and the entries beneath it are left without a parent")
		}
		if n == 0 {
			c.unresolved("no WriteHeader site found in Operations.Update")
		}
	}
}

// ruleEmptinessCheckUnlimited: the persister applies a listing limit in SQL BEFORE it drops the rows that only matched
// through LIKE's wildcards and case folding. A limited listing can therefore come back empty although the directory
// has children; the "is this directory empty?" decision of Remove (and of Rename onto an existing directory) has to
// list without a limit.
func ruleEmptinessCheckUnlimited(rule string) func(*Ctx) {
	return func(c *Ctx) {
		c.floor(rule, 1, "listing behind the directory-not-empty decision of removeWithoutLocking")
		f := c.fn("pkg/fs", "(*STFS).removeWithoutLocking")
		list := c.fn("pkg/inventory", "List")
		if f == nil || list == nil {
			return
		}
		info := f.Pkg.TypesInfo
		li := -1
		sig := list.Obj.Type().(*types.Signature)
		for i := 0; i < sig.Params().Len(); i++ {
			if sig.Params().At(i).Name() == "limit" {
				li = i
			}
		}
		if li < 0 {
			c.unresolved("parameter limit of inventory.List")
			return
		}
		n := 0
		for _, cs := range f.calls {
			if cs.Target != list || len(cs.Call.Args) <= li {
				continue
			}
			n++
			tv := info.Types[cs.Call.Args[li]]
			unlimited := tv.Value != nil && tv.Value.Kind() == constant.Int && constant.Sign(tv.Value) <= 0
			c.verdictIf(unlimited, rule, f, fmt.Sprintf("List#%d limit", n), cs.Call.Args[li].Pos(), "the emptiness check lists without a limit",
				"the directory-not-empty check lists with the limit "+exprString(cs.Call.Args[li])+": the limit is applied in SQL before rows that matched only through LIKE's wildcards or case folding are dropped, so look-alike rows of a sibling (`/aXb` next to `/a_b`) can use it up and a non-empty directory passes for empty - Remove, and Rename onto it, then delete it with everything beneath")
		}
		if n == 0 {
			c.unresolved("removeWithoutLocking no longer lists the directory through inventory.List")
		}
	}
}

// ruleAppendSeeksToEnd: a tape opened for appending is wound to the end of data, whatever position the head was left
// at: the only conditions around GoToEndOfTape are the overwrite flag and the drive kind.
func ruleAppendSeeksToEnd(rule string) func(*Ctx) {
	return func(c *Ctx) {
		c.floor(rule, 1, "GoToEndOfTape call in OpenTapeWriteOnly")
		f := c.fn("pkg/tape", "OpenTapeWriteOnly")
		if f == nil {
			return
		}
		info := f.Pkg.TypesInfo
		ov := roleVar(f, "overwrite")
		n := 0
		for _, cs := range f.calls {
			fn, ok := cs.Callee.(*types.Func)
			if !ok || fn.Name() != "GoToEndOfTape" {
				continue
			}
			n++
			var foreign []string
			for _, cl := range enclosingCondsFlow(info, f.Body(), cs.Call) {
				if containsNode(cl.e, cs.Call) {
					continue
				}
				okCond := true
				ast.Inspect(cl.e, func(m ast.Node) bool {
					switch x := m.(type) {
					case *ast.CallExpr:
						okCond = false
					case *ast.Ident:
						o := info.Uses[x]
						if v, isVar := o.(*types.Var); isVar && o != types.Object(ov) && v.Name() != "isRegular" {
							okCond = false
						}
					}
					return okCond
				})
				if !okCond {
					foreign = append(foreign, exprString(cl.e))
				}
			}
			c.verdictIf(len(foreign) == 0, rule, f, fmt.Sprintf("GoToEndOfTape#%d", n), cs.Call.Pos(), "appending always winds to the end of data first",
				"winding to the end of data before an append depends on "+strings.Join(foreign, ", ")+": after a read or restore left the head in the middle of the tape, the next append overwrites everything behind it")
		}
		if n == 0 {
			c.unresolved("OpenTapeWriteOnly no longer calls GoToEndOfTape")
		}
	}
}

// ruleNoUnflushedBuffer: a bufio.Writer in the compression stage must be flushed by whoever closes the stage. Wrapping
// it in the no-op Flush/Close adapters leaves the tail of every member (everything, for members smaller than the
// buffer) in memory: the tar stream stays well-formed, the content is short.
func ruleNoUnflushedBuffer(rule string) func(*Ctx) {
	return func(c *Ctx) {
		c.floor(rule, 2, "no-op flush/close adapters in pkg/compression")
		n := 0
		for _, f := range c.Funcs {
			if f.RelPkg() != "pkg/compression" && f.RelPkg() != "pkg/encryption" {
				continue
			}
			info := f.Pkg.TypesInfo
			for _, cs := range f.calls {
				fn, ok := cs.Callee.(*types.Func)
				if !ok || fn.Pkg() == nil || !strings.HasSuffix(fn.Pkg().Path(), "internal/ioext") || (fn.Name() != "AddFlushNop" && fn.Name() != "AddCloseNopToWriter") || len(cs.Call.Args) != 1 {
					continue
				}
				n++
				buffered := false
				inspectThrough(f, cs.Call.Args[0], func(m ast.Node) bool {
					if call, ok := m.(*ast.CallExpr); ok {
						if g, ok := calleeObj(info, call).(*types.Func); ok && g.Pkg() != nil && g.Pkg().Path() == "bufio" && strings.HasPrefix(g.Name(), "NewWriter") {
							buffered = true
						}
					}
					if e, ok := m.(ast.Expr); ok {
						if tv, ok := info.Types[e]; ok && tv.Type != nil && tv.Type.String() == "*bufio.Writer" {
							buffered = true
						}
					}
					return !buffered
				})
				c.verdictIf(!buffered, rule, f, fmt.Sprintf("%s#%d", fn.Name(), n), cs.Call.Pos(), "the no-op adapter wraps nothing that buffers",
					"a bufio.Writer is wrapped in "+fn.Name()+", whose Flush/Close do nothing: the write operations' Flush and Close calls no longer reach the buffer, so the tail of every member - all of it for members smaller than the buffer - never reaches the tape")
			}
		}
	}
}

// ruleReadStreamClosedBeforeLoad: the streaming goroutine behind a handle's Read holds the read operations' lock until
// its pipe is drained or closed. enterWriteMode loads the existing content through the same operations: unless the
// stream has been closed first (or there is none) the load waits for that lock forever, holding the filesystem lock.
func ruleReadStreamClosedBeforeLoad(rule string) func(*Ctx) {
	return func(c *Ctx) {
		c.floor(rule, 1, "the load of existing content in File.enterWriteMode")
		f := c.fn("pkg/fs", "(*File).enterWriteMode")
		restore := c.fn("pkg/operations", "(*Operations).Restore")
		closer := c.fn("pkg/fs", "(*File).closeWithoutLocking")
		rd, wr := c.field("pkg/fs", "File", "readOpReader"), c.field("pkg/fs", "File", "readOpWriter")
		if f == nil || restore == nil || closer == nil || rd == nil || wr == nil {
			return
		}
		info := f.Pkg.TypesInfo
		fl := c.flow(f)
		n := 0
		for _, cs := range f.calls {
			if cs.Target != restore {
				continue
			}
			n++
			// both stream fields known nil, or the stream closed, on every path
			known := func(field *types.Var) bool {
				okk, _ := fl.guardedBy(cs.Call, func(ft Fact) bool {
					be, ok := ast.Unparen(ft.E).(*ast.BinaryExpr)
					if !ok || selField(info, be.X) != field || !isNilIdent(info, be.Y) {
						return false
					}
					return (be.Op == token.EQL) == ft.Pos
				}, func(nd ast.Node) bool {
					for _, call := range callsIn(nd) {
						if calleeObj(info, call) == types.Object(closer.Obj) {
							return true
						}
					}
					return false
				})
				return okk
			}
			c.verdictIf(known(rd) && known(wr), rule, f, fmt.Sprintf("Restore#%d after the read stream is closed", n), cs.Call.Pos(), "the existing content is loaded only when no read stream is open",
				"enterWriteMode loads the existing content while the handle's read stream may still be open: the streaming goroutine holds the read operations' lock until its pipe is drained or closed, so after a partial Read the first Write/WriteAt/Truncate on the same handle waits forever (holding the filesystem lock)")
		}
		if n == 0 {
			c.unresolved("File.enterWriteMode no longer loads through Operations.Restore")
		}
	}
}

// ruleListingUnfiltered: a directory handle reports every row the index lists for it. The loops of Readdir and
// Readdirnames that turn rows into results contain no `continue` and no conditional append.
func ruleListingUnfiltered(rule string) func(*Ctx) {
	return func(c *Ctx) {
		c.floor(rule, 2, "result loops of File.Readdir and File.Readdirnames")
		n := 0
		for _, name := range []string{"(*File).Readdir", "(*File).Readdirnames"} {
			f := c.fn("pkg/fs", name)
			if f == nil {
				continue
			}
			walkOwn(f.Body(), func(nd ast.Node) {
				loop, ok := nd.(*ast.RangeStmt)
				if !ok {
					return
				}
				n++
				var why string
				ast.Inspect(loop.Body, func(m ast.Node) bool {
					switch x := m.(type) {
					case *ast.BranchStmt:
						if x.Tok == token.CONTINUE || x.Tok == token.BREAK {
							why = x.Tok.String()
						}
					case *ast.IfStmt:
						ast.Inspect(x, func(k ast.Node) bool {
							if call, ok := k.(*ast.CallExpr); ok {
								if id, ok := call.Fun.(*ast.Ident); ok && id.Name == "append" {
									why = "a conditional append"
								}
							}
							return true
						})
					}
					return why == ""
				})
				c.verdictIf(why == "", rule, f, fmt.Sprintf("result loop#%d", n), loop.Pos(), "every listed row becomes a result",
					"the loop that turns listed rows into results contains "+why+": rows the index lists for the directory are dropped from what Readdir reports (e.g. a child that has the directory's own base name), so a live entry can no longer be reached by listing from the root")
			})
		}
		if n < 2 {
			c.unresolved("only %d result loops found in File.Readdir/Readdirnames", n)
		}
	}
}

// ruleContentOnlyThroughTarReader: what recovery.Fetch hands to the destination comes out of the tar reader (directly
// for non-regular entries, through the decode/verify chain otherwise). The tar reader is what notices a member cut
// short (io.ErrUnexpectedEOF); a copy that reads the drive itself - even with the right length - turns a torn tail
// into a short but "successful" restore and bypasses verification.
func ruleContentOnlyThroughTarReader(rule string) func(*Ctx) {
	return func(c *Ctx) {
		c.floor(rule, 2, "copies into the destination in recovery.Fetch")
		f := c.fn("pkg/recovery", "Fetch")
		verify := c.fn("pkg/signature", "Verify")
		if f == nil || verify == nil {
			return
		}
		info := f.Pkg.TypesInfo
		isTarReader := func(t types.Type) bool {
			p, ok := t.(*types.Pointer)
			if !ok {
				return false
			}
			nt, ok := p.Elem().(*types.Named)
			return ok && nt.Obj().Pkg() != nil && nt.Obj().Pkg().Path() == "archive/tar" && nt.Obj().Name() == "Reader"
		}
		// the verifying reader: first result of signature.Verify
		var verifier types.Object
		walkOwn(f.Body(), func(nd ast.Node) {
			as, ok := nd.(*ast.AssignStmt)
			if !ok || len(as.Rhs) != 1 || len(as.Lhs) < 2 {
				return
			}
			if call, ok := ast.Unparen(as.Rhs[0]).(*ast.CallExpr); ok && isCallTo(info, call, verify.Obj) {
				verifier = objOfIdent(info, as.Lhs[0])
			}
		})
		n := 0
		for _, cs := range f.calls {
			fn, ok := cs.Callee.(*types.Func)
			if !ok || fn.Pkg() == nil || fn.Pkg().Path() != "io" || !strings.HasPrefix(fn.Name(), "Copy") || len(cs.Call.Args) < 2 {
				continue
			}
			// only copies into the caller's destination
			if tv, ok := info.Types[cs.Call.Args[0]]; !ok || tv.Type == nil || !strings.Contains(tv.Type.String(), "WriteCloser") {
				continue
			}
			n++
			src := ast.Unparen(cs.Call.Args[1])
			good := false
			if o := objOfIdent(info, src); o != nil && (o == verifier || isTarReader(o.Type())) {
				good = true
			}
			c.verdictIf(good, rule, f, fmt.Sprintf("copy#%d source", n), cs.Call.Pos(), "the destination is fed from the tar reader or the verifying reader built on it",
				"recovery.Fetch copies into the destination from "+exprString(src)+", which is neither the tar reader nor the verifying reader: a member cut short by a torn tail is then restored short without an error (the tar reader is what reports io.ErrUnexpectedEOF), and the bytes bypass the content signature")
		}
		if n < 2 {
			c.unresolved("only %d copies into the destination found in recovery.Fetch", n)
		}
	}
}

// ruleNoLengthGateOnSignatures: an encoded signature has no fixed length (a minisign signature prints its key id
// without zero padding: about one key pair in sixteen produces a shorter one). No rejection in pkg/signature is
// conditional on a length compared with a constant greater than one.
func ruleNoLengthGateOnSignatures(rule string) func(*Ctx) {
	return func(c *Ctx) {
		c.floor(rule, 1, "length comparisons in pkg/signature (none with a constant above one; matcher verified on a fixture)")
		scan := func(cc *Ctx, report func(f *FuncInfo, be *ast.BinaryExpr, k int64)) {
			for _, f := range cc.Funcs {
				if cc == c && f.RelPkg() != "pkg/signature" {
					continue
				}
				info := f.Pkg.TypesInfo
				walkOwn(f.Body(), func(nd ast.Node) {
					be, ok := nd.(*ast.BinaryExpr)
					if !ok {
						return
					}
					switch be.Op {
					case token.EQL, token.NEQ, token.LSS, token.GTR, token.LEQ, token.GEQ:
					default:
						return
					}
					for _, pair := range [][2]ast.Expr{{be.X, be.Y}, {be.Y, be.X}} {
						call, ok := ast.Unparen(pair[0]).(*ast.CallExpr)
						if !ok {
							continue
						}
						id, ok := ast.Unparen(call.Fun).(*ast.Ident)
						if !ok {
							continue
						}
						if b, ok := info.Uses[id].(*types.Builtin); !ok || b.Name() != "len" {
							continue
						}
						tv, ok := info.Types[pair[1]]
						if !ok || tv.Value == nil || tv.Value.Kind() != constant.Int {
							continue
						}
						if k, exact := constant.Int64Val(tv.Value); exact && k > 1 {
							report(f, be, k)
						}
					}
				})
			}
		}
		n := 0
		scan(c, func(f *FuncInfo, be *ast.BinaryExpr, k int64) {
			n++
			c.bad(rule, f, fmt.Sprintf("length gate#%d", n), be.Pos(), "%s: a signature (or key) is judged by a fixed length of %d; encoded signatures are not fixed-length (minisign prints the key id without zero padding), so some freshly generated pairs produce signatures that their own public half rejects", exprString(be), k)
		})
		if n == 0 {
			fc, err := fixtureCtx("pkg/fixture", "package fixture\nfunc f(b []byte) bool { return len(b) != 292 }\n")
			alive := false
			if err == nil {
				scan(fc, func(f *FuncInfo, be *ast.BinaryExpr, k int64) { alive = true })
			}
			if !alive {
				c.unresolved("length-gate matcher failed its positive control")
			}
			c.ok(rule, nil, "no length gate", token.NoPos, false, "pkg/signature compares no length with a constant above one (matcher verified on an embedded fixture)")
		}
	}
}

// ruleMoveNoopAfterNormalisation: Operations.Move writes nothing when source and destination are the same entry. The
// comparison has to be made on the names as they finally are: every WriteHeader lies behind a `from != to` edge that
// no later assignment to either name invalidates (the destination loses its leading slash for relative indexes).
func ruleMoveNoopAfterNormalisation(rule string) func(*Ctx) {
	return func(c *Ctx) {
		c.floor(rule, 1, "WriteHeader sites in Operations.Move")
		f := c.fn("pkg/operations", "(*Operations).Move")
		if f == nil {
			return
		}
		info := f.Pkg.TypesInfo
		from, to := paramVar(f, "from"), paramVar(f, "to")
		if from == nil || to == nil {
			c.unresolved("parameters from/to of Operations.Move")
			return
		}
		fl := c.flow(f)
		an := &Analysis{Must: true, Entry: 0,
			Node: func(nd ast.Node, s State) State {
				if as, ok := nd.(*ast.AssignStmt); ok {
					for _, l := range as.Lhs {
						if o := objOfIdent(info, l); o == types.Object(from) || o == types.Object(to) {
							s &^= 1
						}
					}
				}
				return s
			},
			Edge: func(b *cfg.Block, i int, s State) State {
				for _, ft := range fl.edgeFacts(b, i) {
					be, ok := ast.Unparen(ft.E).(*ast.BinaryExpr)
					if !ok || (be.Op != token.EQL && be.Op != token.NEQ) {
						continue
					}
					x, y := objOfIdent(info, be.X), objOfIdent(info, be.Y)
					if !((x == types.Object(from) && y == types.Object(to)) || (x == types.Object(to) && y == types.Object(from))) {
						continue
					}
					if (be.Op == token.NEQ) == ft.Pos {
						s |= 1
					}
				}
				return s
			}}
		fl.solve(an)
		n := 0
		for _, ws := range writeHeaderSites(c) {
			if ws.f != f {
				continue
			}
			n++
			s, reach := fl.before(an, ws.cs.Call)
			if !reach {
				continue
			}
			c.verdictIf(s&1 != 0, rule, f, fmt.Sprintf("WriteHeader#%d names differ", ws.ord), ws.cs.Call.Pos(), "a move record is written only when the final source and destination names differ",
				"Move can write a record although source and destination are the same entry once the destination has been normalised (`c` -> `/c` on an index with relative names): the record names itself as what it replaces, inherits the entry's content flag and makes the index point at a header with no content behind it")
		}
		if n == 0 {
			c.unresolved("no WriteHeader site in Operations.Move")
		}
	}
}

// ruleTombstonePositionUnconditional: a delete record is always the newest record of its entry. DeleteHeader stores
// the record's position on the tombstone unconditionally - a guard that compares it with the old position (and gets
// the pair comparison wrong) leaves the index's end-of-tape behind the tape.
func ruleTombstonePositionUnconditional(rule string) func(*Ctx) {
	return func(c *Ctx) {
		c.floor(rule, 2, "stores of the last-known position in MetadataPersister.DeleteHeader")
		f := c.fn("pkg/persisters", "(*MetadataPersister).DeleteHeader")
		if f == nil {
			return
		}
		info := f.Pkg.TypesInfo
		n := 0
		for _, fname := range []string{"Lastknownrecord", "Lastknownblock"} {
			fv := c.field("internal/db/sqlite/models/metadata", "Header", fname)
			if fv == nil {
				continue
			}
			for _, st := range c.storesTo(fv) {
				if st.In != f {
					continue
				}
				if _, isKV := st.Node.(*ast.KeyValueExpr); isKV {
					continue
				}
				n++
				var conds []string
				for _, cl := range enclosingCondsFlow(info, f.Body(), st.Node) {
					conds = append(conds, exprString(cl.e))
				}
				c.verdictIf(len(conds) == 0, rule, f, fmt.Sprintf("store %s#%d", fname, n), st.Node.Pos(), "the tombstone takes the delete record's position unconditionally",
					"the tombstone's "+fname+" is stored only when "+strings.Join(conds, " and ")+": a delete record that lands in a later tape record at a lower block offset keeps the old position, the index's end-of-tape falls behind the tape and the next operation pairs its headers with the wrong records")
			}
		}
		if n < 2 {
			c.unresolved("only %d stores of the last-known position found in DeleteHeader", n)
		}
	}
}

// ruleUpdateAppliedWhenRowFound: whether a replayed update record is applied depends on the record and on whether its
// row exists - nothing else. A condition on the CONTENT of the row that was looked up (its stored spelling, its kind)
// makes the outcome depend on how the index in hand spells names: a rebuild (relative names) then drops updates that
// the live index (absolute names) applied.
func ruleUpdateAppliedWhenRowFound(rule string) func(*Ctx) {
	return func(c *Ctx) {
		c.floor(rule, 2, "persister writes in the update arm of indexHeader")
		f := c.fn("pkg/recovery", "indexHeader")
		if f == nil {
			return
		}
		info := f.Pkg.TypesInfo
		// variables holding rows read from the index
		rows := map[types.Object]bool{}
		walkOwn(f.Body(), func(nd ast.Node) {
			as, ok := nd.(*ast.AssignStmt)
			if !ok || len(as.Rhs) != 1 || len(as.Lhs) < 2 {
				return
			}
			call, ok := ast.Unparen(as.Rhs[0]).(*ast.CallExpr)
			if !ok {
				return
			}
			if fn, ok := calleeObj(info, call).(*types.Func); ok && strings.HasPrefix(fn.Name(), "GetHeader") {
				if o := objOfIdent(info, as.Lhs[0]); o != nil {
					rows[o] = true
				}
			}
		})
		// ... and variables that are assigned under a condition on such a row (`if oldHdr.Name != x { err = ErrNoRows }`)
		mentions := func(e ast.Node) bool {
			uses := false
			ast.Inspect(e, func(m ast.Node) bool {
				if id, ok := m.(*ast.Ident); ok && rows[info.Uses[id]] {
					uses = true
				}
				return !uses
			})
			return uses
		}
		for pass := 0; pass < 2; pass++ {
			walkOwn(f.Body(), func(nd ast.Node) {
				as, ok := nd.(*ast.AssignStmt)
				if !ok {
					return
				}
				for _, cl := range enclosingCondsFlow(info, f.Body(), as) {
					if mentions(cl.e) {
						for _, l := range as.Lhs {
							if o := objOfIdent(info, l); o != nil {
								rows[o] = true
							}
						}
					}
				}
			})
		}
		n := 0
		for _, cs := range f.calls {
			fn, ok := cs.Callee.(*types.Func)
			if !ok || (fn.Name() != "UpdateHeaderMetadata" && fn.Name() != "MoveHeader" && fn.Name() != "UpsertHeader" && fn.Name() != "DeleteHeader") {
				continue
			}
			n++
			var bad []string
			for _, cl := range enclosingCondsFlow(info, f.Body(), cs.Call) {
				if containsNode(cl.e, cs.Call) {
					continue
				}
				uses := false
				ast.Inspect(cl.e, func(m ast.Node) bool {
					if id, ok := m.(*ast.Ident); ok && rows[info.Uses[id]] {
						uses = true
					}
					return !uses
				})
				if uses {
					bad = append(bad, exprString(cl.e))
				}
			}
			c.verdictIf(len(bad) == 0, rule, f, fmt.Sprintf("%s#%d", fn.Name(), n), cs.Call.Pos(), "applied whenever its row exists",
				"whether this record is applied depends on the content of the row that was looked up ("+strings.Join(bad, ", ")+"): indexes spell names differently (a rebuild stores them relative, the live index as the caller gave them), so the same tape yields different rows depending on which index replays it")
		}
		if n < 2 {
			c.unresolved("only %d persister writes found in indexHeader", n)
		}
	}
}

func init() {
	extend("C11", ruleFsIndexReadsUnderLock("C11.fs-index-reads-under-lock"))
	extend("C06", ruleRestoredLengthChecked("C06.restored-length-checked"))
	extend("C03", ruleRestoredLengthChecked("C03.restored-length-checked"))
	extend("C02", ruleWriteRecordCarriesOwner("C02.write-record-carries-owner"))
}

// ruleFsIndexReadsUnderLock: the filesystem's entry points decide on what the index says; every look into the index
// (inventory.*, the metadata persister) from a method of fs.STFS happens while the filesystem lock is held - a check
// made before the lock is taken can be overtaken by another client's rename or remove (Create returning "does not
// exist" for a directory that exists before and after a concurrent Rename).
func ruleFsIndexReadsUnderLock(rule string) func(*Ctx) {
	return func(c *Ctx) {
		c.floor(rule, 30, "index lookups in the methods of fs.STFS")
		mu := c.mutex("fs.STFS")
		iface := c.namedType("pkg/config", "MetadataPersister")
		if mu == nil || iface == nil {
			return
		}
		isIndexRead := func(cs *CallSite) bool {
			fn, ok := cs.Callee.(*types.Func)
			if !ok || fn.Pkg() == nil {
				return false
			}
			if strings.HasSuffix(fn.Pkg().Path(), "pkg/inventory") {
				return true
			}
			sig := fn.Type().(*types.Signature)
			return sig.Recv() != nil && types.Identical(sig.Recv().Type(), iface)
		}
		// helpers entered with the lock held by every caller
		heldOnEntry := map[*FuncInfo]bool{}
		for pass := 0; pass < 3; pass++ {
			for _, f := range c.Funcs {
				if f.RelPkg() != "pkg/fs" || f.Decl == nil || f.Decl.Name.IsExported() || !strings.HasPrefix(f.Name, "(*STFS).") {
					continue
				}
				callers, all := 0, true
				for _, g := range c.Funcs {
					for _, cs := range g.calls {
						if cs.Target != f {
							continue
						}
						callers++
						root := g
						for root.Outer != nil {
							root = root.Outer
						}
						if !(c.lockHeldAt(g, cs.Call, mu) || heldOnEntry[root]) {
							all = false
						}
					}
				}
				if callers > 0 && all {
					heldOnEntry[f] = true
				}
			}
		}
		n := 0
		for _, f := range c.Funcs {
			root := f
			for root.Outer != nil {
				root = root.Outer
			}
			if f.RelPkg() != "pkg/fs" || root.Decl == nil || !strings.HasPrefix(root.Name, "(*STFS).") {
				continue
			}
			k := 0
			for _, cs := range f.calls {
				if !isIndexRead(cs) {
					continue
				}
				n++
				k++
				held := heldOnEntry[root] || c.lockHeldAt(f, cs.Call, mu)
				if f != root && !held {
					// a closure: held if the closure is only called where the lock is held
					held = c.lockHeldAt(root, cs.Call, mu)
				}
				c.verdictIf(held, rule, root, fmt.Sprintf("%s index read#%d %s", strings.TrimPrefix(f.Name, root.Name), k, cs.Callee.Name()), cs.Call.Pos(), "made while the filesystem lock is held",
					"the index is consulted ("+exprString(cs.Call.Fun)+") without the filesystem lock: the answer can be overtaken by another client's call before it is acted on (Create reporting a missing parent while a concurrent Rename replaces that directory, which exists before and after)")
			}
		}
	}
}

// ruleRestoredLengthChecked: recovery.Fetch does not rely on the decoders to notice a member that was cut short (the
// zstandard reader reports a stream that ends before its first byte as a clean end): the number of bytes restored is
// compared with the size recorded in the member's header, and a mismatch is an error.
func ruleRestoredLengthChecked(rule string) func(*Ctx) {
	return func(c *Ctx) {
		c.floor(rule, 1, "the content copy of recovery.Fetch")
		f := c.fn("pkg/recovery", "Fetch")
		verify := c.fn("pkg/signature", "Verify")
		if f == nil || verify == nil {
			return
		}
		info := f.Pkg.TypesInfo
		var verifier types.Object
		walkOwn(f.Body(), func(nd ast.Node) {
			as, ok := nd.(*ast.AssignStmt)
			if !ok || len(as.Rhs) != 1 || len(as.Lhs) < 2 {
				return
			}
			if call, ok := ast.Unparen(as.Rhs[0]).(*ast.CallExpr); ok && isCallTo(info, call, verify.Obj) {
				verifier = objOfIdent(info, as.Lhs[0])
			}
		})
		n := 0
		walkOwn(f.Body(), func(nd ast.Node) {
			as, ok := nd.(*ast.AssignStmt)
			if !ok || len(as.Rhs) != 1 || len(as.Lhs) != 2 {
				return
			}
			call, ok := ast.Unparen(as.Rhs[0]).(*ast.CallExpr)
			if !ok || !isPkgFunc(calleeObj(info, call), "io", "Copy") || len(call.Args) != 2 || objOfIdent(info, call.Args[1]) != verifier || verifier == nil {
				return
			}
			n++
			cnt := objOfIdent(info, as.Lhs[0])
			checked := false
			if cnt != nil {
				walkOwn(f.Body(), func(m ast.Node) {
					is, ok := m.(*ast.IfStmt)
					if !ok || !usesObj(info, is.Cond, cnt) {
						return
					}
					if branchReturnsError(info, is.Body) {
						checked = true
					}
				})
			}
			c.verdictIf(checked, rule, f, fmt.Sprintf("content copy#%d length", n), call.Pos(), "the number of bytes restored is compared with the recorded size",
				"recovery.Fetch does not look at how many bytes the content copy delivered: a member cut short right behind its header is restored as zero bytes without an error under a decoder that treats an empty stream as a clean end (zstandard)")
		})
		if n == 0 {
			c.unresolved("no `n, err := io.Copy(dst, verifier)` found in recovery.Fetch")
		}
	}
}

// ruleWriteRecordCarriesOwner: the record a handle writes for new content carries the entry's owner. archive/tar takes
// ownership only from a *tar.Header (or the platform's stat type), not from this package's own Stat: the file info
// handed to Operations.Update by File.syncWithoutLocking comes from a tar header (hdr.FileInfo()).
func ruleWriteRecordCarriesOwner(rule string) func(*Ctx) {
	return func(c *Ctx) {
		c.floor(rule, 1, "file info handed to Operations.Update by File.syncWithoutLocking")
		f := c.fn("pkg/fs", "(*File).syncWithoutLocking")
		infoF := c.field("pkg/config", "FileConfig", "Info")
		if f == nil || infoF == nil {
			return
		}
		n := 0
		for _, g := range append([]*FuncInfo{f}, c.litsIn(f)...) {
			ginfo := g.Pkg.TypesInfo
			walkOwn(g.Body(), func(nd ast.Node) {
				kv, ok := nd.(*ast.KeyValueExpr)
				if !ok {
					return
				}
				id, ok := kv.Key.(*ast.Ident)
				if !ok || ginfo.Uses[id] != types.Object(infoF) {
					return
				}
				n++
				fromHeader := false
				inspectThrough(g, kv.Value, func(m ast.Node) bool {
					if call, ok := m.(*ast.CallExpr); ok && isMethod(calleeObj(ginfo, call), "archive/tar", "Header", "FileInfo") {
						fromHeader = true
					}
					return !fromHeader
				})
				c.verdictIf(fromHeader, rule, f, fmt.Sprintf("FileConfig.Info#%d", n), kv.Pos(), "the info comes from a tar header, which carries owner and times",
					"the file info handed to Update for a content write is not a tar header's: archive/tar.FileInfoHeader copies uid/gid and access/change times only from a *tar.Header (or the platform's stat type), so every write through a handle resets the entry's owner to 0/0")
			})
		}
		if n == 0 {
			c.unresolved("File.syncWithoutLocking no longer fills config.FileConfig.Info")
		}
	}
}

func init() {
	extend("C11", ruleHandleInfoNotShared("C11.handle-info-not-shared"))
	extend("C02", ruleTruncateAtOpen("C02.truncate-at-open"))
	extend("C14", ruleTruncateAtOpen("C14.truncate-at-open"))
}

// ruleHandleInfoNotShared: File.Stat hands out a copy of the handle's file info. The handle updates its own info in
// place under the filesystem lock; a caller holding the same object reads it without the lock (a data race), and
// edits made for one Stat (the link's name) would stay in the handle.
func ruleHandleInfoNotShared(rule string) func(*Ctx) {
	return func(c *Ctx) {
		c.floor(rule, 1, "success returns of File.Stat")
		f := c.fn("pkg/fs", "(*File).Stat")
		infoF := c.field("pkg/fs", "File", "info")
		if f == nil || infoF == nil {
			return
		}
		info := f.Pkg.TypesInfo
		n := 0
		for i, ret := range returnsIn(f) {
			if len(ret.Results) != 2 || !isNilIdent(info, ret.Results[1]) {
				continue
			}
			n++
			shared := false
			e := ast.Unparen(ret.Results[0])
			if selField(info, e) == infoF {
				shared = true
			}
			if d := localDef(f, e); d != nil && selField(info, ast.Unparen(d)) == infoF {
				shared = true // `info := f.info` copies the pointer, not the object
			}
			c.verdictIf(!shared, rule, f, fmt.Sprintf("return#%d", i+1), ret.Pos(), "a copy is handed out",
				"File.Stat returns the handle's own info object: the handle keeps writing to it under the filesystem lock (the size, on every later Stat) while the caller reads it without any lock - a data race - and an adjustment made for this call (the link's name) sticks to the handle")
		}
		if n == 0 {
			c.unresolved("no success return found in File.Stat")
		}
	}
}

// ruleTruncateAtOpen: O_TRUNC empties the file when it is opened. Truncation is implemented by entering write mode
// (which empties the buffer); OpenFile therefore enters write mode itself for a truncating, writable open - otherwise
// reads on the handle see the old content and a Close without a write keeps it.
func ruleTruncateAtOpen(rule string) func(*Ctx) {
	return func(c *Ctx) {
		c.floor(rule, 1, "the truncating open in STFS.OpenFile")
		f := c.fn("pkg/fs", "(*STFS).OpenFile")
		enter := c.fn("pkg/fs", "(*File).enterWriteMode")
		truncF := c.field("pkg/fs", "FileFlags", "Truncate")
		if f == nil || enter == nil || truncF == nil {
			return
		}
		info := f.Pkg.TypesInfo
		found := false
		var at token.Pos = f.Pos()
		for _, cs := range f.calls {
			if cs.Target != enter {
				continue
			}
			at = cs.Call.Pos()
			for _, cl := range enclosingCondsFlow(info, f.Body(), cs.Call) {
				ast.Inspect(cl.e, func(m ast.Node) bool {
					if e, ok := m.(ast.Expr); ok && selField(info, e) == truncF && cl.pos {
						found = true
					}
					return !found
				})
			}
		}
		c.verdictIf(found, rule, f, "O_TRUNC applied at open", at, "a truncating open enters write mode (which empties the buffer) before the handle is handed out",
			"OpenFile hands out a handle for O_TRUNC without applying the truncation: it only happens when the handle is first written to, so reads on the handle still return the old content and Create() + Close() on an existing file leaves it as it was")
	}
}

func init() {
	extend("C14", ruleNegativeSeekRefused("C14.negative-seek-refused"))
}

// ruleNegativeSeekRefused: there is nothing in front of the first byte. In read mode the seek target is computed by
// the whence dispatch into one variable; before the stream is touched that variable is tested `< 0` and the call
// refused.
func ruleNegativeSeekRefused(rule string) func(*Ctx) {
	return func(c *Ctx) {
		c.floor(rule, 1, "the computed target of File.seekWithoutLocking")
		f := c.fn("pkg/fs", "(*File).seekWithoutLocking")
		if f == nil {
			return
		}
		info := f.Pkg.TypesInfo
		wh := paramVar(f, "whence")
		// the target variable: assigned in an arm of the whence dispatch
		var target types.Object
		for _, t := range c.switchesOn(f, wh) {
			for _, arm := range t.Arms {
				for _, st := range arm.Body {
					if as, ok := st.(*ast.AssignStmt); ok && len(as.Lhs) == 1 {
						if o := objOfIdent(info, as.Lhs[0]); o != nil && target == nil {
							target = o
						}
					}
				}
			}
		}
		if target == nil {
			c.unresolved("no target variable assigned by the whence dispatch of seekWithoutLocking")
			return
		}
		refused := false
		var at token.Pos = f.Pos()
		walkOwn(f.Body(), func(nd ast.Node) {
			is, ok := nd.(*ast.IfStmt)
			if !ok {
				return
			}
			be, ok := ast.Unparen(is.Cond).(*ast.BinaryExpr)
			if !ok || be.Op != token.LSS || objOfIdent(info, be.X) != target {
				return
			}
			if tv := info.Types[be.Y]; tv.Value == nil || tv.Value.String() != "0" {
				return
			}
			if branchReturnsError(info, is.Body) {
				refused = true
				at = is.Pos()
			}
		})
		c.verdictIf(refused, rule, f, "target below zero", at, "a negative target is refused before the stream is touched",
			"a seek target below zero is accepted on a read handle: Seek(-5, SeekStart) returns -5 and no error, and the next Read starts at offset 0")
	}
}

func init() {
	extend("C10", ruleOptionalCallbackGuarded("C10.optional-callback-guarded"))
}

// ruleOptionalCallbackGuarded: a contradiction rule. The header callback of Operations is tested for nil at some call
// sites, so it is optional; a call of it that no nil test guards is a crash for everyone who took that at its word
// (the unguarded calls sat in the callbacks handed to the indexer, i.e. AFTER the record had been appended).
func ruleOptionalCallbackGuarded(rule string) func(*Ctx) {
	return func(c *Ctx) {
		c.floor(rule, 6, "calls of the optional header callbacks in pkg/operations")
		cb := c.field("pkg/operations", "Operations", "onHeader")
		if cb == nil {
			return
		}
		n, guardedSomewhere := 0, false
		type site struct {
			f    *FuncInfo
			call *ast.CallExpr
			ok   bool
		}
		var sites []site
		for _, f := range c.Funcs {
			if f.RelPkg() != "pkg/operations" {
				continue
			}
			info := f.Pkg.TypesInfo
			for _, cs := range f.calls {
				if selField(info, cs.Call.Fun) != cb {
					continue
				}
				n++
				guarded := false
				root := f
				for g := f; g != nil; g = g.Outer {
					root = g
					for _, cl := range enclosingCondsFlow(g.Pkg.TypesInfo, g.Body(), cs.Call) {
						be, ok := ast.Unparen(cl.e).(*ast.BinaryExpr)
						if ok && selField(info, be.X) == cb && isNilIdent(info, be.Y) && ((be.Op == token.NEQ) == cl.pos) {
							guarded = true
						}
					}
				}
				_ = root
				if guarded {
					guardedSomewhere = true
				}
				sites = append(sites, site{f, cs.Call, guarded})
			}
		}
		perRoot := map[*FuncInfo]int{}
		for _, s := range sites {
			root := s.f
			for root.Outer != nil {
				root = root.Outer
			}
			perRoot[root]++
			c.verdictIf(s.ok || !guardedSomewhere, rule, root, fmt.Sprintf("onHeader call#%d", perRoot[root]), s.call.Pos(), "the optional callback is called under a nil test",
				"the header callback is called without a nil test although other call sites test it (so nil is a legal value): operations created without a callback panic here - in the callback handed to the indexer, after the record has already been appended")
		}
		_ = n
	}
}
